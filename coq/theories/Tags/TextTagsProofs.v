From Tempren Require Import Base.Str Tags.TextTags.
From Coq Require Import ZifyBool.
Open Scope Z_scope.

(* ---------- slicing ----------------------------------------------------------- *)

Lemma norm_index_range len i : 0 <= len -> 0 <= norm_index len i <= len.
Proof. intro H. unfold norm_index. destruct (i <? 0); lia. Qed.

Lemma py_slice_from s a :
  py_slice s (Some a) None = skipn (Z.to_nat (norm_index (Z.of_nat (length s)) a)) s.
Proof.
  unfold py_slice. set (len := Z.of_nat (length s)).
  pose proof (norm_index_range len a ltac:(lia)) as R.
  apply firstn_all2. rewrite skipn_length. lia.
Qed.

Lemma py_slice_to s b :
  py_slice s None (Some b) = firstn (Z.to_nat (norm_index (Z.of_nat (length s)) b)) s.
Proof. unfold py_slice. rewrite Z.sub_0_r. reflexivity. Qed.

(* ---------- Trim --------------------------------------------------------------- *)

Theorem trim_length_pos w left s :
  0 < w -> length (trim w left s) = Nat.min (length s) (Z.to_nat w).
Proof.
  intro Hw. unfold trim. destruct left.
  - rewrite py_slice_from, skipn_length. unfold norm_index.
    destruct (- w <? 0) eqn:E; lia.
  - rewrite py_slice_to, firstn_length. unfold norm_index.
    destruct (w <? 0) eqn:E; lia.
Qed.

Theorem trim_length_neg w left s :
  w < 0 -> length (trim w left s) = (length s - Nat.min (length s) (Z.to_nat (- w)))%nat.
Proof.
  intro Hw. unfold trim. destruct left.
  - rewrite py_slice_from, skipn_length. unfold norm_index.
    destruct (- w <? 0) eqn:E; lia.
  - rewrite py_slice_to, firstn_length. unfold norm_index.
    destruct (w <? 0) eqn:E; lia.
Qed.

(* cropping the left side off leaves a suffix, cropping the right side off a prefix *)
Theorem trim_left_suffix w s : exists p, s = p ++ trim w true s.
Proof.
  unfold trim. rewrite py_slice_from.
  eexists. symmetry. apply firstn_skipn.
Qed.

Theorem trim_right_prefix w s : exists q, s = trim w false s ++ q.
Proof.
  unfold trim. rewrite py_slice_to.
  eexists. symmetry. apply firstn_skipn.
Qed.

(* ---------- Pad ----------------------------------------------------------------- *)

Lemma center_left_range marg w :
  0 < marg ->
  let l := marg / 2 + (if Z.odd marg && Z.odd w then 1 else 0) in 0 <= l <= marg.
Proof.
  intros Hm l. subst l.
  pose proof (Zmod_odd marg) as Ho.
  pose proof (Z.div_mod marg 2 ltac:(lia)) as Hd.
  destruct (Z.odd marg); destruct (Z.odd w); simpl; lia.
Qed.

Theorem pad_length w ch left right s :
  length (pad w ch left right s) = Nat.max (length s) (Z.to_nat w).
Proof.
  unfold pad. destruct (w <=? Z.of_nat (length s)) eqn:E; [lia|].
  assert (Hm : 0 < w - Z.of_nat (length s)) by lia.
  pose proof (center_left_range _ w Hm) as R. cbv zeta in R.
  destruct (left && right).
  - rewrite !app_length, !repeat_n_length. lia.
  - destruct left; rewrite app_length, repeat_n_length; lia.
Qed.

Theorem pad_contains w ch left right s :
  exists a b, pad w ch left right s = a ++ s ++ b /\
              (forall c, In c a -> c = ch) /\ (forall c, In c b -> c = ch).
Proof.
  unfold pad. destruct (w <=? Z.of_nat (length s)).
  - exists [], []. rewrite app_nil_r. repeat split; intros c [].
  - destruct (left && right).
    + eexists _, _. split; [reflexivity|]. split; apply repeat_n_all.
    + destruct left.
      * eexists _, []. rewrite app_nil_r. split; [reflexivity|].
        split; [apply repeat_n_all | intros c []].
      * exists [], (repeat_n ch (Z.to_nat (w - Z.of_nat (length s)))). split; [reflexivity|].
        split; [intros c [] | apply repeat_n_all].
Qed.

(* ---------- Strip ---------------------------------------------------------------- *)

Lemma lstrip_spec set s :
  exists a, s = a ++ lstrip set s /\ (forall c, In c a -> mem c set = true) /\
            match lstrip set s with [] => True | c :: _ => mem c set = false end.
Proof.
  induction s as [|c s IH]; simpl.
  - exists []. repeat split. intros c [].
  - destruct (mem c set) eqn:E.
    + destruct IH as [a [Ha [Hall Hend]]]. exists (c :: a). split; [simpl; congruence|].
      split; [|exact Hend]. intros x [->|Hx]; auto.
    + exists []. split; [reflexivity|]. split; [intros x []|exact E].
Qed.

Lemma rstrip_spec set s :
  exists b, s = rstrip set s ++ b /\ (forall c, In c b -> mem c set = true) /\
            match rev (rstrip set s) with [] => True | c :: _ => mem c set = false end.
Proof.
  unfold rstrip. destruct (lstrip_spec set (rev s)) as [a [Ha [Hall Hend]]].
  exists (rev a). split.
  - rewrite <- rev_app_distr, <- Ha, rev_involutive. reflexivity.
  - split.
    + intros c Hc. apply Hall. apply in_rev. exact Hc.
    + rewrite rev_involutive. exact Hend.
Qed.

(* the result is a contiguous part of the input; what was cut off consisted of listed
   characters only; on each stripped side the result is empty or ends in an unlisted one *)
Theorem strip_contiguous set left right s :
  exists a b, s = a ++ strip_tag set left right s ++ b /\
              (forall c, In c a -> mem c set = true) /\ (forall c, In c b -> mem c set = true).
Proof.
  unfold strip_tag. destruct (left && negb right).
  - destruct (lstrip_spec set s) as [a [Ha [Hall _]]]. exists a, [].
    rewrite app_nil_r. split; [exact Ha|]. split; [exact Hall | intros c []].
  - destruct (right && negb left).
    + destruct (rstrip_spec set s) as [b [Hb [Hall _]]]. exists [], b.
      split; [exact Hb|]. split; [intros c [] | exact Hall].
    + destruct (lstrip_spec set s) as [a [Ha [Halla _]]].
      destruct (rstrip_spec set (lstrip set s)) as [b [Hb [Hallb _]]].
      exists a, b. split; [|split; assumption].
      rewrite <- Hb. exact Ha.
Qed.

Theorem strip_left_end set s :
  match lstrip set s with [] => True | c :: _ => mem c set = false end.
Proof. destruct (lstrip_spec set s) as [a [_ [_ H]]]. exact H. Qed.

Theorem strip_right_end set s :
  match rev (rstrip set s) with [] => True | c :: _ => mem c set = false end.
Proof. destruct (rstrip_spec set s) as [a [_ [_ H]]]. exact H. Qed.

(* both ends after a two-sided strip *)
Lemma lstrip_rstrip_head set s :
  match lstrip set s with [] => True | c :: _ => mem c set = false end ->
  match rstrip set (lstrip set s) with [] => True | c :: _ => mem c set = false end.
Proof.
  intro H. destruct (rstrip_spec set (lstrip set s)) as [b [Hb _]].
  destruct (rstrip set (lstrip set s)) as [|c r] eqn:E; [exact I|].
  rewrite Hb in H. exact H.
Qed.

Theorem strip_both_ends set s :
  let r := strip_tag set false false s in
  match r with [] => True | c :: _ => mem c set = false end /\
  match rev r with [] => True | c :: _ => mem c set = false end.
Proof.
  unfold strip_tag; simpl. split.
  - apply lstrip_rstrip_head. apply strip_left_end.
  - apply strip_right_end.
Qed.

(* ---------- Collapse ---------------------------------------------------------------- *)

Fixpoint no_adj_from (set : str) (prev : bool) (r : str) : bool :=
  match r with
  | [] => true
  | c :: r' => negb (prev && mem c set) && no_adj_from set (mem c set) r'
  end.

Lemma collapse_from_no_adj set : forall s p, no_adj_from set p (collapse_from set p s) = true.
Proof.
  induction s as [|c s IH]; intro p; simpl; [reflexivity|].
  destruct (p && mem c set) eqn:E.
  - apply andb_true_iff in E as [-> _]. apply IH.
  - simpl. rewrite E. simpl. apply IH.
Qed.

(* no two adjacent characters of the result are both listed *)
Theorem collapse_no_adjacent set s : no_adj_from set false (collapse set s) = true.
Proof. apply collapse_from_no_adj. Qed.

Lemma no_adj_from_nth set : forall r p i a b,
  no_adj_from set p r = true ->
  nth_error r i = Some a -> nth_error r (S i) = Some b ->
  mem a set && mem b set = false.
Proof.
  induction r as [|c r IH]; intros p i a b H Ha Hb; [destruct i; discriminate|].
  simpl in H. apply andb_true_iff in H as [_ H].
  destruct i as [|i].
  - simpl in Ha, Hb. inversion Ha; subst c.
    destruct r as [|d r]; [discriminate|]. simpl in Hb. inversion Hb; subst d.
    simpl in H. apply andb_true_iff in H as [H _].
    destruct (mem a set && mem b set); [discriminate | reflexivity].
  - simpl in Ha. eapply IH; eauto.
Qed.

Theorem collapse_adjacent_spec set s i a b :
  nth_error (collapse set s) i = Some a -> nth_error (collapse set s) (S i) = Some b ->
  mem a set && mem b set = false.
Proof. apply no_adj_from_nth with (p := false). apply collapse_no_adjacent. Qed.

Inductive subseq : str -> str -> Prop :=
| sub_nil : subseq [] []
| sub_keep c r s : subseq r s -> subseq (c :: r) (c :: s)
| sub_drop c r s : subseq r s -> subseq r (c :: s).

Lemma collapse_from_subseq set : forall s p, subseq (collapse_from set p s) s.
Proof.
  induction s as [|c s IH]; intro p; simpl; [constructor|].
  destruct (p && mem c set); [apply sub_drop | apply sub_keep]; apply IH.
Qed.

Theorem collapse_subseq set s : subseq (collapse set s) s.
Proof. apply collapse_from_subseq. Qed.

Lemma collapse_from_keeps_unlisted set : forall s p,
  filter (fun c => negb (mem c set)) (collapse_from set p s) =
  filter (fun c => negb (mem c set)) s.
Proof.
  induction s as [|c s IH]; intro p; simpl; [reflexivity|].
  destruct (p && mem c set) eqn:E.
  - apply andb_true_iff in E as [_ E]. rewrite E. simpl. apply IH.
  - simpl. destruct (negb (mem c set)); [f_equal|]; apply IH.
Qed.

(* characters outside the set are all kept, in order *)
Theorem collapse_keeps_unlisted set s :
  filter (fun c => negb (mem c set)) (collapse set s) = filter (fun c => negb (mem c set)) s.
Proof. apply collapse_from_keeps_unlisted. Qed.

(* the first character of every run survives: nothing non-empty collapses to nothing *)
Theorem collapse_nonempty set s : s <> [] -> collapse set s <> [].
Proof. destruct s as [|c s]; [contradiction|]. intros _. unfold collapse; simpl. discriminate. Qed.

(* ---------- SplitCase ------------------------------------------------------------------ *)

Theorem split_case_length sep s :
  length (split_case sep s) = (length s + boundaries s * length sep)%nat.
Proof.
  induction s as [|a s IH]; [reflexivity|].
  destruct s as [|b s']; [reflexivity|].
  change (split_case sep (a :: b :: s')) with
    (if is_ascii_lower a && is_ascii_upper b then a :: sep ++ split_case sep (b :: s')
     else a :: split_case sep (b :: s')).
  change (boundaries (a :: b :: s')) with
    ((if is_ascii_lower a && is_ascii_upper b then 1 else 0) + boundaries (b :: s'))%nat.
  destruct (is_ascii_lower a && is_ascii_upper b); simpl length in *.
  - rewrite app_length, IH. simpl length. lia.
  - rewrite IH. simpl length. lia.
Qed.

Lemma subseq_app_l sep r s : subseq r s -> subseq r (sep ++ s).
Proof. induction sep; simpl; intro H; [exact H | apply sub_drop; auto]. Qed.

(* only separators are inserted: the input is a subsequence of the output ... *)
Theorem split_case_subseq sep s : subseq s (split_case sep s).
Proof.
  induction s as [|a s IH]; [constructor|].
  destruct s as [|b s']; [repeat constructor|].
  change (split_case sep (a :: b :: s')) with
    (if is_ascii_lower a && is_ascii_upper b then a :: sep ++ split_case sep (b :: s')
     else a :: split_case sep (b :: s')).
  destruct (is_ascii_lower a && is_ascii_upper b).
  - apply sub_keep. apply subseq_app_l. exact IH.
  - apply sub_keep. exact IH.
Qed.

(* ... and exactly one separator per lower/upper boundary (length law above); in
   particular a text without such a boundary is returned unchanged *)
Theorem split_case_no_boundary sep s : boundaries s = O -> split_case sep s = s.
Proof.
  induction s as [|a s IH]; [reflexivity|].
  destruct s as [|b s']; [reflexivity|].
  change (boundaries (a :: b :: s')) with
    ((if is_ascii_lower a && is_ascii_upper b then 1 else 0) + boundaries (b :: s'))%nat.
  change (split_case sep (a :: b :: s')) with
    (if is_ascii_lower a && is_ascii_upper b then a :: sep ++ split_case sep (b :: s')
     else a :: split_case sep (b :: s')).
  destruct (is_ascii_lower a && is_ascii_upper b); intro H; [discriminate|].
  f_equal. apply IH. exact H.
Qed.

(* the exact insertion positions: output = input with [sep] spliced in after every
   lower-case letter that is followed by an upper-case letter *)
Fixpoint splice (sep : str) (s : str) : str :=
  match s with
  | [] => []
  | a :: s' =>
    a :: (match s' with
          | b :: _ => if is_ascii_lower a && is_ascii_upper b then sep else []
          | [] => []
          end) ++ splice sep s'
  end.

Theorem split_case_is_splice sep s : split_case sep s = splice sep s.
Proof.
  induction s as [|a s IH]; [reflexivity|].
  destruct s as [|b s']; [reflexivity|].
  change (split_case sep (a :: b :: s')) with
    (if is_ascii_lower a && is_ascii_upper b then a :: sep ++ split_case sep (b :: s')
     else a :: split_case sep (b :: s')).
  change (splice sep (a :: b :: s')) with
    (a :: (if is_ascii_lower a && is_ascii_upper b then sep else []) ++ splice sep (b :: s')).
  rewrite IH. destruct (is_ascii_lower a && is_ascii_upper b); reflexivity.
Qed.

(* ---------- character-wise maps ------------------------------------------------------------ *)

Section CharMapFacts.
  Variable tbl : N -> str.

  Lemma map_chars_app a b : map_chars tbl (a ++ b) = map_chars tbl a ++ map_chars tbl b.
  Proof. unfold map_chars. apply flat_map_app. Qed.

  (* idempotent on every code point  ==>  idempotent on every string *)
  Theorem map_chars_idempotent :
    (forall c, map_chars tbl (tbl c) = tbl c) ->
    forall s, map_chars tbl (map_chars tbl s) = map_chars tbl s.
  Proof.
    intros H s. induction s as [|c s IH]; [reflexivity|].
    change (map_chars tbl (c :: s)) with (tbl c ++ map_chars tbl s).
    rewrite map_chars_app, H, IH. reflexivity.
  Qed.

  (* every table entry pure ASCII  ==>  every output pure ASCII *)
  Theorem map_chars_ascii :
    (forall c x, In x (tbl c) -> (x < 128)%N) ->
    forall s x, In x (map_chars tbl s) -> (x < 128)%N.
  Proof.
    intros H s x Hx. unfold map_chars in Hx. apply in_flat_map in Hx as [c [_ Hc]].
    eapply H; eauto.
  Qed.
End CharMapFacts.
