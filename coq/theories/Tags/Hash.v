(* tempren/tags/hash.py: the chunked read loop, the streaming law, bit-level CRC-32,  *)
(* and the "%08x" rendering.                                                         *)
From Tempren Require Import Base.Str.
Open Scope N_scope.

(* for chunk in iter(lambda: f.read(n), b""): a buffered read of a regular file returns
   exactly n bytes until fewer remain; the loop ends at the first empty read.
   [fuel] bounds the number of reads; [S (length content)] always suffices for n > 0. *)
Fixpoint read_loop_fuel (fuel n : nat) (content : list N) : list (list N) :=
  match fuel with
  | O => []
  | S f =>
    match content with
    | [] => []
    | _ => firstn n content :: read_loop_fuel f n (skipn n content)
    end
  end.

Definition read_loop (n : nat) (content : list N) : list (list N) :=
  read_loop_fuel (S (length content)) n content.

(* the general contract of read(): ANY schedule of short reads (the k-th read returns
   min(k-th size, remaining) bytes, every size >= 1) *)
Fixpoint read_sched (sizes : list nat) (content : list N) : list (list N) :=
  match sizes with
  | [] => []
  | k :: rest =>
    match content with
    | [] => []
    | _ => firstn k content :: read_sched rest (skipn k content)
    end
  end.

(* ---------- CRC-32 (IEEE 802.3, reflected, polynomial 0xEDB88320), bit by bit ------- *)
Definition crc_poly : N := 3988292384.        (* 0xEDB88320 *)
Definition crc_mask : N := 4294967295.        (* 0xFFFFFFFF *)

Definition crc_step_bit (c : N) : N :=
  if N.odd c then N.lxor (N.shiftr c 1) crc_poly else N.shiftr c 1.

Definition crc_byte (c b : N) : N :=
  crc_step_bit (crc_step_bit (crc_step_bit (crc_step_bit
  (crc_step_bit (crc_step_bit (crc_step_bit (crc_step_bit (N.lxor c b)))))))).

Definition crc_raw (c : N) (data : list N) : N := fold_left crc_byte data c.

(* zlib.crc32(data, value) *)
Definition crc32 (data : list N) (v : N) : N :=
  N.lxor (crc_raw (N.lxor v crc_mask) data) crc_mask.

(* Crc32Tag.process: hash_value = 0; for chunk: hash_value = zlib.crc32(chunk, hash_value) *)
Definition crc32_chunked (chunks : list (list N)) : N :=
  fold_left (fun h c => crc32 c h) chunks 0.

(* ---------- f"{v:08x}" ---------------------------------------------------------------- *)
Definition hex_digit (d : N) : N := if d <? 10 then 48 + d else 87 + d.   (* 0-9 a-f *)

Fixpoint hex_n (k : nat) (v : N) : str :=
  match k with
  | O => []
  | S k' => hex_n k' (v / 16) ++ [hex_digit (v mod 16)]
  end.

Definition hex8 (v : N) : str := hex_n 8 v.

Definition hex_val (c : N) : option N :=
  if (48 <=? c) && (c <=? 57) then Some (c - 48)
  else if (97 <=? c) && (c <=? 102) then Some (c - 87)
  else None.

Definition N_of_hex (s : str) : option N :=
  fold_left (fun acc c => match acc, hex_val c with
                          | Some a, Some d => Some (a * 16 + d)
                          | _, _ => None end) s (Some 0).

Definition crc32_tag (n : nat) (content : list N) : str :=
  hex8 (crc32_chunked (read_loop n content)).

(* digests as an abstract streaming state machine (hashlib objects) *)
Section Digest.
  Variable st : Type.
  Variable update : st -> list N -> st.
  Definition digest_chunked (s0 : st) (chunks : list (list N)) : st := fold_left update chunks s0.
End Digest.
