(* Ad-hoc tags (tempren/adhoc.py: AdHocTag.configure / process, after the F24 repair).       *)
(* Model only; proofs are in Tags/AdHocProofs.v.                                             *)
From Tempren Require Import Base.Str Py.Utf8 Tags.TextTags.
Open Scope N_scope.

(* ---------- what the program is started with ---------------------------------------------- *)
(* subprocess.run(command_line, input=..., capture_output=True, cwd=file.input_directory):    *)
(* no shell, so [inv_argv] IS the argument vector of the new process.                         *)
(* inv_stdin = None: no input= given, the program inherits tempren's standard input;          *)
(* inv_stdin = Some b: a pipe carrying exactly the bytes b (possibly none), then end of file. *)
Record invocation := mkInv { inv_argv : list str; inv_stdin : option (list N); inv_cwd : str }.

(* exe = str(self.executable); args = the positional arguments given to configure;            *)
(* rel = str(file.relative_path); dir = str(file.input_directory); ctx = the context.         *)
(* The outer None is UnicodeEncodeError (lone surrogate in the context): nothing is started.  *)
Definition adhoc_invocation (exe : str) (args : list str) (rel dir : str) (ctx : option str)
  : option invocation :=
  match ctx with
  | None => Some (mkInv (exe :: args ++ [rel]) None dir)
  | Some c =>
    match utf8_encode_strict c with
    | Some b => Some (mkInv (exe :: args) (Some b) dir)
    | None => None
    end
  end.

(* The code before the repair of F24: [input=context.encode("utf-8") if context else None] —  *)
(* an EMPTY context is falsy, so the program inherits tempren's standard input.               *)
Definition adhoc_invocation_unfixed (exe : str) (args : list str) (rel dir : str) (ctx : option str)
  : option invocation :=
  match ctx with
  | None => Some (mkInv (exe :: args ++ [rel]) None dir)
  | Some [] => Some (mkInv (exe :: args) None dir)
  | Some c =>
    match utf8_encode_strict c with
    | Some b => Some (mkInv (exe :: args) (Some b) dir)
    | None => None
    end
  end.

(* ---------- str.strip() without argument --------------------------------------------------- *)
(* The code points for which str.isspace() is true (CPython 3.12, Unicode 15): a finite table, *)
(* validated by the harness against CPython over all 1114112 code points on every run.         *)
Definition ws_table : str :=
  [9; 10; 11; 12; 13; 28; 29; 30; 31; 32; 133; 160; 5760;
   8192; 8193; 8194; 8195; 8196; 8197; 8198; 8199; 8200; 8201; 8202;
   8232; 8233; 8239; 8287; 12288].

Definition py_isspace (c : N) : bool := mem c ws_table.
Definition py_strip (s : str) : str := rstrip ws_table (lstrip ws_table s).

(* ---------- what comes back ----------------------------------------------------------------- *)
(* captured_stdout = stdout.decode("utf-8")           -- UnicodeDecodeError propagates          *)
(* if returncode != 0: stderr.decode("utf-8"); raise MissingMetadataError                       *)
(* return captured_stdout.strip()                                                              *)
Inductive adhoc_outcome :=
| OValue (v : str)        (* the tag's value *)
| OMissing                (* MissingMetadataError: TagInstance.process renders it as "" *)
| ODecodeError            (* UnicodeDecodeError escapes (undecodable stdout, or stderr of a failed run) *)
| OEncodeError            (* UnicodeEncodeError: lone surrogate in the context, nothing was run *)
| OOther.                 (* never produced by the model (timeouts etc. are outside C20) *)

Definition adhoc_outcome_of (exit : Z) (stdout stderr : list N) : adhoc_outcome :=
  match utf8_decode stdout with
  | None => ODecodeError
  | Some t =>
    if (exit =? 0)%Z then OValue (py_strip t)
    else match utf8_decode stderr with
         | None => ODecodeError
         | Some _ => OMissing
         end
  end.

(* the text that ends up in the name (template/ast.py TagInstance.process); None = no name is
   produced at all, the exception aborts the run *)
Definition rendered (o : adhoc_outcome) : option str :=
  match o with
  | OValue v => Some v
  | OMissing => Some []
  | _ => None
  end.

(* whole call: program behaviour as a function of the invocation it was started with *)
Definition adhoc_process (exe : str) (args : list str) (rel dir : str) (ctx : option str)
           (prog : invocation -> Z * list N * list N) : adhoc_outcome :=
  match adhoc_invocation exe args rel dir ctx with
  | None => OEncodeError
  | Some inv => let '(x, o, e) := prog inv in adhoc_outcome_of x o e
  end.
