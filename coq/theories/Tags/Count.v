(* Model of tempren.tags.core.CountTag (configure / process).                   *)
(* A counter instance is a state machine: one optional common counter and one   *)
(* counter per directory key (file.absolute_path.parent).  As in the code, the  *)
(* counter is read, then incremented, and only then is the value checked for    *)
(* negativity (so a raising call still advances the counter).                   *)
From Tempren Require Import Base.Str.
Open Scope Z_scope.

Definition dirkey := list str.   (* absolute directory, one component per element *)

Definition dirkey_eqb : dirkey -> dirkey -> bool := list_eqb str_eqb.

Record count_cfg := { cc_start : Z; cc_step : Z; cc_width : Z; cc_common : bool }.

(* configure(): ValueError unless start >= 0, step <> 0, width >= 0 *)
Definition count_configure_ok (c : count_cfg) : bool :=
  (0 <=? cc_start c) && negb (cc_step c =? 0) && (0 <=? cc_width c).

Record count_state := { st_common : option Z; st_dirs : list (dirkey * Z) }.

Definition count_init (c : count_cfg) : count_state :=
  {| st_common := if cc_common c then Some (cc_start c) else None; st_dirs := [] |}.

Fixpoint dir_lookup (d : dirkey) (l : list (dirkey * Z)) (default : Z) : Z :=
  match l with
  | [] => default
  | (k, v) :: l' => if dirkey_eqb k d then v else dir_lookup d l' default
  end.

Fixpoint dir_update (d : dirkey) (v : Z) (l : list (dirkey * Z)) : list (dirkey * Z) :=
  match l with
  | [] => [(d, v)]
  | (k, w) :: l' => if dirkey_eqb k d then (k, v) :: l' else (k, w) :: dir_update d v l'
  end.

(* _get_counter_value_for, before the negativity check *)
Definition count_next (c : count_cfg) (st : count_state) (d : dirkey) : Z * count_state :=
  match st_common st with
  | Some v => (v, {| st_common := Some (v + cc_step c); st_dirs := st_dirs st |})
  | None =>
    let v := dir_lookup d (st_dirs st) (cc_start c) in
    (v, {| st_common := None; st_dirs := dir_update d (v + cc_step c) (st_dirs st) |})
  end.

(* str.zfill for a string without sign *)
Definition zfill (w : nat) (s : str) : str := repeat_n 48%N (w - length s) ++ s.

Inductive count_out :=
| CInt (v : Z)          (* width = 0: the integer itself *)
| CStr (s : str)        (* width > 0: str(value).zfill(width) *)
| CRaise.               (* ValueError: negative value generated *)

Definition render_count (w : Z) (v : Z) : count_out :=
  if v <? 0 then CRaise
  else if w =? 0 then CInt v
  else CStr (zfill (Z.to_nat w) (decimal_Z v)).

Definition count_process (c : count_cfg) (st : count_state) (d : dirkey)
  : count_out * count_state :=
  let '(v, st') := count_next c st d in (render_count (cc_width c) v, st').

(* raw values and rendered outputs of a whole call sequence *)
Fixpoint count_values_from (c : count_cfg) (st : count_state) (calls : list dirkey) : list Z :=
  match calls with
  | [] => []
  | d :: rest => let '(v, st') := count_next c st d in v :: count_values_from c st' rest
  end.

Definition count_values (c : count_cfg) (calls : list dirkey) : list Z :=
  count_values_from c (count_init c) calls.

Definition count_run (c : count_cfg) (calls : list dirkey) : list count_out :=
  map (render_count (cc_width c)) (count_values c calls).

(* what str(value) gives in a name: CInt is printed in decimal *)
Definition count_text (o : count_out) : option str :=
  match o with
  | CInt v => Some (decimal_Z v)
  | CStr s => Some s
  | CRaise => None
  end.

(* comparison used by the correspondence check *)
Definition count_out_eqb (a b : count_out) : bool :=
  match a, b with
  | CInt x, CInt y => x =? y
  | CStr x, CStr y => str_eqb x y
  | CRaise, CRaise => true
  | _, _ => false
  end.
