From Tempren Require Import Base.Str Tags.Hash.
Open Scope N_scope.

(* ---------- the read loop delivers the whole file, in order ------------------------- *)

Lemma read_loop_fuel_concat n : (0 < n)%nat -> forall fuel content,
  (length content < fuel)%nat -> concat (read_loop_fuel fuel n content) = content.
Proof.
  intros Hn. induction fuel as [|f IH]; intros content Hf; [lia|].
  destruct content as [|b content']; [reflexivity|].
  change (read_loop_fuel (S f) n (b :: content')) with
    (firstn n (b :: content') :: read_loop_fuel f n (skipn n (b :: content'))).
  cbn [concat]. rewrite IH.
  - apply firstn_skipn.
  - rewrite skipn_length. simpl length in *. lia.
Qed.

Theorem read_loop_concat n content : (0 < n)%nat -> concat (read_loop n content) = content.
Proof. intro Hn. apply read_loop_fuel_concat; [exact Hn | lia]. Qed.

(* no chunk is empty, every chunk but the last has exactly n bytes *)
Lemma read_loop_fuel_chunks n : (0 < n)%nat -> forall fuel content c,
  In c (read_loop_fuel fuel n content) -> c <> [] /\ (length c <= n)%nat.
Proof.
  intros Hn. induction fuel as [|f IH]; intros content c Hc; [contradiction|].
  destruct content as [|b content']; [contradiction|].
  change (read_loop_fuel (S f) n (b :: content')) with
    (firstn n (b :: content') :: read_loop_fuel f n (skipn n (b :: content'))) in Hc.
  destruct Hc as [<-|Hc].
  - split.
    + destruct n; [lia|]. discriminate.
    + apply firstn_le_length.
  - eapply IH; eauto.
Qed.

Theorem read_loop_chunks n content c :
  (0 < n)%nat -> In c (read_loop n content) -> c <> [] /\ (length c <= n)%nat.
Proof. intros Hn. apply read_loop_fuel_chunks. exact Hn. Qed.

(* any schedule of short reads that provides enough bytes in total *)
Fixpoint sum (l : list nat) : nat := match l with [] => O | x :: r => (x + sum r)%nat end.

Theorem read_sched_concat : forall sizes content,
  (forall k, In k sizes -> (0 < k)%nat) ->
  (length content <= sum sizes)%nat ->
  concat (read_sched sizes content) = content.
Proof.
  induction sizes as [|k rest IH]; intros content Hpos Hsum.
  - simpl in Hsum. destruct content; [reflexivity | simpl in Hsum; lia].
  - destruct content as [|b content']; [reflexivity|].
    change (read_sched (k :: rest) (b :: content')) with
      (firstn k (b :: content') :: read_sched rest (skipn k (b :: content'))).
    cbn [concat]. rewrite IH.
    + apply firstn_skipn.
    + intros j Hj. apply Hpos. right. exact Hj.
    + rewrite skipn_length. simpl sum in Hsum. lia.
Qed.

(* ---------- streaming law: chunked update = one-shot update --------------------------- *)
Section Streaming.
  Variable st : Type.
  Variable update : st -> list N -> st.
  Hypothesis update_app : forall s a b, update (update s a) b = update s (a ++ b).
  Hypothesis update_nil : forall s, update s [] = s.

  Lemma digest_chunked_concat : forall chunks s0,
    digest_chunked st update s0 chunks = update s0 (concat chunks).
  Proof.
    induction chunks as [|c cs IH]; intro s0; simpl.
    - symmetry. apply update_nil.
    - rewrite IH. apply update_app.
  Qed.

  Theorem digest_streaming n content s0 : (0 < n)%nat ->
    digest_chunked st update s0 (read_loop n content) = update s0 content.
  Proof. intro Hn. rewrite digest_chunked_concat, read_loop_concat by exact Hn. reflexivity. Qed.
End Streaming.

(* ---------- CRC-32 chaining --------------------------------------------------------------- *)

Lemma lxor_mask_involutive x : N.lxor (N.lxor x crc_mask) crc_mask = x.
Proof. rewrite N.lxor_assoc, N.lxor_nilpotent, N.lxor_0_r. reflexivity. Qed.

Theorem crc32_chain a b v : crc32 (a ++ b) v = crc32 b (crc32 a v).
Proof.
  unfold crc32, crc_raw. rewrite fold_left_app. rewrite lxor_mask_involutive. reflexivity.
Qed.

Lemma crc32_nil v : crc32 [] v = v.
Proof. unfold crc32, crc_raw; simpl. apply lxor_mask_involutive. Qed.

Lemma crc32_chunked_from : forall chunks h,
  fold_left (fun h c => crc32 c h) chunks h = crc32 (concat chunks) h.
Proof.
  induction chunks as [|c cs IH]; intro h; simpl.
  - symmetry. apply crc32_nil.
  - rewrite IH. symmetry. apply crc32_chain.
Qed.

Theorem crc32_chunked_whole n content : (0 < n)%nat ->
  crc32_chunked (read_loop n content) = crc32 content 0.
Proof.
  intro Hn. unfold crc32_chunked. rewrite crc32_chunked_from, read_loop_concat by exact Hn.
  reflexivity.
Qed.

(* ---------- 32-bit range ------------------------------------------------------------------ *)

Definition fits32 (x : N) : Prop := x < 2 ^ 32.

Lemma fits32_log2 x : fits32 x <-> (x = 0 \/ N.log2 x < 32).
Proof.
  unfold fits32. split.
  - intro H. destruct (N.eq_dec x 0) as [->|Hx]; [left; reflexivity|right].
    apply N.log2_lt_pow2; [lia | exact H].
  - intros [->|H]; [reflexivity|].
    destruct (N.eq_dec x 0) as [->|Hx]; [reflexivity|].
    apply N.log2_lt_pow2; [lia | exact H].
Qed.

Lemma fits32_lxor a b : fits32 a -> fits32 b -> fits32 (N.lxor a b).
Proof.
  intros Ha Hb. apply fits32_log2.
  destruct (N.eq_dec (N.lxor a b) 0) as [E|E]; [left; exact E|right].
  apply fits32_log2 in Ha. apply fits32_log2 in Hb.
  pose proof (N.log2_lxor a b) as H.
  destruct Ha as [->|Ha]; destruct Hb as [->|Hb].
  - exfalso; apply E; reflexivity.
  - rewrite N.lxor_0_l. exact Hb.
  - rewrite N.lxor_0_r. exact Ha.
  - lia.
Qed.

Lemma fits32_shiftr a : fits32 a -> fits32 (N.shiftr a 1).
Proof.
  unfold fits32. intro H. rewrite N.shiftr_div_pow2.
  apply N.le_lt_trans with a; [|exact H]. apply N.div_le_upper_bound; [discriminate|].
  change (2 ^ 1) with 2. lia.
Qed.

Lemma fits32_poly : fits32 crc_poly.  Proof. reflexivity. Qed.
Lemma fits32_mask : fits32 crc_mask.  Proof. reflexivity. Qed.

Lemma fits32_step c : fits32 c -> fits32 (crc_step_bit c).
Proof.
  intro H. unfold crc_step_bit. destruct (N.odd c).
  - apply fits32_lxor; [apply fits32_shiftr; exact H | apply fits32_poly].
  - apply fits32_shiftr; exact H.
Qed.

Lemma fits32_byte c b : fits32 c -> b < 256 -> fits32 (crc_byte c b).
Proof.
  intros Hc Hb. unfold crc_byte. do 8 apply fits32_step.
  apply fits32_lxor; [exact Hc|]. unfold fits32. change (2 ^ 32) with 4294967296. lia.
Qed.

Lemma fits32_raw : forall data c,
  fits32 c -> (forall b, In b data -> b < 256) -> fits32 (crc_raw c data).
Proof.
  induction data as [|b data IH]; intros c Hc Hall; [exact Hc|].
  simpl. apply IH.
  - apply fits32_byte; [exact Hc | apply Hall; left; reflexivity].
  - intros x Hx. apply Hall. right. exact Hx.
Qed.

Theorem crc32_range data v :
  v < 2 ^ 32 -> (forall b, In b data -> b < 256) -> crc32 data v < 2 ^ 32.
Proof.
  intros Hv Hall. unfold crc32. apply fits32_lxor; [|apply fits32_mask].
  apply fits32_raw; [|exact Hall]. apply fits32_lxor; [exact Hv | apply fits32_mask].
Qed.

(* ---------- %08x ---------------------------------------------------------------------------- *)

Lemma hex_n_length k v : length (hex_n k v) = k.
Proof.
  revert v; induction k as [|k IH]; intro v; simpl; [reflexivity|].
  rewrite app_length, IH. simpl. lia.
Qed.

Definition is_lower_hex (c : N) : bool := ((48 <=? c) && (c <=? 57)) || ((97 <=? c) && (c <=? 102)).

Lemma hex_digit_val d : d < 16 -> hex_val (hex_digit d) = Some d /\ is_lower_hex (hex_digit d) = true.
Proof.
  intro H. unfold hex_val, hex_digit, is_lower_hex.
  destruct (d <? 10) eqn:E.
  - apply N.ltb_lt in E.
    assert (H1 : (48 <=? 48 + d) = true) by (apply N.leb_le; lia).
    assert (H2 : (48 + d <=? 57) = true) by (apply N.leb_le; lia).
    rewrite H1, H2. cbn [andb orb]. split; [f_equal; lia | reflexivity].
  - apply N.ltb_ge in E.
    assert (H1 : (48 <=? 87 + d) = true) by (apply N.leb_le; lia).
    assert (H2 : (87 + d <=? 57) = false) by (apply N.leb_gt; lia).
    assert (H3 : (97 <=? 87 + d) = true) by (apply N.leb_le; lia).
    assert (H4 : (87 + d <=? 102) = true) by (apply N.leb_le; lia).
    rewrite H1, H2, H3, H4. cbn [andb orb]. split; [f_equal; lia | reflexivity].
Qed.

Lemma hex_n_digits k : forall v c, In c (hex_n k v) -> is_lower_hex c = true.
Proof.
  induction k as [|k IH]; intros v c Hc; [contradiction|].
  simpl in Hc. apply in_app_or in Hc as [Hc|[<-|[]]].
  - eapply IH; eauto.
  - apply hex_digit_val. apply N.mod_lt. discriminate.
Qed.

Lemma N_of_hex_app s c a d :
  fold_left (fun acc c => match acc, hex_val c with
                          | Some a, Some d => Some (a * 16 + d)
                          | _, _ => None end) s (Some 0) = Some a ->
  hex_val c = Some d ->
  N_of_hex (s ++ [c]) = Some (a * 16 + d).
Proof.
  intros Hs Hc. unfold N_of_hex. rewrite fold_left_app. rewrite Hs. simpl. rewrite Hc. reflexivity.
Qed.

Lemma N_of_hex_hex_n k : forall v, N_of_hex (hex_n k v) = Some (v mod 16 ^ N.of_nat k).
Proof.
  induction k as [|k IH]; intro v.
  - simpl. rewrite N.mod_1_r. reflexivity.
  - simpl hex_n.
    destruct (hex_digit_val (v mod 16) ltac:(apply N.mod_lt; discriminate)) as [Hd _].
    rewrite (N_of_hex_app _ _ _ _ (IH (v / 16)) Hd). f_equal.
    rewrite Nat2N.inj_succ, N.pow_succ_r'.
    rewrite N.mod_mul_r by (try discriminate; apply N.pow_nonzero; discriminate).
    lia.
Qed.

Theorem hex8_spec v : v < 2 ^ 32 ->
  length (hex8 v) = 8%nat /\ (forall c, In c (hex8 v) -> is_lower_hex c = true) /\
  N_of_hex (hex8 v) = Some v.
Proof.
  intro H. unfold hex8. split; [apply hex_n_length|]. split; [apply hex_n_digits|].
  rewrite N_of_hex_hex_n. f_equal. apply N.mod_small. exact H.
Qed.
