(* A POSIX-like filesystem with directories, regular files and symbolic links,   *)
(* as far as tempren's renamers can observe it: path walk (ENOENT / ENOTDIR /     *)
(* ELOOP, "..", intermediate links followed, last link optionally), lstat/stat,   *)
(* rename(2) with its full case analysis, mkdir(2), pathlib's mkdir -p,           *)
(* os.path.realpath(strict=False) and the executable part of shutil.move.         *)
(* The flat representation makes "rename onto a free name" a re-keying [map].     *)
From Tempren Require Import Base.Str.
Open Scope N_scope.

Definition name := list N.                 (* one path component *)
Definition rpath := list name.             (* real absolute path; [] is the root *)

(* a path as a program passes it to a system call: absolute or relative to the cwd;
   components may contain "..", never "" or "." (pathlib has dropped those) *)
Record upath := { up_abs : bool; up_comps : list name }.

Inductive node :=
| NFile (id : N)                           (* inode + content identity *)
| NLink (id : N) (tgt : upath)
| NDir.

Definition fs := list (rpath * node).

Definition dotdot : name := [46; 46].

Definition name_eqb : name -> name -> bool := list_eqb N.eqb.
Definition rpath_eqb : rpath -> rpath -> bool := list_eqb name_eqb.

Fixpoint assoc (s : fs) (p : rpath) : option node :=
  match s with
  | [] => None
  | (k, n) :: s' => if rpath_eqb k p then Some n else assoc s' p
  end.

(* the root always exists and is a directory *)
Definition lookup (s : fs) (p : rpath) : option node :=
  match p with [] => Some NDir | _ => assoc s p end.

Definition is_dir_node (n : node) : bool := match n with NDir => true | _ => false end.

Inductive errno := ENOENT | ENOTDIR | ELOOP | EEXIST | EISDIR | ENOTEMPTY | EINVAL | EIO | EXDEV.

Definition errno_eqb (a b : errno) : bool :=
  match a, b with
  | ENOENT, ENOENT | ENOTDIR, ENOTDIR | ELOOP, ELOOP | EEXIST, EEXIST | EISDIR, EISDIR
  | ENOTEMPTY, ENOTEMPTY | EINVAL, EINVAL | EIO, EIO | EXDEV, EXDEV => true
  | _, _ => false
  end.

Inductive wres :=
| WFound (p : rpath) (n : node)            (* the entry, with its real path *)
| WMissing (parent : rpath) (last : name)  (* parent is an existing directory, last is absent *)
| WErr (e : errno).

(* Kernel path walk from the directory [cur].  [fuel] bounds the total number of
   components processed (link targets included); exhaustion is ELOOP. *)
Fixpoint walk (fuel : nat) (s : fs) (cur : rpath) (comps : list name) (follow_last : bool) : wres :=
  match fuel with
  | O => WErr ELOOP
  | S f =>
    match comps with
    | [] => match lookup s cur with Some n => WFound cur n | None => WErr ENOENT end
    | c :: rest =>
      match lookup s cur with
      | Some NDir =>
        if name_eqb c dotdot then walk f s (removelast cur) rest follow_last
        else
          let p := cur ++ [c] in
          match lookup s p with
          | None => match rest with [] => WMissing cur c | _ => WErr ENOENT end
          | Some (NLink i tgt) =>
            match rest, follow_last with
            | [], false => WFound p (NLink i tgt)
            | _, _ => walk f s (if up_abs tgt then [] else cur) (up_comps tgt ++ rest) follow_last
            end
          | Some n => match rest with [] => WFound p n | _ => walk f s p rest follow_last end
          end
      | Some _ => WErr ENOTDIR
      | None => WErr ENOENT
      end
    end
  end.

Definition walk_fuel : nat := 120.

Definition resolve (s : fs) (cwd : rpath) (p : upath) (follow_last : bool) : wres :=
  walk walk_fuel s (if up_abs p then [] else cwd) (up_comps p) follow_last.

Definition lexists (s : fs) (cwd : rpath) (p : upath) : bool :=
  match resolve s cwd p false with WFound _ _ => true | _ => false end.

Definition exists_ (s : fs) (cwd : rpath) (p : upath) : bool :=      (* Path.exists(): follows links *)
  match resolve s cwd p true with WFound _ _ => true | _ => false end.

Definition is_dir (s : fs) (cwd : rpath) (p : upath) : bool :=       (* follows links *)
  match resolve s cwd p true with WFound _ NDir => true | _ => false end.

(* ---------- rename ----------------------------------------------------------- *)

Fixpoint is_prefix_path (a b : rpath) : bool :=      (* a is b or an ancestor of b *)
  match a, b with
  | [], _ => true
  | x :: a', y :: b' => name_eqb x y && is_prefix_path a' b'
  | _ :: _, [] => false
  end.

(* move the subtree rooted at [src] to [dst]: keys src ++ r become dst ++ r *)
Definition rekey_path (src dst p : rpath) : rpath :=
  if is_prefix_path src p then dst ++ skipn (length src) p else p.

Definition rekey (src dst : rpath) (s : fs) : fs :=
  map (fun e => (rekey_path src dst (fst e), snd e)) s.

Definition remove_key (p : rpath) (s : fs) : fs :=
  filter (fun e => negb (rpath_eqb (fst e) p)) s.

Definition has_children (s : fs) (p : rpath) : bool :=
  existsb (fun e => is_prefix_path p (fst e) && negb (rpath_eqb (fst e) p)) s.

Inductive sysres := SOk (s : fs) | SErr (e : errno).

(* rename(2) refuses paths whose last component is "." or ".." (EBUSY/EINVAL); pathlib has already
   dropped ".", so: an empty component list or a trailing ".." *)
Definition bad_last (p : upath) : bool :=
  match up_comps p with
  | [] => true
  | _ => name_eqb (last (up_comps p) []) dotdot
  end.

Definition os_rename (s : fs) (cwd : rpath) (src dst : upath) : sysres :=
  if bad_last src || bad_last dst then
    match resolve s cwd src false, resolve s cwd dst false with
    | WErr e, _ => SErr e
    | WMissing _ _, _ => SErr ENOENT
    | _, WErr e => SErr e
    | _, _ => SErr EINVAL
    end
  else
  match resolve s cwd src false with
  | WFound sp sn =>
    match sp with
    | [] => SErr EINVAL
    | _ =>
      match resolve s cwd dst false with
      | WMissing dpar dname =>
        let dp := dpar ++ [dname] in
        if name_eqb dname dotdot then SErr EINVAL
        else if is_dir_node sn && is_prefix_path sp dp then SErr EINVAL
        else SOk (rekey sp dp s)
      | WFound dp dn =>
        if rpath_eqb dp sp then SOk s                       (* same entry: no-op *)
        else match dp with
        | [] => SErr EINVAL
        | _ =>
          match sn, dn with
          | NDir, NDir =>
            if is_prefix_path sp dp then SErr EINVAL
            else if has_children s dp then SErr ENOTEMPTY
            else SOk (rekey sp dp (remove_key dp s))
          | NDir, _ => SErr ENOTDIR
          | _, NDir => SErr EISDIR
          | _, _ => SOk (rekey sp dp (remove_key dp s))     (* atomic replace: dn is lost *)
          end
        end
      | WErr e => SErr e
      end
    end
  | WMissing _ _ => SErr ENOENT
  | WErr e => SErr e
  end.

Definition os_mkdir (s : fs) (cwd : rpath) (p : upath) : sysres :=
  match resolve s cwd p false with
  | WMissing par nm => if name_eqb nm dotdot then SErr EEXIST else SOk (s ++ [(par ++ [nm], NDir)])
  | WFound _ _ => SErr EEXIST
  | WErr e => SErr e
  end.

(* ---------- shutil.move (the part that can execute; copy fallback = error) ------------ *)
Definition same_entry (s : fs) (cwd : rpath) (a b : upath) : bool :=
  match resolve s cwd a true, resolve s cwd b true with
  | WFound p _, WFound q _ => rpath_eqb p q
  | _, _ => false
  end.

Definition is_link (s : fs) (cwd : rpath) (p : upath) : bool :=
  match resolve s cwd p false with WFound _ (NLink _ _) => true | _ => false end.

Definition shutil_move_fs (s : fs) (cwd : rpath) (src dst : upath) : sysres :=
  if is_dir s cwd dst then
    if same_entry s cwd src dst then os_rename s cwd src dst      (* CPython 3.12: _samefile(src, dst), links followed *)
    else
      let real_dst := {| up_abs := up_abs dst; up_comps := up_comps dst ++ [last (up_comps src) []] |} in
      if exists_ s cwd real_dst then SErr EEXIST     (* shutil.Error: an OSError, not a FileExistsError *)
      else os_rename s cwd src real_dst
  else os_rename s cwd src dst.

(* ---------- os.path.realpath(strict=False), as Path.resolve() uses it --------- *)
(* posixpath._joinrealpath: [path] is the real prefix built so far; a component that does not exist
   (or is not a link) is appended lexically; ".." pops lexically; a link is resolved by a recursive
   call on its target with the link marked "in progress"; meeting an in-progress link again is a
   loop: the rest is then appended unresolved (and only normalised lexically by abspath) and the
   failure is propagated outwards.  The boolean is CPython's [ok]. *)
Fixpoint lexical_join (acc : rpath) (comps : list name) : rpath :=
  match comps with
  | [] => acc
  | c :: rest => if name_eqb c dotdot then lexical_join (removelast acc) rest else lexical_join (acc ++ [c]) rest
  end.

Fixpoint joinreal (fuel : nat) (s : fs) (path : rpath) (rest : list name) (inprog : list rpath) : rpath * bool :=
  match fuel with
  | O => (lexical_join path rest, false)
  | S f =>
    match rest with
    | [] => (path, true)
    | c :: rest' =>
      if name_eqb c dotdot then joinreal f s (removelast path) rest' inprog
      else
        let newpath := path ++ [c] in
        match lookup s newpath with
        | Some (NLink _ tgt) =>
          if existsb (rpath_eqb newpath) inprog then (lexical_join newpath rest', false)
          else
            match joinreal f s (if up_abs tgt then [] else path) (up_comps tgt) (newpath :: inprog) with
            | (p1, true) => joinreal f s p1 rest' inprog
            | (p1, false) => (lexical_join p1 rest', false)
            end
        | _ => joinreal f s newpath rest' inprog
        end
    end
  end.

Definition realpath_fuel : nat := 400.

Definition realpath_raw (s : fs) (cwd : rpath) (p : upath) : rpath :=
  fst (joinreal realpath_fuel s (if up_abs p then [] else cwd) (up_comps p) []).

(* Path.resolve(): realpath, then stat() of the result to turn a symlink loop into RuntimeError (None) *)
Definition realpath (s : fs) (cwd : rpath) (p : upath) : option rpath :=
  let a := realpath_raw s cwd p in
  match resolve s [] {| up_abs := true; up_comps := a |} true with
  | WErr ELOOP => None
  | _ => Some a
  end.

(* ---------- canonical comparison of filesystems -------------------------------- *)
Definition upath_eqb (a b : upath) : bool :=
  Bool.eqb (up_abs a) (up_abs b) && list_eqb name_eqb (up_comps a) (up_comps b).

Definition node_eqb (a b : node) : bool :=
  match a, b with
  | NFile x, NFile y => x =? y
  | NLink x t, NLink y u => (x =? y) && upath_eqb t u
  | NDir, NDir => true
  | _, _ => false
  end.

Definition fs_incl (a b : fs) : bool :=
  forallb (fun e => match assoc b (fst e) with Some n => node_eqb n (snd e) | None => false end) a.

Definition fs_eqb (a b : fs) : bool := fs_incl a b && fs_incl b a && Nat.eqb (length a) (length b).

(* non-directory entries, without their paths: what must never be lost *)
Definition leaves (s : fs) : list node := filter (fun n => negb (is_dir_node n)) (map snd s).
