(* The kernel's path walk and CPython's posixpath._joinrealpath (strict=False) agree:     *)
(* whenever [walk] resolves a path completely (WFound, last link followed), or finds     *)
(* everything but a missing last component (WMissing), [joinreal] returns the same real  *)
(* path with ok = true, for every fuel larger than the fuel the walk needed.              *)
(* No well-formedness of the tree is needed.  The "in progress" set of joinreal is       *)
(* handled by showing that a walk that succeeds with finite fuel never meets a link      *)
(* again while it is still resolving that link's target.                                  *)
From Tempren Require Import Base.Str FS.Model FS.Lemmas.
Open Scope N_scope.

(* ---------- one-step unfoldings (fuel stays a variable) ------------------------------- *)
Lemma walk_S f s cur comps fl :
  walk (S f) s cur comps fl =
    match comps with
    | [] => match lookup s cur with Some n => WFound cur n | None => WErr ENOENT end
    | c :: rest =>
      match lookup s cur with
      | Some NDir =>
        if name_eqb c dotdot then walk f s (removelast cur) rest fl
        else
          match lookup s (cur ++ [c]) with
          | None => match rest with [] => WMissing cur c | _ => WErr ENOENT end
          | Some (NLink i tgt) =>
            match rest, fl with
            | [], false => WFound (cur ++ [c]) (NLink i tgt)
            | _, _ => walk f s (if up_abs tgt then [] else cur) (up_comps tgt ++ rest) fl
            end
          | Some n => match rest with [] => WFound (cur ++ [c]) n | _ => walk f s (cur ++ [c]) rest fl end
          end
      | Some _ => WErr ENOTDIR
      | None => WErr ENOENT
      end
    end.
Proof. reflexivity. Qed.

Lemma joinreal_S f s path rest inprog :
  joinreal (S f) s path rest inprog =
    match rest with
    | [] => (path, true)
    | c :: rest' =>
      if name_eqb c dotdot then joinreal f s (removelast path) rest' inprog
      else
        match lookup s (path ++ [c]) with
        | Some (NLink _ tgt) =>
          if existsb (rpath_eqb (path ++ [c])) inprog then (lexical_join (path ++ [c]) rest', false)
          else
            match joinreal f s (if up_abs tgt then [] else path) (up_comps tgt) ((path ++ [c]) :: inprog) with
            | (p1, true) => joinreal f s p1 rest' inprog
            | (p1, false) => (lexical_join p1 rest', false)
            end
        | _ => joinreal f s (path ++ [c]) rest' inprog
        end
    end.
Proof. reflexivity. Qed.

Definition is_link_node (n : node) : bool := match n with NLink _ _ => true | _ => false end.

(* ---------- case analysis of one step of the walk -------------------------------------- *)
Inductive wcase (s : fs) (f : nat) (cur : rpath) (c : name) (rest : list name) (fl : bool) (r : wres) : Prop :=
| WC_dd : name_eqb c dotdot = true -> walk f s (removelast cur) rest fl = r -> wcase s f cur c rest fl r
| WC_last_node : name_eqb c dotdot = false -> forall n, lookup s (cur ++ [c]) = Some n -> is_link_node n = false ->
    rest = [] -> r = WFound (cur ++ [c]) n -> wcase s f cur c rest fl r
| WC_last_link : name_eqb c dotdot = false -> forall n, lookup s (cur ++ [c]) = Some n -> is_link_node n = true ->
    rest = [] -> fl = false -> r = WFound (cur ++ [c]) n -> wcase s f cur c rest fl r
| WC_node : name_eqb c dotdot = false -> forall n, lookup s (cur ++ [c]) = Some n -> is_link_node n = false ->
    rest <> [] -> walk f s (cur ++ [c]) rest fl = r -> wcase s f cur c rest fl r
| WC_link : name_eqb c dotdot = false -> forall i t, lookup s (cur ++ [c]) = Some (NLink i t) ->
    (rest <> [] \/ fl = true) ->
    walk f s (if up_abs t then [] else cur) (up_comps t ++ rest) fl = r -> wcase s f cur c rest fl r
| WC_missing : name_eqb c dotdot = false -> lookup s (cur ++ [c]) = None -> rest = [] -> r = WMissing cur c ->
    wcase s f cur c rest fl r.

Definition not_err (r : wres) : Prop := forall e, r <> WErr e.

Lemma walk_cons_inv s f cur c rest fl r :
  walk (S f) s cur (c :: rest) fl = r -> not_err r ->
  lookup s cur = Some NDir /\ wcase s f cur c rest fl r.
Proof.
  intros H Hr. rewrite walk_S in H.
  destruct (lookup s cur) as [[i|i t|]|] eqn:Hc; try (exfalso; eapply Hr; symmetry; exact H).
  split; [reflexivity|].
  destruct (name_eqb c dotdot) eqn:Ed; [apply WC_dd; assumption|].
  destruct (lookup s (cur ++ [c])) as [[i|i t|]|] eqn:Hl.
  - destruct rest as [|c2 rest].
    + eapply WC_last_node; eauto.
    + eapply WC_node; eauto. discriminate.
  - destruct rest as [|c2 rest].
    + destruct fl.
      * eapply WC_link; eauto.
      * eapply WC_last_link; eauto.
    + eapply WC_link; eauto. left; discriminate.
  - destruct rest as [|c2 rest].
    + eapply WC_last_node; eauto.
    + eapply WC_node; eauto. discriminate.
  - destruct rest as [|c2 rest].
    + apply WC_missing; auto.
    + exfalso; eapply Hr; symmetry; exact H.
Qed.

Lemma walk_cons_intro s f cur c rest fl r :
  lookup s cur = Some NDir -> wcase s f cur c rest fl r -> walk (S f) s cur (c :: rest) fl = r.
Proof.
  intros Hc W. rewrite walk_S, Hc.
  destruct W as [Ed H | Ed n Hl Hn Hr E | Ed n Hl Hn Hr Hf E | Ed n Hl Hn Hr H | Ed i t Hl Hr H | Ed Hl Hr E]; rewrite Ed; try rewrite Hl.
  - exact H.
  - subst. destruct n; [reflexivity | discriminate | reflexivity].
  - subst. destruct n; [discriminate | reflexivity | discriminate].
  - destruct rest; [congruence|]. destruct n; [exact H | discriminate | exact H].
  - destruct rest as [|c2 rest]; [|exact H]. destruct Hr as [Hr|Hr]; [congruence|]. subst fl. exact H.
  - subst. reflexivity.
Qed.

(* ---------- fuel monotonicity and determinism of the walk ------------------------------- *)
Lemma walk_mono f s cur comps fl r :
  walk f s cur comps fl = r -> r <> WErr ELOOP -> walk (S f) s cur comps fl = r.
Proof.
  revert cur comps. induction f as [|f IH]; intros cur comps H Hr.
  - simpl in H. congruence.
  - rewrite walk_S in H. rewrite walk_S.
    destruct comps as [|c rest]; [exact H|].
    destruct (lookup s cur) as [[i|i t|]|]; try exact H.
    destruct (name_eqb c dotdot); [apply IH; assumption|].
    destruct (lookup s (cur ++ [c])) as [[i|i t|]|].
    + destruct rest; [exact H | apply IH; assumption].
    + destruct rest; [destruct fl; [apply IH; assumption | exact H] | apply IH; assumption].
    + destruct rest; [exact H | apply IH; assumption].
    + exact H.
Qed.

Lemma walk_mono_le f f' s cur comps fl r :
  (f <= f')%nat -> walk f s cur comps fl = r -> r <> WErr ELOOP -> walk f' s cur comps fl = r.
Proof.
  intros Hle H Hr. induction Hle as [|m Hle IH]; [exact H|]. apply walk_mono; assumption.
Qed.

Lemma not_err_not_loop r : not_err r -> r <> WErr ELOOP.
Proof. intros H. apply H. Qed.

Lemma found_not_err p n : not_err (WFound p n).
Proof. intros e. discriminate. Qed.

Lemma missing_not_err p n : not_err (WMissing p n).
Proof. intros e. discriminate. Qed.

Lemma walk_found_det f1 f2 s cur comps fl q1 n1 q2 n2 :
  walk f1 s cur comps fl = WFound q1 n1 -> walk f2 s cur comps fl = WFound q2 n2 -> q1 = q2 /\ n1 = n2.
Proof.
  intros H1 H2.
  apply (walk_mono_le f1 (Nat.max f1 f2)) in H1; [|apply Nat.le_max_l | discriminate].
  apply (walk_mono_le f2 (Nat.max f1 f2)) in H2; [|apply Nat.le_max_r | discriminate].
  rewrite H1 in H2. inversion H2. split; reflexivity.
Qed.

Lemma walk_found_pos f s cur comps fl q n : walk f s cur comps fl = WFound q n -> exists f0, f = S f0.
Proof. destruct f; [simpl; discriminate | intros _; eexists; reflexivity]. Qed.

Lemma walk_nil_found f s q n fl : lookup s q = Some n -> walk (S f) s q [] fl = WFound q n.
Proof. intros H. rewrite walk_S, H. reflexivity. Qed.

(* ---------- splitting and joining walks at a component boundary -------------------------- *)
(* everything before the boundary is walked with the last link followed *)
Lemma walk_app_split s f : forall cur a b fl r,
  b <> [] -> walk f s cur (a ++ b) fl = r -> not_err r ->
  exists q nq, walk f s cur a true = WFound q nq /\ walk f s q b fl = r.
Proof.
  induction f as [|f IH]; intros cur a b fl r Hb H Hr.
  - simpl in H. exfalso. eapply Hr. symmetry. exact H.
  - destruct a as [|c a'].
    + simpl in H. destruct b as [|c b']; [congruence|].
      destruct (walk_cons_inv _ _ _ _ _ _ _ H Hr) as [Hc _].
      exists cur, NDir. split; [apply walk_nil_found; assumption | exact H].
    + simpl in H. destruct (walk_cons_inv _ _ _ _ _ _ _ H Hr) as [Hc W].
      destruct W as [Ed H1 | Ed n Hl Hn Hrest E | Ed n Hl Hn Hrest Hf E | Ed n Hl Hn Hrest H1 | Ed i t Hl Hrest H1 | Ed Hl Hrest E].
      * destruct (IH _ _ _ _ _ Hb H1 Hr) as [q [nq [A B]]]. exists q, nq. split.
        -- apply walk_cons_intro; [assumption|]. apply WC_dd; assumption.
        -- apply walk_mono; [assumption | apply not_err_not_loop; assumption].
      * apply app_eq_nil in Hrest as [_ Hrest]. congruence.
      * apply app_eq_nil in Hrest as [_ Hrest]. congruence.
      * destruct a' as [|c2 a''].
        -- simpl in H1. exists (cur ++ [c]), n. split.
           ++ apply walk_cons_intro; [assumption|]. eapply WC_last_node; eauto.
           ++ apply walk_mono; [assumption | apply not_err_not_loop; assumption].
        -- destruct (IH _ _ _ _ _ Hb H1 Hr) as [q [nq [A B]]]. exists q, nq. split.
           ++ apply walk_cons_intro; [assumption|]. eapply WC_node; eauto. discriminate.
           ++ apply walk_mono; [assumption | apply not_err_not_loop; assumption].
      * rewrite app_assoc in H1.
        destruct (IH _ _ _ _ _ Hb H1 Hr) as [q [nq [A B]]]. exists q, nq. split.
        -- apply walk_cons_intro; [assumption|]. eapply WC_link; eauto.
        -- apply walk_mono; [assumption | apply not_err_not_loop; assumption].
      * apply app_eq_nil in Hrest as [_ Hrest]. congruence.
Qed.

Lemma walk_app_split_true s f cur a b p n :
  walk f s cur (a ++ b) true = WFound p n ->
  exists q nq, walk f s cur a true = WFound q nq /\ walk f s q b true = WFound p n.
Proof.
  intros H. destruct b as [|c b'].
  - rewrite app_nil_r in H. exists p, n. split; [assumption|].
    destruct (walk_found_pos _ _ _ _ _ _ _ H) as [f0 ->].
    apply walk_nil_found. eapply walk_found. exact H.
  - apply walk_app_split; [discriminate | assumption | apply found_not_err].
Qed.

(* walking [a] from [cur] up to [q] takes the same first steps whatever follows *)
Lemma walk_app_uniform s f g cur a R q nq p n :
  walk f s cur a true = WFound q nq ->
  walk g s cur (a ++ R) true = WFound p n -> walk g s q R true = WFound p n.
Proof.
  intros Ha H. destruct (walk_app_split_true _ _ _ _ _ _ _ H) as [q' [nq' [A B]]].
  destruct (walk_found_det _ _ _ _ _ _ _ _ _ _ Ha A) as [-> _]. exact B.
Qed.

Lemma walk_app_join s f1 : forall f2 cur a b fl q nq r,
  b <> [] -> walk f1 s cur a true = WFound q nq -> walk f2 s q b fl = r -> r <> WErr ELOOP ->
  walk (f1 + f2) s cur (a ++ b) fl = r.
Proof.
  induction f1 as [|f1 IH]; intros f2 cur a b fl q nq r Hb Ha H Hr.
  - simpl in Ha. discriminate.
  - destruct a as [|c a'].
    + rewrite walk_S in Ha. destruct (lookup s cur); [|discriminate]. injection Ha as E1 E2. subst q.
      simpl app. apply (walk_mono_le f2); [lia | assumption | assumption].
    + destruct (walk_cons_inv _ _ _ _ _ _ _ Ha (found_not_err _ _)) as [Hc W].
      change (S f1 + f2)%nat with (S (f1 + f2)). simpl app. apply walk_cons_intro; [assumption|].
      destruct W as [Ed H1 | Ed n Hl Hn Hrest E | Ed n Hl Hn Hrest Hf E | Ed n Hl Hn Hrest H1 | Ed i t Hl Hrest H1 | Ed Hl Hrest E].
      * apply WC_dd; [assumption|]. eapply IH; eauto.
      * subst a'. injection E as E1 E2. subst q nq. simpl app. eapply WC_node; eauto.
        apply (walk_mono_le f2); [lia | assumption | assumption].
      * discriminate.
      * apply WC_node with (n := n); try assumption.
        -- intros K. apply app_eq_nil in K as [K _]. congruence.
        -- eapply IH; eauto.
      * apply WC_link with (i := i) (t := t); try assumption.
        -- left. intros K. apply app_eq_nil in K as [_ K]. congruence.
        -- rewrite app_assoc. eapply IH; eauto.
      * discriminate.
Qed.

(* ---------- links in progress ------------------------------------------------------------- *)
Definition link_base (L : rpath) (t : upath) : rpath := if up_abs t then [] else removelast L.

(* [L] is a link whose target is being resolved; the kernel walk of that target (followed by
   anything, X) passes through the state "at [path], still to go: rest ++ Z ++ X" *)
Definition inprog_ok (s : fs) (path : rpath) (rest : list name) (L : rpath) : Prop :=
  exists i t Z, lookup s L = Some (NLink i t) /\
    forall X g p n, walk g s (link_base L t) (up_comps t ++ X) true = WFound p n ->
                    walk g s path (rest ++ Z ++ X) true = WFound p n.

Lemma link_base_snoc path c t : link_base (path ++ [c]) t = if up_abs t then [] else path.
Proof. unfold link_base. rewrite removelast_last. reflexivity. Qed.

Lemma inprog_ok_step s path c rest path2 L :
  inprog_ok s path (c :: rest) L ->
  (forall g R p n, walk g s path (c :: R) true = WFound p n -> walk g s path2 R true = WFound p n) ->
  inprog_ok s path2 rest L.
Proof.
  intros [i [t [Z [Hl H]]]] Hs. exists i, t, Z. split; [assumption|].
  intros X g p n K. apply Hs. apply (H X g p n K).
Qed.

Lemma inprog_ok_enter s path c rest base tgt L :
  inprog_ok s path (c :: rest) L ->
  (forall g R p n, walk g s path (c :: R) true = WFound p n -> walk g s base (tgt ++ R) true = WFound p n) ->
  inprog_ok s base tgt L.
Proof.
  intros [i [t [Z [Hl H]]]] Hs. exists i, t, (rest ++ Z). split; [assumption|].
  intros X g p n K. rewrite <- app_assoc. apply Hs. apply (H X g p n K).
Qed.

Lemma inprog_ok_self s path c i t :
  lookup s (path ++ [c]) = Some (NLink i t) ->
  inprog_ok s (if up_abs t then [] else path) (up_comps t) (path ++ [c]).
Proof.
  intros Hl. exists i, t, []. split; [assumption|].
  intros X g p n K. rewrite link_base_snoc in K. exact K.
Qed.

(* how a successful (last link followed) walk advances over one component *)
Lemma adv_dd s path c g R p n :
  name_eqb c dotdot = true ->
  walk g s path (c :: R) true = WFound p n -> walk g s (removelast path) R true = WFound p n.
Proof.
  intros Ed H. destruct (walk_found_pos _ _ _ _ _ _ _ H) as [g0 ->].
  destruct (walk_cons_inv _ _ _ _ _ _ _ H (found_not_err _ _)) as [_ W].
  destruct W as [_ H1 | E | E | E | E | E]; try congruence.
  apply walk_mono; [assumption | discriminate].
Qed.

Lemma adv_node s path c g R p n :
  name_eqb c dotdot = false -> (forall i t, lookup s (path ++ [c]) <> Some (NLink i t)) ->
  walk g s path (c :: R) true = WFound p n -> walk g s (path ++ [c]) R true = WFound p n.
Proof.
  intros Ed Hnl H. destruct (walk_found_pos _ _ _ _ _ _ _ H) as [g0 ->].
  destruct (walk_cons_inv _ _ _ _ _ _ _ H (found_not_err _ _)) as [_ W].
  destruct W as [E _ | _ m Hl Hm Hrest E | _ m Hl Hm Hrest Hf E | _ m Hl Hm Hrest H1 | _ i t Hl Hrest H1 | _ Hl Hrest E]; try congruence.
  - subst R. inversion E; subst. apply walk_nil_found. assumption.
  - apply walk_mono; [assumption | discriminate].
Qed.

Lemma adv_link s path c i t g R p n :
  name_eqb c dotdot = false -> lookup s (path ++ [c]) = Some (NLink i t) ->
  walk (S g) s path (c :: R) true = WFound p n ->
  walk g s (if up_abs t then [] else path) (up_comps t ++ R) true = WFound p n.
Proof.
  intros Ed Hl H.
  destruct (walk_cons_inv _ _ _ _ _ _ _ H (found_not_err _ _)) as [_ W].
  destruct W as [E _ | _ m Hl' Hm Hrest E | _ m Hl' Hm Hrest Hf E | _ m Hl' Hm Hrest H1 | _ i' t' Hl' Hrest H1 | _ Hl' Hrest E]; try congruence.
  - rewrite Hl in Hl'. inversion Hl'; subst. discriminate.
  - rewrite Hl in Hl'. inversion Hl'; subst. discriminate.
  - rewrite Hl in Hl'. inversion Hl'; subst. exact H1.
Qed.

Lemma adv_link_weak s path c i t g R p n :
  name_eqb c dotdot = false -> lookup s (path ++ [c]) = Some (NLink i t) ->
  walk g s path (c :: R) true = WFound p n ->
  walk g s (if up_abs t then [] else path) (up_comps t ++ R) true = WFound p n.
Proof.
  intros Ed Hl H. destruct (walk_found_pos _ _ _ _ _ _ _ H) as [g0 ->].
  apply walk_mono; [|discriminate]. eapply adv_link; eauto.
Qed.

(* a walk that meets a link while still resolving that link's target never ends *)
Lemma inprog_hit_never s path c rest i t :
  name_eqb c dotdot = false -> lookup s (path ++ [c]) = Some (NLink i t) ->
  inprog_ok s path (c :: rest) (path ++ [c]) ->
  forall g X p n, walk g s (if up_abs t then [] else path) (up_comps t ++ X) true <> WFound p n.
Proof.
  intros Ed Hl [i' [t' [Z [Hl' H]]]]. rewrite Hl in Hl'. inversion Hl'; subst i' t'. clear Hl'.
  induction g as [|g IH]; intros X p n K.
  - simpl in K. discriminate.
  - rewrite <- link_base_snoc with (c := c) in K. apply H in K.
    simpl app in K. apply (adv_link _ _ _ _ _ _ _ _ _ Ed Hl) in K.
    exact (IH _ _ _ K).
Qed.

(* ---------- joinreal: fuel monotonicity, one more (missing) component ----------------------- *)
Lemma joinreal_mono s f : forall path rest inprog q,
  joinreal f s path rest inprog = (q, true) -> joinreal (S f) s path rest inprog = (q, true).
Proof.
  induction f as [|f IH]; intros path rest inprog q H.
  - simpl in H. discriminate.
  - rewrite joinreal_S in H. rewrite joinreal_S.
    destruct rest as [|c rest']; [exact H|].
    destruct (name_eqb c dotdot); [apply IH; assumption|].
    destruct (lookup s (path ++ [c])) as [[i|i t|]|]; try (apply IH; assumption).
    destruct (existsb (rpath_eqb (path ++ [c])) inprog); [exact H|].
    destruct (joinreal f s (if up_abs t then [] else path) (up_comps t) ((path ++ [c]) :: inprog)) as [p1 [|]] eqn:E1.
    + rewrite (IH _ _ _ _ E1). apply IH. assumption.
    + discriminate.
Qed.

Lemma joinreal_snoc_missing s nm f : forall path a inprog q,
  name_eqb nm dotdot = false ->
  joinreal f s path a inprog = (q, true) -> lookup s (q ++ [nm]) = None ->
  joinreal (S f) s path (a ++ [nm]) inprog = (q ++ [nm], true).
Proof.
  induction f as [|f IH]; intros path a inprog q Ed H Hn.
  - simpl in H. discriminate.
  - rewrite joinreal_S in H. destruct a as [|c a'].
    + inversion H; subst. simpl app. rewrite joinreal_S, Ed, Hn. rewrite joinreal_S. reflexivity.
    + simpl app. rewrite joinreal_S.
      destruct (name_eqb c dotdot); [apply IH; assumption|].
      destruct (lookup s (path ++ [c])) as [[i|i t|]|]; try (apply IH; assumption).
      destruct (existsb (rpath_eqb (path ++ [c])) inprog); [discriminate|].
      destruct (joinreal f s (if up_abs t then [] else path) (up_comps t) ((path ++ [c]) :: inprog)) as [p1 [|]] eqn:E1.
      * rewrite (joinreal_mono _ _ _ _ _ _ E1). apply IH; assumption.
      * discriminate.
Qed.

(* ---------- agreement: the walk finds the entry ---------------------------------------------- *)
Lemma walk_joinreal_found s f : forall path rest inprog q nq,
  walk f s path rest true = WFound q nq ->
  (forall L, In L inprog -> inprog_ok s path rest L) ->
  forall f', (f < f')%nat -> joinreal f' s path rest inprog = (q, true).
Proof.
  induction f as [|f IH]; intros path rest inprog q nq H Inv f' Hf.
  - simpl in H. discriminate.
  - destruct f' as [|f']; [lia|]. assert (Hf' : (f < f')%nat) by lia. clear Hf.
    rewrite joinreal_S.
    destruct rest as [|c rest'].
    + rewrite walk_S in H. destruct (lookup s path); [|discriminate]. inversion H; subst. reflexivity.
    + destruct (walk_cons_inv _ _ _ _ _ _ _ H (found_not_err _ _)) as [Hc W].
      destruct W as [Ed H1 | Ed n Hl Hn Hrest E | Ed n Hl Hn Hrest Hfl E | Ed n Hl Hn Hrest H1 | Ed i t Hl Hrest H1 | Ed Hl Hrest E];
        rewrite Ed.
      * (* ".." *)
        apply (IH _ _ _ _ _ H1); [|assumption].
        intros L HL. apply (inprog_ok_step _ _ _ _ _ _ (Inv L HL)).
        intros g R p n. apply adv_dd. assumption.
      * (* last component, not a link *)
        subst rest'. inversion E; subst q nq. rewrite Hl.
        destruct f' as [|f'']; [lia|].
        destruct n; [reflexivity | discriminate | reflexivity].
      * discriminate.
      * (* intermediate component, not a link *)
        assert (Hnl : forall i t, lookup s (path ++ [c]) <> Some (NLink i t)).
        { intros i t K. rewrite Hl in K. inversion K; subst. discriminate. }
        assert (Goal' : joinreal f' s (path ++ [c]) rest' inprog = (q, true)).
        { apply (IH _ _ _ _ _ H1); [|assumption].
          intros L HL. apply (inprog_ok_step _ _ _ _ _ _ (Inv L HL)).
          intros g R p m. apply adv_node; assumption. }
        rewrite Hl. destruct n; [exact Goal' | discriminate | exact Goal'].
      * (* a link *)
        rewrite Hl.
        destruct (existsb (rpath_eqb (path ++ [c])) inprog) eqn:Ein.
        { exfalso. apply existsb_exists in Ein as [L [HL EL]]. apply rpath_eqb_eq in EL. subst L.
          exact (inprog_hit_never _ _ _ _ _ _ Ed Hl (Inv _ HL) _ _ _ _ H1). }
        destruct (walk_app_split_true _ _ _ _ _ _ _ H1) as [q1 [n1 [A B]]].
        assert (E1 : joinreal f' s (if up_abs t then [] else path) (up_comps t) ((path ++ [c]) :: inprog) = (q1, true)).
        { apply (IH _ _ _ _ _ A); [|assumption].
          intros L [HL|HL].
          - subst L. apply inprog_ok_self with (i := i). assumption.
          - apply (inprog_ok_enter _ _ _ _ _ _ _ (Inv L HL)).
            intros g R p m. apply adv_link_weak with (c := c) (i := i); assumption. }
        rewrite E1.
        apply (IH _ _ _ _ _ B); [|assumption].
        intros L HL. apply (inprog_ok_step _ _ _ _ _ _ (Inv L HL)).
        intros g R p m K. apply (walk_app_uniform _ _ _ _ _ _ _ _ _ _ A).
        apply adv_link_weak with (c := c) (i := i); assumption.
      * discriminate.
Qed.

(* (1a) the kernel resolves the whole path (last link followed): realpath returns the same real path *)
Theorem walk_realpath_agree s f cur comps p n f' :
  walk f s cur comps true = WFound p n -> (f < f')%nat ->
  joinreal f' s cur comps [] = (p, true).
Proof.
  intros H Hf. apply (walk_joinreal_found _ _ _ _ _ _ _ H); [|assumption]. intros L [].
Qed.

(* ---------- agreement: only the last component is missing -------------------------------------- *)
Lemma walk_nil_not_missing f s cur fl par nm : walk f s cur [] fl <> WMissing par nm.
Proof. destruct f; simpl; [discriminate|]. destruct (lookup s cur); discriminate. Qed.

(* the missing component is the literal last one of the path handed in *)
Lemma walk_missing_last s f cur comps par nm :
  walk f s cur comps false = WMissing par nm ->
  exists a, comps = a ++ [nm] /\ name_eqb nm dotdot = false /\
            walk f s cur a true = WFound par NDir /\ lookup s (par ++ [nm]) = None.
Proof.
  intros H.
  destruct comps as [|c0 comps0]; [exfalso; exact (walk_nil_not_missing _ _ _ _ _ _ H)|].
  assert (Hne : c0 :: comps0 <> []) by discriminate.
  destruct (exists_last Hne) as [a [c Ea]]. rewrite Ea in H.
  destruct (walk_app_split _ _ _ _ _ _ _ (ltac:(discriminate) : [c] <> []) H (missing_not_err _ _)) as [q [nq [A B]]].
  destruct f as [|f0]; [simpl in B; discriminate|].
  destruct (walk_cons_inv _ _ _ _ _ _ _ B (missing_not_err _ _)) as [Hq W].
  destruct W as [Ed H1 | Ed n Hl Hn Hrest E | Ed n Hl Hn Hrest Hfl E | Ed n Hl Hn Hrest H1 | Ed i t Hl Hrest H1 | Ed Hl Hrest E];
    try discriminate.
  - exfalso. exact (walk_nil_not_missing _ _ _ _ _ _ H1).
  - congruence.
  - destruct Hrest as [K|K]; [congruence | discriminate].
  - inversion E; subst par nm. exists a. repeat split; try assumption.
    pose proof (walk_found _ _ _ _ _ _ _ A) as K. rewrite Hq in K. inversion K; subst nq. exact A.
Qed.

Lemma inprog_ok_init s path a nm L : inprog_ok s path (a ++ [nm]) L -> inprog_ok s path a L.
Proof.
  intros [i [t [Z [Hl H]]]]. exists i, t, ([nm] ++ Z). split; [assumption|].
  intros X g p n K. rewrite <- app_assoc. rewrite app_assoc. apply (H X g p n K).
Qed.

Lemma walk_joinreal_missing s f path rest inprog par nm :
  walk f s path rest false = WMissing par nm ->
  (forall L, In L inprog -> inprog_ok s path rest L) ->
  forall f', (S f < f')%nat -> joinreal f' s path rest inprog = (par ++ [nm], true).
Proof.
  intros H Inv f' Hf.
  destruct (walk_missing_last _ _ _ _ _ _ H) as [a [-> [Ed [A Hn]]]].
  destruct f' as [|f']; [lia|].
  apply joinreal_snoc_missing; try assumption.
  apply (walk_joinreal_found _ _ _ _ _ _ _ A); [|lia].
  intros L HL. apply inprog_ok_init with (nm := nm). apply Inv. assumption.
Qed.

(* (1b) the destination does not exist yet *)
Theorem walk_realpath_agree_missing s f cur comps par nm f' :
  walk f s cur comps false = WMissing par nm -> (S f < f')%nat ->
  joinreal f' s cur comps [] = (par ++ [nm], true).
Proof.
  intros H Hf. apply (walk_joinreal_missing _ _ _ _ _ _ _ H); [|assumption]. intros L [].
Qed.

(* ---------- the concrete fuels of the model ------------------------------------------------------ *)
Transparent resolve walk_fuel.

Lemma fuel_gap : (S (walk_fuel + walk_fuel) < realpath_fuel)%nat.
Proof. apply Nat.ltb_lt. vm_compute. reflexivity. Qed.

Lemma resolve_unfold s cwd p fl :
  resolve s cwd p fl = walk walk_fuel s (if up_abs p then [] else cwd) (up_comps p) fl.
Proof. reflexivity. Qed.

Opaque resolve walk_fuel.

(* Path.resolve()'s real path of something the kernel can reach is the entry the kernel reaches *)
Theorem resolve_found_realpath_raw s cwd p q n :
  resolve s cwd p true = WFound q n -> realpath_raw s cwd p = q.
Proof.
  rewrite resolve_unfold. intros H. unfold realpath_raw.
  rewrite (walk_realpath_agree _ _ _ _ _ _ realpath_fuel H); [reflexivity|].
  pose proof fuel_gap. lia.
Qed.

(* (2) rename(2)/mkdir(2) create the destination exactly where realpath says *)
Theorem rename_destination_is_where_realpath_says s cwd dst dpar dname :
  resolve s cwd dst false = WMissing dpar dname -> realpath_raw s cwd dst = dpar ++ [dname].
Proof.
  rewrite resolve_unfold. intros H. unfold realpath_raw.
  rewrite (walk_realpath_agree_missing _ _ _ _ _ _ realpath_fuel H); [reflexivity|].
  pose proof fuel_gap. lia.
Qed.

(* the same for a path that the program first joins with a directory [d] which is its own real
   path, as Pipeline does for the containment test (input_directory / generated path) *)
Theorem joined_destination_realpath_raw s d comps dpar dname :
  resolve s [] {| up_abs := true; up_comps := d |} true = WFound d NDir ->
  resolve s d {| up_abs := false; up_comps := comps |} false = WMissing dpar dname ->
  realpath_raw s [] {| up_abs := true; up_comps := d ++ comps |} = dpar ++ [dname].
Proof.
  rewrite !resolve_unfold. cbn [up_abs up_comps]. intros Hd H. unfold realpath_raw. cbn [up_abs up_comps].
  assert (Hc : comps <> []).
  { intros ->. exact (walk_nil_not_missing _ _ _ _ _ _ H). }
  pose proof (walk_app_join _ _ _ _ _ _ _ _ _ _ Hc Hd H ltac:(discriminate)) as J.
  rewrite (walk_realpath_agree_missing _ _ _ _ _ _ realpath_fuel J); [reflexivity|].
  exact fuel_gap.
Qed.

(* ---------- non-vacuity ---------------------------------------------------------------------------- *)
(* /in, /in/sub, /in/sub/a (file), /in/lnk -> /out/d (absolute link to a directory), /in/rel -> sub,
   /out, /out/d.  "lnk/../x": the kernel and realpath both take ".." of the REAL directory /out/d.   *)
Definition agree_fs : fs :=
  [([[105;110]], NDir); ([[105;110]; [115;117;98]], NDir); ([[105;110]; [115;117;98]; [97]], NFile 1);
   ([[105;110]; [108;110;107]], NLink 2 {| up_abs := true; up_comps := [[111;117;116]; [100]] |});
   ([[105;110]; [114;101;108]], NLink 3 {| up_abs := false; up_comps := [[115;117;98]] |});
   ([[111;117;116]], NDir); ([[111;117;116]; [100]], NDir)].

Example agree_dotdot_after_link :
  resolve agree_fs [[105;110]] {| up_abs := false; up_comps := [[108;110;107]; dotdot; [120]] |} false
    = WMissing [[111;117;116]] [120] /\
  realpath_raw agree_fs [[105;110]] {| up_abs := false; up_comps := [[108;110;107]; dotdot; [120]] |}
    = [[111;117;116]; [120]] /\
  resolve agree_fs [[105;110]] {| up_abs := false; up_comps := [[114;101;108]; dotdot; [114;101;108]; [97]] |} true
    = WFound [[105;110]; [115;117;98]; [97]] (NFile 1) /\
  realpath_raw agree_fs [[105;110]] {| up_abs := false; up_comps := [[114;101;108]; dotdot; [114;101;108]; [97]] |}
    = [[105;110]; [115;117;98]; [97]].
Proof. vm_compute. repeat split. Qed.
