(* Path resolution of PLAIN paths: no "..", every proper prefix a directory entry (hence no symbolic *)
(* link on the way).  Such a path resolves to itself, by walk, by realpath and by chdir, in every   *)
(* state; and renaming a regular file onto a free name changes [lookup] at exactly two keys.       *)
From Tempren Require Import Base.Str FS.Model FS.Lemmas.
Open Scope N_scope.

(* ---------- small list facts ---------------------------------------------------------------- *)
Lemma removelast_snoc {A} (l : list A) x : removelast (l ++ [x]) = l.
Proof. apply removelast_last. Qed.

Lemma last_snoc {A} (l : list A) x d : last (l ++ [x]) d = x.
Proof. apply last_last. Qed.

Lemma removelast_app_ne {A} (a b : list A) : b <> [] -> removelast (a ++ b) = a ++ removelast b.
Proof. intros H. apply removelast_app. exact H. Qed.

Lemma length_removelast_snoc {A} (l : list A) x : l <> [] -> length (removelast l ++ [x]) = length l.
Proof.
  intros H. destruct (exists_last H) as [l' [y ->]]. rewrite removelast_snoc, !app_length. reflexivity.
Qed.

Lemma In_removelast {A} (l : list A) x : In x (removelast l) -> In x l.
Proof.
  induction l as [|a l IH]; simpl; [auto|]. destruct l as [|b l]; [intros []|].
  intros [H|H]; [left; assumption | right; apply IH; assumption].
Qed.

Lemma last_In {A} (l : list A) d : l <> [] -> In (last l d) l.
Proof.
  intros H. destruct (exists_last H) as [l' [y ->]]. rewrite last_snoc. apply in_or_app. right. left. reflexivity.
Qed.

(* a prefix of a ++ b with something left over that reaches into b: either inside a, or a ++ (a prefix of b) *)
Lemma prefix_of_app {A} (a b q r : list A) :
  a ++ b = q ++ r -> (exists t, a = q ++ t) \/ (exists q', q = a ++ q' /\ b = q' ++ r).
Proof.
  intros H. apply app_eq_app in H as [l [[E1 E2]|[E1 E2]]].
  - left. exists l. assumption.
  - right. exists l. split; assumption.
Qed.

Lemma name_eqb_false_of_neq a b : a <> b -> name_eqb a b = false.
Proof. intros H. destruct (name_eqb a b) eqn:E; [apply name_eqb_eq in E; contradiction | reflexivity]. Qed.

(* ---------- directory paths ---------------------------------------------------------------------- *)
(* every prefix of p, p included, is a directory *)
Definition dirpath (s : fs) (p : rpath) : Prop := forall q r, p = q ++ r -> lookup s q = Some NDir.

Lemma lookup_of_In s q n : WF s -> In (q, n) s -> lookup s q = Some n.
Proof.
  intros [ND CL] H. destruct (CL _ _ H) as [Hq _]. destruct q as [|x q]; [congruence|]. simpl.
  apply In_assoc; assumption.
Qed.

Lemma dirpath_of_lookup s p : WF s -> lookup s p = Some NDir -> dirpath s p.
Proof.
  intros W H q r E. destruct q as [|x q]; [reflexivity|].
  apply lookup_of_In; [assumption|]. apply (prefix_of_dir s p (x :: q)); [assumption | assumption | discriminate | exists r; assumption].
Qed.

Lemma dirpath_self s p : dirpath s p -> lookup s p = Some NDir.
Proof. intros H. apply (H p []). rewrite app_nil_r. reflexivity. Qed.

Lemma dirpath_prefix s a b : dirpath s (a ++ b) -> dirpath s a.
Proof. intros H q r E. apply (H q (r ++ b)). rewrite E, app_assoc. reflexivity. Qed.

(* ---------- the walk on a plain path -------------------------------------------------------------- *)
Definition dirs_below (s : fs) (cur : rpath) (comps : list name) : Prop :=
  forall q r, comps = q ++ r -> r <> [] -> lookup s (cur ++ q) = Some NDir.

Lemma dirs_below_tail s cur c rest : dirs_below s cur (c :: rest) -> dirs_below s (cur ++ [c]) rest.
Proof.
  intros H q r E Hr. rewrite <- app_assoc. simpl. apply (H (c :: q) r); [simpl; rewrite E; reflexivity | assumption].
Qed.

Lemma walk_plain f s cur comps fl :
  (length comps < f)%nat -> comps <> [] -> ~ In dotdot comps -> dirs_below s cur comps ->
  (fl = false \/ forall i t, lookup s (cur ++ comps) <> Some (NLink i t)) ->
  walk f s cur comps fl =
    match lookup s (cur ++ comps) with
    | Some n => WFound (cur ++ comps) n
    | None => WMissing (cur ++ removelast comps) (last comps [])
    end.
Proof.
  revert cur comps. induction f as [|f IH]; intros cur comps Hlen Hne Hdd Hdirs Hlink; [inversion Hlen|].
  destruct comps as [|c rest]; [congruence|].
  cbn [walk].
  assert (Hcur : lookup s cur = Some NDir).
  { pose proof (Hdirs [] (c :: rest) eq_refl) as H. rewrite app_nil_r in H. apply H. discriminate. }
  rewrite Hcur.
  assert (Hc : name_eqb c dotdot = false).
  { apply name_eqb_false_of_neq. intros E. apply Hdd. left. assumption. }
  rewrite Hc.
  destruct rest as [|c2 rest].
  - cbn [removelast last]. rewrite app_nil_r.
    destruct (lookup s (cur ++ [c])) as [[i|i t|]|] eqn:L; try reflexivity.
    destruct Hlink as [-> | Hl]; [reflexivity|]. exfalso. apply (Hl i t). reflexivity.
  - assert (Hd : lookup s (cur ++ [c]) = Some NDir).
    { apply (Hdirs [c] (c2 :: rest)); [reflexivity | discriminate]. }
    rewrite Hd.
    rewrite IH.
    + change (removelast (c :: c2 :: rest)) with (c :: removelast (c2 :: rest)).
      change (last (c :: c2 :: rest) []) with (last (c2 :: rest) []).
      rewrite <- !app_assoc. reflexivity.
    + simpl in *. lia.
    + discriminate.
    + intros K. apply Hdd. right. assumption.
    + apply dirs_below_tail. assumption.
    + destruct Hlink as [H|H]; [left; assumption | right]. intros i t. rewrite <- app_assoc. apply H.
Qed.

(* a path all of whose prefixes are directories *)
Lemma walk_dirs f s comps fl :
  (length comps < f)%nat -> ~ In dotdot comps -> dirpath s comps ->
  walk f s [] comps fl = WFound comps NDir.
Proof.
  intros Hlen Hdd Hd. destruct comps as [|c rest].
  - destruct f; [inversion Hlen|]. reflexivity.
  - rewrite walk_plain; try assumption.
    + simpl app. rewrite (dirpath_self _ _ Hd). reflexivity.
    + discriminate.
    + intros q r E _. simpl. apply (Hd q r). assumption.
    + right. intros i t. simpl app. rewrite (dirpath_self _ _ Hd). discriminate.
Qed.

(* ---------- realpath on a plain path ---------------------------------------------------------------- *)
Definition not_link (o : option node) : Prop := forall i t, o <> Some (NLink i t).

Lemma joinreal_plain f s path rest inprog :
  (length rest < f)%nat -> ~ In dotdot rest ->
  (forall q r, rest = q ++ r -> q <> [] -> not_link (lookup s (path ++ q))) ->
  joinreal f s path rest inprog = (path ++ rest, true).
Proof.
  revert path rest. induction f as [|f IH]; intros path rest Hlen Hdd Hnl; [inversion Hlen|].
  destruct rest as [|c rest]; cbn [joinreal]; [rewrite app_nil_r; reflexivity|].
  assert (Hc : name_eqb c dotdot = false).
  { apply name_eqb_false_of_neq. intros E. apply Hdd. left. assumption. }
  rewrite Hc.
  assert (R : joinreal f s (path ++ [c]) rest inprog = (path ++ c :: rest, true)).
  { rewrite IH.
    - rewrite <- app_assoc. reflexivity.
    - simpl in Hlen. lia.
    - intros K. apply Hdd. right. assumption.
    - intros q r E Hq. rewrite <- app_assoc. simpl. apply (Hnl (c :: q) r); [simpl; rewrite E; reflexivity | discriminate]. }
  destruct (lookup s (path ++ [c])) as [[i|i t|]|] eqn:L; try exact R.
  exfalso. apply (Hnl [c] rest eq_refl (ltac:(discriminate)) i t). assumption.
Qed.

Lemma walk_fuel_lt_realpath_fuel : (walk_fuel < realpath_fuel)%nat.
Proof. apply Nat.ltb_lt. vm_compute. reflexivity. Qed.

Lemma walk_fuel_pos : (0 < walk_fuel)%nat.
Proof. apply Nat.ltb_lt. vm_compute. reflexivity. Qed.

(* [resolve] on a plain path, stated once so that [resolve] is never unfolded inside a larger goal.
   ([resolve] must still be transparent when Qed re-checks the unfolding, or the kernel unfolds [walk] instead.) *)
Transparent resolve.
Lemma resolve_walk_plain (s : fs) (cwd : rpath) (ab : bool) (comps : list name) (fl : bool) :
  (length comps < walk_fuel)%nat -> comps <> [] -> ~ In dotdot comps ->
  dirs_below s (if ab then @nil name else cwd) comps ->
  (fl = false \/ forall i t, lookup s ((if ab then @nil name else cwd) ++ comps) <> Some (NLink i t)) ->
  resolve s cwd {| up_abs := ab; up_comps := comps |} fl =
    match lookup s ((if ab then @nil name else cwd) ++ comps) with
    | Some n => WFound ((if ab then @nil name else cwd) ++ comps) n
    | None => WMissing ((if ab then @nil name else cwd) ++ removelast comps) (last comps [])
    end.
Proof.
  unfold resolve. cbn [up_abs up_comps].
  generalize walk_fuel. intros f. apply walk_plain.
Qed.

Lemma resolve_dirs s comps fl :
  (length comps < walk_fuel)%nat -> ~ In dotdot comps -> dirpath s comps ->
  resolve s [] {| up_abs := true; up_comps := comps |} fl = WFound comps NDir.
Proof.
  unfold resolve. cbn [up_abs up_comps].
  generalize walk_fuel. intros f. apply walk_dirs.
Qed.
Opaque resolve.

(* a relative path below the directory d *)
Lemma resolve_plain s d comps :
  (length comps < walk_fuel)%nat -> comps <> [] -> ~ In dotdot comps -> dirpath s (d ++ removelast comps) ->
  resolve s d {| up_abs := false; up_comps := comps |} false =
    match lookup s (d ++ comps) with
    | Some n => WFound (d ++ comps) n
    | None => WMissing (d ++ removelast comps) (last comps [])
    end.
Proof.
  intros Hlen Hne Hdd Hd.
  apply (resolve_walk_plain s d false comps false); try assumption; [|left; reflexivity].
  intros q r E Hr. destruct (exists_last Hr) as [r' [x Hx]]. subst r.
  apply (Hd (d ++ q) r'). rewrite E, app_assoc, removelast_snoc, app_assoc. reflexivity.
Qed.

Lemma realpath_unfold s cwd p :
  realpath s cwd p =
    match resolve s [] {| up_abs := true; up_comps := realpath_raw s cwd p |} true with
    | WErr ELOOP => None
    | _ => Some (realpath_raw s cwd p)
    end.
Proof. reflexivity. Qed.

(* target = par ++ [nm]: par a directory path, the last component anything but a link *)
Lemma realpath_plain s par nm :
  (length (par ++ [nm]) < walk_fuel)%nat -> ~ In dotdot (par ++ [nm]) -> dirpath s par ->
  not_link (lookup s (par ++ [nm])) ->
  realpath s [] {| up_abs := true; up_comps := par ++ [nm] |} = Some (par ++ [nm]).
Proof.
  intros Hlen Hdd Hd Hnl.
  assert (J : realpath_raw s [] {| up_abs := true; up_comps := par ++ [nm] |} = par ++ [nm]).
  { unfold realpath_raw. cbn [up_abs up_comps]. rewrite joinreal_plain; [reflexivity | | assumption |].
    - pose proof walk_fuel_lt_realpath_fuel. lia.
    - intros q r E Hq. simpl app. destruct r as [|x r].
      + rewrite app_nil_r in E. subst q. assumption.
      + assert (Hx : x :: r <> []) by discriminate.
        destruct (snoc_split _ _ _ _ (eq_sym E) Hx) as [r' Hr'].
        intros i t. rewrite (Hd q r' Hr'). discriminate. }
  rewrite realpath_unfold, J.
  rewrite (resolve_walk_plain s [] true (par ++ [nm]) true).
  - simpl app. destruct (lookup s (par ++ [nm])); reflexivity.
  - assumption.
  - destruct par; discriminate.
  - assumption.
  - intros q r E Hr. simpl app. destruct (snoc_split _ _ _ _ (eq_sym E) Hr) as [r' Hr']. apply (Hd q r'). assumption.
  - right. exact Hnl.
Qed.

(* ---------- renaming a leaf onto a free name: lookup changes at two keys only ---------------------- *)
Lemma lookup_rekey_leaf s sp dp n k :
  WF s -> WF (rekey sp dp s) -> In (sp, n) s -> sp <> [] -> dp <> [] -> sp <> dp ->
  (forall q m, In (q, m) s -> is_prefix_path sp q = true -> q = sp) ->
  (forall q m, In (q, m) s -> q <> dp) ->
  lookup (rekey sp dp s) k =
    if rpath_eqb k dp then Some n else if rpath_eqb k sp then None else lookup s k.
Proof.
  intros W W' Hin Hs Hd Hsd Leaf Free.
  destruct (rpath_eqb k dp) eqn:Ed.
  - apply rpath_eqb_eq in Ed. subst k. apply lookup_of_In; [assumption|].
    pose proof (In_rekey sp dp s _ _ Hin) as I. rewrite rekey_self in I. exact I.
  - apply rpath_eqb_neq in Ed. destruct (rpath_eqb k sp) eqn:Es.
    + apply rpath_eqb_eq in Es. subst k.
      destruct (lookup (rekey sp dp s) sp) as [m|] eqn:L; [|reflexivity]. exfalso.
      apply lookup_In in L; [|assumption]. apply In_rekey_inv in L as [q [Hq E]].
      destruct (is_prefix_path sp q) eqn:P.
      * assert (q = sp) by (eapply Leaf; eassumption). subst q. rewrite rekey_self in E. congruence.
      * rewrite rekey_outside in E by assumption. subst q.
        assert (is_prefix_path sp sp = true) by (apply is_prefix_path_spec; exists []; rewrite app_nil_r; reflexivity).
        congruence.
    + apply rpath_eqb_neq in Es. destruct k as [|x k]; [reflexivity|].
      destruct (lookup s (x :: k)) as [m|] eqn:L.
      * apply lookup_In in L; [|discriminate]. apply lookup_of_In; [assumption|].
        pose proof (In_rekey sp dp s _ _ L) as I. rewrite rekey_outside in I; [exact I|].
        destruct (is_prefix_path sp (x :: k)) eqn:P; [|reflexivity]. exfalso. apply Es. eapply Leaf; eassumption.
      * destruct (lookup (rekey sp dp s) (x :: k)) as [m|] eqn:L2; [|reflexivity]. exfalso.
        apply lookup_In in L2; [|discriminate]. apply In_rekey_inv in L2 as [q [Hq E]].
        destruct (is_prefix_path sp q) eqn:P.
        -- assert (q = sp) by (eapply Leaf; eassumption). subst q. rewrite rekey_self in E. congruence.
        -- rewrite rekey_outside in E by assumption. subst q.
           apply lookup_None_notin in L. apply L. apply in_map_iff. exists (x :: k, m). split; auto.
Qed.

(* a regular file has nothing below it *)
Lemma file_is_leaf s sp i :
  WF s -> In (sp, NFile i) s -> forall q m, In (q, m) s -> is_prefix_path sp q = true -> q = sp.
Proof.
  intros [ND CL] Hin q m Hq P. apply is_prefix_path_spec in P as [r E]. destruct r as [|x r].
  - rewrite app_nil_r in E. assumption.
  - exfalso. destruct (CL _ _ Hq) as [_ C]. destruct (CL _ _ Hin) as [Hsp _].
    assert (In (sp, NDir) s) by (apply C; [assumption | exists (x :: r); split; [discriminate | assumption]]).
    pose proof (In_unique s sp _ _ ND Hin H). discriminate.
Qed.

(* the skeleton of a tree: directories and symbolic links; regular files are invisible *)
Definition skel (s : fs) (k : rpath) : option node :=
  match lookup s k with Some (NFile _) => None | o => o end.

Lemma skel_dir s k : lookup s k = Some NDir <-> skel s k = Some NDir.
Proof. unfold skel. destruct (lookup s k) as [[i|i t|]|]; split; intros H; congruence. Qed.

Lemma skel_link s k i t : lookup s k = Some (NLink i t) <-> skel s k = Some (NLink i t).
Proof. unfold skel. destruct (lookup s k) as [[j|j u|]|]; split; intros H; congruence. Qed.

(* ---------- removing a leaf (the first half of an atomic replace) ----------------------------------- *)
Lemma assoc_remove_key p s k :
  assoc (remove_key p s) k = if rpath_eqb k p then None else assoc s k.
Proof.
  unfold remove_key. induction s as [|[k0 n0] s IH]; simpl.
  - destruct (rpath_eqb k p); reflexivity.
  - destruct (rpath_eqb k0 p) eqn:E0; simpl.
    + apply rpath_eqb_eq in E0. subst k0. rewrite IH.
      destruct (rpath_eqb k p) eqn:E; [reflexivity|].
      assert (rpath_eqb p k = false) by (apply rpath_eqb_neq; apply rpath_eqb_neq in E; congruence).
      rewrite H. reflexivity.
    + destruct (rpath_eqb k0 k) eqn:E1.
      * apply rpath_eqb_eq in E1. subst k0. rewrite E0. reflexivity.
      * exact IH.
Qed.

Lemma lookup_remove_key p s k :
  p <> [] -> lookup (remove_key p s) k = if rpath_eqb k p then None else lookup s k.
Proof.
  intros Hp. destruct k as [|x k].
  - simpl. destruct p; [congruence | reflexivity].
  - simpl lookup. apply assoc_remove_key.
Qed.

Lemma In_remove_key p s k n : In (k, n) (remove_key p s) <-> In (k, n) s /\ k <> p.
Proof.
  unfold remove_key. rewrite filter_In. simpl. rewrite negb_true_iff, rpath_eqb_neq. reflexivity.
Qed.

Lemma NoDup_map_filter {A B} (f : A -> B) (p : A -> bool) l : NoDup (map f l) -> NoDup (map f (filter p l)).
Proof.
  induction l as [|a l IH]; simpl; intros H; [constructor|].
  inversion H as [|? ? Ha H']; subst. destruct (p a); simpl; [|apply IH; assumption].
  constructor; [|apply IH; assumption].
  intros K. apply Ha. apply in_map_iff in K as [y [E Hy]]. apply filter_In in Hy as [Hy _].
  apply in_map_iff. exists y. split; assumption.
Qed.

Lemma remove_file_WF s dp j : WF s -> In (dp, NFile j) s -> WF (remove_key dp s).
Proof.
  intros [ND CL] Hin. split.
  - unfold remove_key. apply NoDup_map_filter. assumption.
  - intros k n Hk. apply In_remove_key in Hk as [Hk Hne]. destruct (CL _ _ Hk) as [Hk0 C].
    split; [assumption|]. intros q Hq Hp. apply In_remove_key. split; [apply C; assumption|].
    intros E. subst q. pose proof (C dp Hq Hp) as Hd. pose proof (In_unique s dp _ _ ND Hin Hd). discriminate.
Qed.

(* ---------- a plain path followed by one ".." ------------------------------------------------------------ *)
Lemma dotdot_refl : name_eqb dotdot dotdot = true.
Proof. apply name_eqb_eq. reflexivity. Qed.

Lemma walk_dotdot_last f s cur pre fl :
  (length pre + 1 < f)%nat -> ~ In dotdot pre ->
  (forall q r, pre = q ++ r -> lookup s (cur ++ q) = Some NDir) ->
  lookup s (removelast (cur ++ pre)) = Some NDir ->
  walk f s cur (pre ++ [dotdot]) fl = WFound (removelast (cur ++ pre)) NDir.
Proof.
  revert cur pre. induction f as [|f IH]; intros cur pre Hlen Hdd Hd Hlast; [inversion Hlen|].
  assert (Hcur : lookup s cur = Some NDir).
  { pose proof (Hd [] pre eq_refl) as H. rewrite app_nil_r in H. exact H. }
  destruct pre as [|c pre].
  - cbn [app walk]. rewrite Hcur, dotdot_refl. rewrite app_nil_r in Hlast. rewrite app_nil_r.
    destruct f as [|f]; [simpl in Hlen; lia|]. cbn [walk]. rewrite Hlast. reflexivity.
  - cbn [app walk]. rewrite Hcur.
    rewrite name_eqb_false_of_neq by (intros E; apply Hdd; left; assumption).
    assert (Hc : lookup s (cur ++ [c]) = Some NDir) by (apply (Hd [c] pre); reflexivity).
    rewrite Hc.
    destruct (pre ++ [dotdot]) as [|x l] eqn:E; [apply app_eq_nil in E as [_ E]; discriminate|].
    rewrite <- E. rewrite IH.
    + rewrite <- app_assoc. reflexivity.
    + simpl in Hlen. lia.
    + intros K. apply Hdd. right. assumption.
    + intros q r Eq. rewrite <- app_assoc. apply (Hd (c :: q) r). simpl. rewrite Eq. reflexivity.
    + rewrite <- app_assoc. exact Hlast.
Qed.

Lemma joinreal_dotdot_last f s path rest inprog :
  (length rest + 1 < f)%nat -> ~ In dotdot rest ->
  (forall q r, rest = q ++ r -> q <> [] -> not_link (lookup s (path ++ q))) ->
  joinreal f s path (rest ++ [dotdot]) inprog = (removelast (path ++ rest), true).
Proof.
  revert path rest. induction f as [|f IH]; intros path rest Hlen Hdd Hnl; [inversion Hlen|].
  destruct rest as [|c rest].
  - cbn [app joinreal]. rewrite dotdot_refl. rewrite app_nil_r.
    destruct f as [|f]; [simpl in Hlen; lia|]. reflexivity.
  - cbn [app joinreal].
    rewrite name_eqb_false_of_neq by (intros E; apply Hdd; left; assumption).
    assert (R : joinreal f s (path ++ [c]) (rest ++ [dotdot]) inprog = (removelast (path ++ c :: rest), true)).
    { rewrite IH.
      - rewrite <- app_assoc. reflexivity.
      - simpl in Hlen. lia.
      - intros K. apply Hdd. right. assumption.
      - intros q r E Hq. rewrite <- app_assoc. simpl. apply (Hnl (c :: q) r); [simpl; rewrite E; reflexivity | discriminate]. }
    destruct (lookup s (path ++ [c])) as [[i|i t|]|] eqn:L; try exact R.
    exfalso. apply (Hnl [c] rest eq_refl (ltac:(discriminate)) i t). assumption.
Qed.

Transparent resolve.
Lemma resolve_dotdot_last (s : fs) (cwd : rpath) (ab : bool) (pre : list name) (fl : bool) :
  (length pre + 1 < walk_fuel)%nat -> ~ In dotdot pre ->
  (forall q r, pre = q ++ r -> lookup s ((if ab then @nil name else cwd) ++ q) = Some NDir) ->
  lookup s (removelast ((if ab then @nil name else cwd) ++ pre)) = Some NDir ->
  resolve s cwd {| up_abs := ab; up_comps := pre ++ [dotdot] |} fl =
    WFound (removelast ((if ab then @nil name else cwd) ++ pre)) NDir.
Proof.
  unfold resolve. cbn [up_abs up_comps]. generalize walk_fuel. intros f. apply walk_dotdot_last.
Qed.
Opaque resolve.

Lemma dirpath_removelast s p : dirpath s p -> dirpath s (removelast p).
Proof.
  intros H. destruct p as [|x p] using rev_ind; [exact H|].
  rewrite removelast_snoc. apply (dirpath_prefix s p [x]). exact H.
Qed.

(* realpath of  par/..  where par is a directory path *)
Lemma realpath_dotdot_last s par :
  (length par + 1 < walk_fuel)%nat -> ~ In dotdot par -> dirpath s par ->
  realpath s [] {| up_abs := true; up_comps := par ++ [dotdot] |} = Some (removelast par).
Proof.
  intros Hlen Hdd Hd.
  assert (J : realpath_raw s [] {| up_abs := true; up_comps := par ++ [dotdot] |} = removelast par).
  { unfold realpath_raw. cbn [up_abs up_comps]. rewrite joinreal_dotdot_last; [reflexivity | | assumption |].
    - pose proof walk_fuel_lt_realpath_fuel. lia.
    - intros q r E Hq i t. simpl app. rewrite (Hd q r E). discriminate. }
  rewrite realpath_unfold, J. rewrite resolve_dirs; [reflexivity | | |].
  - assert (length (removelast par) <= length par)%nat.
    { destruct par as [|x par] using rev_ind; [simpl; lia|]. rewrite removelast_snoc, app_length. lia. }
    lia.
  - intros K. apply In_removelast in K. exact (Hdd K).
  - apply dirpath_removelast. assumption.
Qed.
