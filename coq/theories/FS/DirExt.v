(* Creating plain directories at names that were missing does not change what realpath returns     *)
(* (posixpath._joinrealpath appends a missing component and a plain directory alike), and does not  *)
(* change what a successful kernel walk finds.  This is what lets a containment test evaluated      *)
(* BEFORE mkdir -p speak about the rename issued AFTER it.                                           *)
From Tempren Require Import Base.Str FS.Model FS.Lemmas FS.RealpathAgree.
Open Scope N_scope.

Definition dir_ext (s s1 : fs) : Prop :=
  forall p, lookup s1 p = lookup s p \/ (lookup s p = None /\ lookup s1 p = Some NDir).

Lemma dir_ext_refl s : dir_ext s s.
Proof. intros p. left. reflexivity. Qed.

Lemma dir_ext_trans a b c : dir_ext a b -> dir_ext b c -> dir_ext a c.
Proof.
  intros H1 H2 p. destruct (H1 p) as [E1|[E1 F1]], (H2 p) as [E2|[E2 F2]].
  - left. congruence.
  - right. split; congruence.
  - right. split; congruence.
  - congruence.
Qed.

Lemma dir_ext_some s s1 p n : dir_ext s s1 -> lookup s p = Some n -> lookup s1 p = Some n.
Proof. intros E H. destruct (E p) as [K|[K _]]; congruence. Qed.

Lemma joinreal_dir_ext s s1 f : dir_ext s s1 -> forall path rest inprog,
  joinreal f s1 path rest inprog = joinreal f s path rest inprog.
Proof.
  intros E. induction f as [|f IH]; intros path rest inprog; [reflexivity|].
  rewrite !joinreal_S. destruct rest as [|c rest']; [reflexivity|].
  destruct (name_eqb c dotdot); [apply IH|].
  destruct (E (path ++ [c])) as [K|[K1 K2]].
  - rewrite K. destruct (lookup s (path ++ [c])) as [[i|i t|]|]; try apply IH.
    destruct (existsb (rpath_eqb (path ++ [c])) inprog); [reflexivity|].
    rewrite IH. destruct (joinreal f s (if up_abs t then [] else path) (up_comps t) ((path ++ [c]) :: inprog)) as [p1 [|]];
      [apply IH | reflexivity].
  - rewrite K1, K2. apply IH.
Qed.

Lemma realpath_raw_dir_ext s s1 cwd p : dir_ext s s1 -> realpath_raw s1 cwd p = realpath_raw s cwd p.
Proof. intros E. unfold realpath_raw. rewrite (joinreal_dir_ext _ _ _ E). reflexivity. Qed.

Lemma walk_found_dir_ext s s1 f : dir_ext s s1 -> forall cur comps fl p n,
  walk f s cur comps fl = WFound p n -> walk f s1 cur comps fl = WFound p n.
Proof.
  intros E. induction f as [|f IH]; intros cur comps fl p n H.
  - simpl in H. discriminate.
  - destruct comps as [|c rest].
    + rewrite walk_S in H. destruct (lookup s cur) as [m|] eqn:Hc; [|discriminate]. inversion H; subst.
      apply walk_nil_found. apply (dir_ext_some _ _ _ _ E Hc).
    + destruct (walk_cons_inv _ _ _ _ _ _ _ H (found_not_err _ _)) as [Hc W].
      apply walk_cons_intro; [apply (dir_ext_some _ _ _ _ E Hc)|].
      destruct W as [Ed H1 | Ed m Hl Hm Hrest E1 | Ed m Hl Hm Hrest Hfl E1 | Ed m Hl Hm Hrest H1 | Ed i t Hl Hrest H1 | Ed Hl Hrest E1].
      * apply WC_dd; [assumption | apply IH; assumption].
      * apply WC_last_node with (n := m); try assumption. apply (dir_ext_some _ _ _ _ E Hl).
      * apply WC_last_link with (n := m); try assumption. apply (dir_ext_some _ _ _ _ E Hl).
      * apply WC_node with (n := m); try assumption; [apply (dir_ext_some _ _ _ _ E Hl) | apply IH; assumption].
      * apply WC_link with (i := i) (t := t); try assumption; [apply (dir_ext_some _ _ _ _ E Hl) | apply IH; assumption].
      * discriminate.
Qed.

Lemma resolve_found_dir_ext s s1 cwd p fl q n :
  dir_ext s s1 -> resolve s cwd p fl = WFound q n -> resolve s1 cwd p fl = WFound q n.
Proof. intros E. rewrite !resolve_unfold. apply walk_found_dir_ext. assumption. Qed.

(* two runs of the walk that both end without exhausting their fuel end alike *)
Lemma walk_det f1 f2 s cur comps fl r1 r2 :
  walk f1 s cur comps fl = r1 -> walk f2 s cur comps fl = r2 ->
  r1 <> WErr ELOOP -> r2 <> WErr ELOOP -> r1 = r2.
Proof.
  intros H1 H2 N1 N2.
  apply (walk_mono_le f1 (Nat.max f1 f2)) in H1; [|apply Nat.le_max_l | assumption].
  apply (walk_mono_le f2 (Nat.max f1 f2)) in H2; [|apply Nat.le_max_r | assumption].
  congruence.
Qed.

(* ---------- mkdir(2) is such an extension ----------------------------------------------------------- *)
Lemma assoc_app_snoc s k n q :
  assoc (s ++ [(k, n)]) q = match assoc s q with Some m => Some m | None => if rpath_eqb k q then Some n else None end.
Proof.
  induction s as [|[k0 m0] s IH]; simpl.
  - reflexivity.
  - destruct (rpath_eqb k0 q); [reflexivity | exact IH].
Qed.

Lemma snoc_dir_ext s k : k <> [] -> lookup s k = None -> dir_ext s (s ++ [(k, NDir)]).
Proof.
  intros Hk Hn q. destruct q as [|x q]; [left; reflexivity|].
  cbn [lookup]. rewrite assoc_app_snoc.
  destruct (assoc s (x :: q)) as [m|] eqn:A; [left; reflexivity|].
  destruct (rpath_eqb k (x :: q)) eqn:Ek.
  - right. split; reflexivity.
  - left. reflexivity.
Qed.

Lemma os_mkdir_ok s cwd p s' :
  os_mkdir s cwd p = SOk s' ->
  exists par nm, resolve s cwd p false = WMissing par nm /\ s' = s ++ [(par ++ [nm], NDir)].
Proof.
  unfold os_mkdir. destruct (resolve s cwd p false) as [| par nm |]; try discriminate.
  destruct (name_eqb nm dotdot); [discriminate|]. intros H. inversion H. exists par, nm. split; reflexivity.
Qed.

Lemma os_mkdir_dir_ext s cwd p s' : os_mkdir s cwd p = SOk s' -> dir_ext s s'.
Proof.
  intros H. destruct (os_mkdir_ok _ _ _ _ H) as [par [nm [R ->]]].
  apply resolve_missing in R as [_ Hn].
  apply snoc_dir_ext; [destruct par; discriminate | assumption].
Qed.

Lemma os_mkdir_enoent s cwd p : os_mkdir s cwd p = SErr ENOENT -> resolve s cwd p false = WErr ENOENT.
Proof.
  unfold os_mkdir. destruct (resolve s cwd p false) as [| par nm |e]; try discriminate.
  - destruct (name_eqb nm dotdot); discriminate.
  - intros H. inversion H. reflexivity.
Qed.

(* a result of the un-followed walk other than "found" is also the result of the followed walk *)
Lemma resolve_nofollow_follow s cwd p r :
  resolve s cwd p false = r -> (forall q n, r <> WFound q n) -> resolve s cwd p true = r.
Proof.
  rewrite !resolve_unfold. intros H Hr. rewrite <- H. apply walk_nofollow_follow.
  intros q n K. rewrite K in H. exact (Hr q n (eq_sym H)).
Qed.
