(* Facts about the filesystem model: well-formedness is preserved by mkdir and by a    *)
(* rename onto a missing name, and neither changes the list of non-directory entries. *)
From Tempren Require Import Base.Str FS.Model.
Open Scope N_scope.

(* ---------- decidable equalities -------------------------------------------------- *)
Lemma name_eqb_eq a b : name_eqb a b = true <-> a = b.
Proof. unfold name_eqb. apply list_eqb_spec. intros x y. apply N.eqb_eq. Qed.

Lemma rpath_eqb_eq a b : rpath_eqb a b = true <-> a = b.
Proof. unfold rpath_eqb. apply list_eqb_spec. exact name_eqb_eq. Qed.

Lemma rpath_eqb_refl a : rpath_eqb a a = true.
Proof. apply rpath_eqb_eq. reflexivity. Qed.

Lemma rpath_eqb_neq a b : rpath_eqb a b = false <-> a <> b.
Proof.
  split.
  - intros H E. apply rpath_eqb_eq in E. congruence.
  - intros H. destruct (rpath_eqb a b) eqn:E; [apply rpath_eqb_eq in E; contradiction | reflexivity].
Qed.

Lemma is_prefix_path_spec a b : is_prefix_path a b = true <-> exists r, b = a ++ r.
Proof.
  revert b; induction a as [|x a IH]; intros b; simpl.
  - split; [intros _; exists b; reflexivity | reflexivity].
  - destruct b as [|y b].
    + split; [discriminate | intros [r H]; discriminate].
    + rewrite andb_true_iff, name_eqb_eq, IH. split.
      * intros [-> [r ->]]. exists r. reflexivity.
      * intros [r H]. inversion H; subst. split; [reflexivity | exists r; reflexivity].
Qed.

Lemma skipn_app_exact {A} (a r : list A) : skipn (length a) (a ++ r) = r.
Proof. induction a; simpl; auto. Qed.

Lemma rekey_under src dst r : rekey_path src dst (src ++ r) = dst ++ r.
Proof.
  unfold rekey_path.
  assert (H : is_prefix_path src (src ++ r) = true) by (apply is_prefix_path_spec; exists r; reflexivity).
  rewrite H, skipn_app_exact. reflexivity.
Qed.

Lemma rekey_self src dst : rekey_path src dst src = dst.
Proof. pose proof (rekey_under src dst []) as H. rewrite !app_nil_r in H. exact H. Qed.

Lemma rekey_outside src dst p : is_prefix_path src p = false -> rekey_path src dst p = p.
Proof. unfold rekey_path. intros ->. reflexivity. Qed.

(* ---------- association list facts -------------------------------------------------- *)
Lemma assoc_In s p n : assoc s p = Some n -> In (p, n) s.
Proof.
  induction s as [|[k m] s IH]; simpl; [discriminate|].
  destruct (rpath_eqb k p) eqn:E.
  - intros H; inversion H; subst. apply rpath_eqb_eq in E; subst. left; reflexivity.
  - intros H. right. apply IH, H.
Qed.

Lemma assoc_None s p : assoc s p = None -> ~ In p (map fst s).
Proof.
  induction s as [|[k m] s IH]; simpl; [intros _ H; inversion H|].
  destruct (rpath_eqb k p) eqn:E; [discriminate|].
  intros H [K|K]; [subst; rewrite rpath_eqb_refl in E; discriminate | exact (IH H K)].
Qed.

Lemma In_assoc s p n : NoDup (map fst s) -> In (p, n) s -> assoc s p = Some n.
Proof.
  induction s as [|[k m] s IH]; simpl; intros ND H; [contradiction|].
  destruct H as [H|H].
  - inversion H; subst. rewrite rpath_eqb_refl. reflexivity.
  - inversion ND as [|? ? Hk ND']; subst.
    destruct (rpath_eqb k p) eqn:E.
    + apply rpath_eqb_eq in E; subst. exfalso. apply Hk. apply in_map_iff. exists (p, n). split; auto.
    + apply IH; assumption.
Qed.

Lemma In_unique (s : fs) p n m : NoDup (map fst s) -> In (p, n) s -> In (p, m) s -> n = m.
Proof.
  intros ND H1 H2. apply (In_assoc _ _ _ ND) in H1. apply (In_assoc _ _ _ ND) in H2. congruence.
Qed.

(* ---------- well-formed filesystems --------------------------------------------------- *)
Definition proper_prefix (q k : rpath) : Prop := exists r, r <> [] /\ k = q ++ r.

Definition WF (s : fs) : Prop :=
  NoDup (map fst s) /\
  forall k n, In (k, n) s -> k <> [] /\ forall q, q <> [] -> proper_prefix q k -> In (q, NDir) s.

Lemma lookup_In s p n : p <> [] -> lookup s p = Some n -> In (p, n) s.
Proof. destruct p; [congruence|]. simpl. intros _. apply assoc_In. Qed.

Lemma lookup_None_notin s p : lookup s p = None -> ~ In p (map fst s).
Proof. destruct p; simpl; [discriminate|]. apply assoc_None. Qed.

(* a directory found by lookup, and everything above it, are directories of s *)
Lemma prefix_of_dir s par q :
  WF s -> lookup s par = Some NDir -> q <> [] -> (exists r, par = q ++ r) -> In (q, NDir) s.
Proof.
  intros [ND CL] Hpar Hq [r Hr].
  destruct r as [|x r].
  - rewrite app_nil_r in Hr; subst. apply lookup_In; assumption.
  - assert (Hp : par <> []) by (subst; destruct q; discriminate).
    apply lookup_In in Hpar; [|assumption].
    destruct (CL _ _ Hpar) as [_ C]. apply C; [assumption|]. exists (x :: r). split; [discriminate | assumption].
Qed.

Lemma snoc_split {A} (q r par : list A) (nm : A) :
  q ++ r = par ++ [nm] -> r <> [] -> exists r', par = q ++ r'.
Proof.
  intros H Hr. destruct (exists_last Hr) as [r' [x Hx]]. subst r.
  rewrite app_assoc in H. apply app_inj_tail in H as [H _]. exists r'. symmetry. exact H.
Qed.

(* ---------- the walk -------------------------------------------------------------------- *)
Lemma walk_missing f s cur comps fl par nm :
  walk f s cur comps fl = WMissing par nm -> lookup s par = Some NDir /\ lookup s (par ++ [nm]) = None.
Proof.
  revert cur comps. induction f as [|f IH]; intros cur comps; simpl; [discriminate|].
  destruct comps as [|c rest].
  - destruct (lookup s cur); discriminate.
  - destruct (lookup s cur) as [[i|i t|]|] eqn:Hc; try discriminate.
    destruct (name_eqb c dotdot); [apply IH|].
    destruct (lookup s (cur ++ [c])) as [[i|i t|]|] eqn:Hl.
    + destruct rest; [discriminate | apply IH].
    + destruct rest; [destruct fl; [apply IH | discriminate] | apply IH].
    + destruct rest; [discriminate | apply IH].
    + destruct rest; [|discriminate]. intros H; inversion H; subst. split; assumption.
Qed.

Lemma walk_found f s cur comps fl p n :
  walk f s cur comps fl = WFound p n -> lookup s p = Some n.
Proof.
  revert cur comps. induction f as [|f IH]; intros cur comps; simpl; [discriminate|].
  destruct comps as [|c rest].
  - destruct (lookup s cur) eqn:Hc; [|discriminate]. intros H; inversion H; subst. assumption.
  - destruct (lookup s cur) as [[i|i t|]|] eqn:Hc; try discriminate.
    destruct (name_eqb c dotdot); [apply IH|].
    destruct (lookup s (cur ++ [c])) as [[i|i t|]|] eqn:Hl.
    + destruct rest; [intros H; inversion H; subst; assumption | apply IH].
    + destruct rest; [destruct fl; [apply IH | intros H; inversion H; subst; assumption] | apply IH].
    + destruct rest; [intros H; inversion H; subst; assumption | apply IH].
    + destruct rest; discriminate.
Qed.

(* following the last link can only matter when the un-followed walk finds something *)
Lemma walk_nofollow_follow f s cur comps :
  (forall p n, walk f s cur comps false <> WFound p n) ->
  walk f s cur comps true = walk f s cur comps false.
Proof.
  revert cur comps. induction f as [|f IH]; intros cur comps H; simpl in *; [reflexivity|].
  destruct comps as [|c rest]; [reflexivity|].
  destruct (lookup s cur) as [[i|i t|]|]; try reflexivity.
  destruct (name_eqb c dotdot); [apply IH, H|].
  destruct (lookup s (cur ++ [c])) as [[i|i t|]|].
  - destruct rest; [reflexivity | apply IH, H].
  - destruct rest; [exfalso; eapply H; reflexivity | apply IH, H].
  - destruct rest; [reflexivity | apply IH, H].
  - reflexivity.
Qed.

Lemma resolve_missing (s : fs) cwd p fl (par : rpath) nm :
  resolve s cwd p fl = WMissing par nm -> lookup s par = Some NDir /\ lookup s (par ++ [nm]) = None.
Proof. unfold resolve. generalize walk_fuel. intros f. apply walk_missing. Qed.

Lemma resolve_found s cwd p fl q n : resolve s cwd p fl = WFound q n -> lookup s q = Some n.
Proof. unfold resolve. generalize walk_fuel. intros f. apply walk_found. Qed.

Lemma not_lexists_not_found s cwd p :
  lexists s cwd p = false -> forall q n, resolve s cwd p false <> WFound q n.
Proof. unfold lexists. intros H q n E. rewrite E in H. discriminate. Qed.

Lemma not_lexists_follow s cwd p :
  lexists s cwd p = false -> resolve s cwd p true = resolve s cwd p false.
Proof.
  unfold lexists, resolve. generalize walk_fuel. intros f H. apply walk_nofollow_follow.
  intros q n E. rewrite E in H. discriminate.
Qed.

Lemma not_lexists_not_dir s cwd p : lexists s cwd p = false -> is_dir s cwd p = false.
Proof.
  unfold lexists, is_dir, resolve. generalize walk_fuel. intros f H.
  rewrite walk_nofollow_follow.
  - destruct (walk f s (if up_abs p then [] else cwd) (up_comps p) false); [discriminate | reflexivity | reflexivity].
  - intros q n E. rewrite E in H. discriminate.
Qed.

Lemma NoDup_app_snoc {A} (l : list A) x : NoDup l -> ~ In x l -> NoDup (l ++ [x]).
Proof.
  induction l as [|y l IH]; simpl; intros ND H.
  - constructor; [intros [] | constructor].
  - inversion ND as [|? ? Hy ND']; subst. constructor.
    + intros K. apply in_app_or in K as [K|[K|[]]]; [contradiction | subst; apply H; left; reflexivity].
    + apply IH; [assumption | intros K; apply H; right; assumption].
Qed.

(* from here on the walk is used only through the lemmas above *)
Opaque resolve walk_fuel.

(* ---------- mkdir -------------------------------------------------------------------------- *)
Definition leaves_eq (a b : fs) : Prop := leaves a = leaves b.

Lemma leaves_app a b : leaves (a ++ b) = leaves a ++ leaves b.
Proof. unfold leaves. rewrite map_app, filter_app. reflexivity. Qed.

Lemma mkdir_preserves s cwd p s' :
  WF s -> os_mkdir s cwd p = SOk s' -> WF s' /\ leaves s' = leaves s.
Proof.
  intros W. unfold os_mkdir.
  destruct (resolve s cwd p false) as [q n|par nm|e] eqn:R; try discriminate.
  destruct (name_eqb nm dotdot); [discriminate|].
  intros H; inversion H; subst; clear H.
  apply resolve_missing in R as [Hpar Hnone].
  split.
  - destruct W as [ND CL]. split.
    + rewrite map_app. simpl. apply NoDup_app_snoc; [assumption|]. apply lookup_None_notin. assumption.
    + intros k n Hin. apply in_app_or in Hin as [Hin|[Hin|[]]].
      * destruct (CL _ _ Hin) as [Hk C]. split; [assumption|]. intros q Hq Hp. apply in_or_app. left. apply C; assumption.
      * inversion Hin; subst. split; [destruct par; discriminate|].
        intros q Hq [r [Hr E]]. apply in_or_app. left.
        symmetry in E. destruct (snoc_split _ _ _ _ E Hr) as [r' Hr'].
        apply (prefix_of_dir s par q); [split; assumption | assumption | assumption | exists r'; assumption].
  - rewrite leaves_app. unfold leaves at 2. simpl. apply app_nil_r.
Qed.

(* ---------- rename onto a missing name ------------------------------------------------------ *)
Lemma NoDup_map_on {A B} (f : A -> B) (l : list A) :
  NoDup l -> (forall x y, In x l -> In y l -> f x = f y -> x = y) -> NoDup (map f l).
Proof.
  induction l as [|a l IH]; simpl; intros ND Inj; [constructor|].
  inversion ND as [|? ? Ha ND']; subst. constructor.
  - intros K. apply in_map_iff in K as [y [E Hy]].
    assert (y = a) by (apply Inj; [right; assumption | left; reflexivity | assumption]). subst. contradiction.
  - apply IH; [assumption|]. intros x y Hx Hy. apply Inj; right; assumption.
Qed.

Lemma is_prefix_false a b : is_prefix_path a b = false <-> ~ exists r, b = a ++ r.
Proof.
  split.
  - intros H K. apply is_prefix_path_spec in K. congruence.
  - intros H. destruct (is_prefix_path a b) eqn:E; [|reflexivity]. apply is_prefix_path_spec in E. contradiction.
Qed.

Lemma nothing_below s dp :
  WF s -> dp <> [] -> lookup s dp = None -> forall k n, In (k, n) s -> is_prefix_path dp k = false.
Proof.
  intros [ND CL] Hdp Hnone k n Hin. apply is_prefix_false. intros [r E].
  apply lookup_None_notin in Hnone. apply Hnone.
  destruct r as [|x r].
  - rewrite app_nil_r in E; subst. apply in_map_iff. exists (dp, n). split; auto.
  - destruct (CL _ _ Hin) as [_ C].
    assert (In (dp, NDir) s) by (apply C; [assumption | exists (x :: r); split; [discriminate | assumption]]).
    apply in_map_iff. exists (dp, NDir). split; auto.
Qed.

Lemma map_snd_rekey sp dp s : map snd (rekey sp dp s) = map snd s.
Proof. unfold rekey. rewrite map_map. reflexivity. Qed.

Lemma leaves_rekey sp dp s : leaves (rekey sp dp s) = leaves s.
Proof. unfold leaves. rewrite map_snd_rekey. reflexivity. Qed.

Lemma In_rekey sp dp s k n : In (k, n) s -> In (rekey_path sp dp k, n) (rekey sp dp s).
Proof. intros H. unfold rekey. apply in_map_iff. exists (k, n). split; [reflexivity | assumption]. Qed.

Lemma In_rekey_inv sp dp s k' n :
  In (k', n) (rekey sp dp s) -> exists k, In (k, n) s /\ k' = rekey_path sp dp k.
Proof.
  unfold rekey. intros H. apply in_map_iff in H as [[k m] [E Hin]]. simpl in E. inversion E; subst.
  exists k. split; [assumption | reflexivity].
Qed.

Lemma prefix_dec (a b : rpath) : {exists r, b = a ++ r} + {~ exists r, b = a ++ r}.
Proof.
  destruct (is_prefix_path a b) eqn:E.
  - left. apply is_prefix_path_spec. assumption.
  - right. apply is_prefix_false. assumption.
Qed.

Lemma rename_missing_preserves s sp sn dpar dname :
  WF s -> sp <> [] -> In (sp, sn) s ->
  lookup s dpar = Some NDir -> lookup s (dpar ++ [dname]) = None ->
  is_dir_node sn && is_prefix_path sp (dpar ++ [dname]) = false ->
  WF (rekey sp (dpar ++ [dname]) s) /\ leaves (rekey sp (dpar ++ [dname]) s) = leaves s.
Proof.
  intros W Hsp Hsrc Hpar Hnone Hinv. split; [|apply leaves_rekey].
  set (dp := dpar ++ [dname]) in *.
  assert (Hdp : dp <> []) by (unfold dp; destruct dpar; discriminate).
  pose proof (nothing_below s dp W Hdp Hnone) as Below.
  destruct W as [ND CL].
  (* a non-directory source has nothing below it, and is not above a directory *)
  assert (SrcAbove : forall q, In (q, NDir) s -> (exists t, q = sp ++ t) -> sn = NDir).
  { intros q Hq [t Et]. destruct t as [|x t].
    - rewrite app_nil_r in Et; subst. apply (In_unique s sp sn NDir ND Hsrc Hq).
    - destruct (CL _ _ Hq) as [_ C].
      assert (In (sp, NDir) s) by (apply C; [assumption | exists (x :: t); split; [discriminate | assumption]]).
      apply (In_unique s sp sn NDir ND Hsrc H). }
  (* no directory prefix of dpar lies at or below sp *)
  assert (ParOutside : forall q, q <> [] -> (exists r, dpar = q ++ r) -> is_prefix_path sp q = false).
  { intros q Hq [r Er]. apply is_prefix_false. intros [t Et].
    assert (Hqd : In (q, NDir) s) by (apply (prefix_of_dir s dpar q); [split; assumption | assumption | assumption | exists r; assumption]).
    assert (sn = NDir) by (apply (SrcAbove q Hqd); exists t; assumption). subst sn. simpl in Hinv.
    assert (is_prefix_path sp dp = true).
    { apply is_prefix_path_spec. exists (t ++ r ++ [dname]). unfold dp. rewrite Er, Et. rewrite <- !app_assoc. reflexivity. }
    congruence. }
  split.
  - (* keys stay distinct *)
    unfold rekey. rewrite map_map. simpl.
    rewrite <- (map_map fst (rekey_path sp dp)).
    apply NoDup_map_on; [assumption|].
    intros x y Hx Hy E.
    apply in_map_iff in Hx as [[kx nx] [Ex Hx]]. apply in_map_iff in Hy as [[ky ny] [Ey Hy]].
    simpl in Ex, Ey. subst kx ky.
    destruct (prefix_dec sp x) as [[rx Px]|Px], (prefix_dec sp y) as [[ry Py]|Py].
    + subst. rewrite !rekey_under in E. apply app_inv_head in E. congruence.
    + subst x. rewrite rekey_under in E. rewrite rekey_outside in E by (apply is_prefix_false; assumption).
      exfalso. pose proof (Below _ _ Hy) as B. apply is_prefix_false in B. apply B. exists rx. symmetry. assumption.
    + subst y. rewrite rekey_under in E. rewrite (rekey_outside sp dp x) in E by (apply is_prefix_false; assumption).
      exfalso. pose proof (Below _ _ Hx) as B. apply is_prefix_false in B. apply B. exists ry. assumption.
    + rewrite !rekey_outside in E by (apply is_prefix_false; assumption). assumption.
  - (* parents stay directories *)
    intros k' n Hin. apply In_rekey_inv in Hin as [k [Hin ->]].
    destruct (CL _ _ Hin) as [Hk C].
    destruct (prefix_dec sp k) as [[r Pk]|Pk].
    + subst k. rewrite rekey_under. split; [destruct dp; [congruence | discriminate]|].
      intros q Hq [r2 [Hr2 E]].
      apply app_eq_app in E as [l [[E1 E2]|[E1 E2]]].
      * (* dp = q ++ l : q is a prefix of dp *)
        destruct l as [|x l].
        -- rewrite app_nil_r in E1. subst q. simpl in E2. subst r2.
           (* q = dp itself: then r <> [] and sp is a directory *)
           destruct r as [|y r]; [congruence|].
           assert (In (sp, NDir) s) by (apply C; [assumption | exists (y :: r); split; [discriminate | reflexivity]]).
           pose proof (In_rekey sp dp s sp NDir H) as K. rewrite rekey_self in K. exact K.
        -- assert (Hx : x :: l <> []) by discriminate.
           unfold dp in E1. destruct (snoc_split _ _ _ _ (eq_sym E1) Hx) as [r' Hr'].
           assert (Hqd : In (q, NDir) s) by (apply (prefix_of_dir s dpar q); [split; assumption | assumption | assumption | exists r'; assumption]).
           pose proof (In_rekey sp dp s q NDir Hqd) as K.
           rewrite (rekey_outside sp dp q) in K by (apply ParOutside; [assumption | exists r'; assumption]). exact K.
      * (* q = dp ++ l, r = l ++ r2 *)
        subst q r.
        assert (In (sp ++ l, NDir) s).
        { apply C; [destruct sp; [congruence | discriminate]|]. exists r2. split; [assumption | rewrite app_assoc; reflexivity]. }
        pose proof (In_rekey sp dp s (sp ++ l) NDir H) as K. rewrite rekey_under in K. exact K.
    + rewrite rekey_outside by (apply is_prefix_false; assumption). split; [assumption|].
      intros q Hq Hp. pose proof (C q Hq Hp) as Hqd.
      pose proof (In_rekey sp dp s q NDir Hqd) as K. rewrite (rekey_outside sp dp q) in K; [exact K|].
      apply is_prefix_false. intros [t Et]. destruct Hp as [r2 [_ Ek]]. apply Pk. exists (t ++ r2). subst. rewrite app_assoc. reflexivity.
Qed.

(* os.rename with a destination that does not exist (not even as a dangling link) *)
Lemma os_rename_free_preserves s cwd src dst s' :
  WF s -> lexists s cwd dst = false -> os_rename s cwd src dst = SOk s' ->
  WF s' /\ leaves s' = leaves s.
Proof.
  intros W Hfree. unfold os_rename.
  destruct (bad_last src || bad_last dst).
  { destruct (resolve s cwd src false); destruct (resolve s cwd dst false); discriminate. }
  destruct (resolve s cwd src false) as [sp sn|? ?|?] eqn:Rs; try discriminate.
  destruct sp as [|x sp]; [discriminate|].
  unfold lexists in Hfree.
  destruct (resolve s cwd dst false) as [dp dn|dpar dname|e] eqn:Rd; try discriminate.
  destruct (name_eqb dname dotdot); [discriminate|].
  destruct (is_dir_node sn && is_prefix_path (x :: sp) (dpar ++ [dname])) eqn:Hinv; [discriminate|].
  intros H; inversion H; subst; clear H.
  apply resolve_found in Rs. apply resolve_missing in Rd as [Hpar Hnone].
  apply rename_missing_preserves with (sn := sn); try assumption; [discriminate|].
  apply lookup_In; [discriminate | assumption].
Qed.

Lemma shutil_move_free_preserves s cwd src dst s' :
  WF s -> lexists s cwd dst = false -> shutil_move_fs s cwd src dst = SOk s' ->
  WF s' /\ leaves s' = leaves s.
Proof.
  intros W Hfree. unfold shutil_move_fs. rewrite (not_lexists_not_dir _ _ _ Hfree).
  apply os_rename_free_preserves; assumption.
Qed.
