(* A boolean well-formedness checker for concrete filesystems (used by examples and by the *)
(* correspondence check to confirm that every generated tree satisfies the theorems'       *)
(* hypothesis), with its soundness proof.                                                   *)
From Tempren Require Import Base.Str FS.Model FS.Lemmas.
Open Scope N_scope.

Fixpoint nodup_b (l : list rpath) : bool :=
  match l with
  | [] => true
  | x :: r => negb (existsb (rpath_eqb x) r) && nodup_b r
  end.

Fixpoint proper_prefixes (k : rpath) : list rpath :=      (* non-empty proper prefixes *)
  match k with
  | [] => []
  | x :: r => match r with
              | [] => []
              | _ => [x] :: map (cons x) (proper_prefixes r)
              end
  end.

Definition has_dir (s : fs) (q : rpath) : bool :=
  existsb (fun e => rpath_eqb (fst e) q && is_dir_node (snd e)) s.

Definition wf_b (s : fs) : bool :=
  nodup_b (map fst s) &&
  forallb (fun e => match fst e with [] => false | _ => forallb (has_dir s) (proper_prefixes (fst e)) end) s.

Lemma nodup_b_sound l : nodup_b l = true -> NoDup l.
Proof.
  induction l as [|x r IH]; simpl; intros H; [constructor|].
  apply andb_true_iff in H as [H1 H2]. constructor; [|apply IH; assumption].
  intros K. apply negb_true_iff in H1.
  assert (existsb (rpath_eqb x) r = true) by (apply existsb_exists; exists x; split; [assumption | apply rpath_eqb_refl]).
  congruence.
Qed.

Lemma proper_prefixes_cons2 x y r :
  proper_prefixes (x :: y :: r) = [x] :: map (cons x) (proper_prefixes (y :: r)).
Proof. reflexivity. Qed.

Lemma proper_prefixes_complete k q r :
  q <> [] -> r <> [] -> k = q ++ r -> In q (proper_prefixes k).
Proof.
  revert q r. induction k as [|x k IH]; intros q r Hq Hr E.
  - destruct q; [congruence | discriminate].
  - destruct q as [|y q]; [congruence|]. simpl in E. inversion E; subst. clear E.
    destruct q as [|z q].
    + destruct r as [|a r]; [congruence|]. simpl app. rewrite proper_prefixes_cons2. left. reflexivity.
    + assert (H : In (z :: q) (proper_prefixes ((z :: q) ++ r)))
        by (apply (IH (z :: q) r); [discriminate | assumption | reflexivity]).
      change ((z :: q) ++ r) with (z :: (q ++ r)) in *. rewrite proper_prefixes_cons2.
      right. apply in_map. exact H.
Qed.

Lemma has_dir_sound s q : has_dir s q = true -> In (q, NDir) s.
Proof.
  unfold has_dir. intros H. apply existsb_exists in H as [[k n] [Hin H]]. simpl in H.
  apply andb_true_iff in H as [H1 H2]. apply rpath_eqb_eq in H1. subst.
  destruct n; try discriminate. assumption.
Qed.

Theorem wf_b_sound s : wf_b s = true -> WF s.
Proof.
  unfold wf_b. intros H. apply andb_true_iff in H as [H1 H2]. split; [apply nodup_b_sound; assumption|].
  intros k n Hin. rewrite forallb_forall in H2. specialize (H2 _ Hin). simpl in H2.
  destruct k as [|x k]; [discriminate|]. split; [discriminate|].
  intros q Hq [r [Hr E]]. apply has_dir_sound.
  rewrite forallb_forall in H2. apply H2. apply (proper_prefixes_complete _ q r); assumption.
Qed.
