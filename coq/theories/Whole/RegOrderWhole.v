(* C12 for the program: the order in which the tag factories are registered is invisible.               *)
(* Two row lists that are permutations of one another and both register give registries that resolve     *)
(* every name alike (Tpl/RegistryProofs.v [order_independent_any]) and know every factory alike, so the   *)
(* compiler returns the SAME result on every template text and [tempren_main] the same run.               *)
(*   1. the binder depends on the registry only through [get], on the class tags only through the check  *)
(*      function and on the alias table only through [alias_find];                                        *)
(*   2. a registry value of the compiler is read only through [get], [kind_of] and its depth;             *)
(*   3. permuted rows: [get] by C12, [kind_of] because a factory id denotes one factory.                  *)
From Coq Require Import Permutation.
From Tempren Require Import Base.Str Py.PathLib Py.Repr.
From Tempren Require Import Tpl.Registry Tpl.RegistryProofs Tpl.Signature Tpl.Alias Tpl.AliasProofs.
From Tempren Require Import Tpl.Ast Tpl.Parser Tpl.Visitor.
From Tempren Require Import FS.Model Pipe.Pipeline Pipe.Front Pipe.FrontCompile.
From Tempren Require Import Whole.Library Whole.Render Whole.Gather Whole.Main.
Open Scope N_scope.

Lemma map_res_ext_F {A B} (f g : A -> exc + B) l :
  Forall (fun x => f x = g x) l -> map_res f l = map_res g l.
Proof.
  induction 1 as [|x l Hx Hl IH]; [reflexivity|]. simpl. rewrite Hx, IH. reflexivity.
Qed.

(* ---------- 1. the binder -------------------------------------------------------------------------- *)
Section BindExt.
  Variable state : Type.
  Variables reg1 reg2 : registry.
  Variables chk1 chk2 : fid -> targs -> bool -> outcome.
  Variable tag_init : fid -> targs -> state.
  Variables al1 al2 : atable.
  Hypothesis Hget : forall q, get reg1 q = get reg2 q.
  Hypothesis Hchk : forall f a hc, chk1 f a hc = chk2 f a hc.
  Hypothesis Hal : forall f, alias_find f al1 = alias_find f al2.

  Lemma bind_with_ext eb1 eb2 :
    (forall body, eb1 body = eb2 body) ->
    forall t, bind_with state reg1 chk1 tag_init al1 eb1 t = bind_with state reg2 chk2 tag_init al2 eb2 t.
  Proof.
    intros He. induction t as [s|q a hc ctx IH] using utree_ind'; [reflexivity|].
    pose proof (map_res_ext_F _ _ ctx IH) as HC.
    simpl. rewrite Hget. destruct (get reg2 q) as [f| | | |]; try reflexivity.
    rewrite Hal. destruct (alias_find f al2) as [body|].
    - rewrite He. reflexivity.
    - rewrite Hchk. destruct (chk2 f a hc); [|reflexivity]. destruct hc; [|reflexivity].
      change (Alias.bind_with state reg1 chk1 tag_init al1 eb1) with (bind_with state reg1 chk1 tag_init al1 eb1).
      rewrite HC. reflexivity.
  Qed.

  Lemma expander_ext : forall fuel body,
    expander state reg1 chk1 tag_init fuel al1 body = expander state reg2 chk2 tag_init fuel al2 body.
  Proof.
    induction fuel as [|n IH]; intros body; [reflexivity|].
    destruct body as [p|]; [|reflexivity]. simpl.
    apply map_res_ext_F. apply Forall_forall. intros t _. apply bind_with_ext. exact IH.
  Qed.

  Theorem bind_list_ext fuel p :
    bind_list state reg1 chk1 tag_init fuel al1 p = bind_list state reg2 chk2 tag_init fuel al2 p.
  Proof.
    unfold bind_list, bind_el. apply map_res_ext_F. apply Forall_forall. intros t _.
    apply bind_with_ext. apply expander_ext.
  Qed.
End BindExt.

(* ---------- 2. the compiler and the program read a registry value through get, kind_of, depth -------- *)

Definition same_registry (R1 R2 : tagreg) : Prop :=
  (forall q, get (tr_names R1) q = get (tr_names R2) q) /\
  (forall f, kind_of R1 f = kind_of R2 f) /\
  tr_depth R1 = tr_depth R2.

Theorem compile_ext R1 R2 : same_registry R1 R2 -> forall text, compile R1 text = compile R2 text.
Proof.
  intros (G & K & D) text. unfold compile. destruct (parse text) as [p|e]; [|reflexivity].
  unfold bind_pat. rewrite D.
  rewrite (bind_list_ext unit (tr_names R1) (tr_names R2) (class_check R1) (class_check R2) (fun _ _ => tt)
             (aliases_of R1) (aliases_of R2) G).
  - reflexivity.
  - intros f a hc. unfold class_check. rewrite K. reflexivity.
  - intros f. rewrite !alias_find_kind, K. reflexivity.
Qed.

Section WholeExt.
  Variables upper lower : str -> str.

  Theorem tempren_main_ext R1 R2 : same_registry R1 R2 ->
    forall o text dirs s, tempren_main upper lower R1 o text dirs s = tempren_main upper lower R2 o text dirs s.
  Proof.
    intros S o text dirs s. unfold tempren_main, compiles.
    rewrite (compile_ext R1 R2 S text), (compile_ext R1 R2 S t_sort_name). reflexivity.
  Qed.

  Theorem reads_registry_through_get R1 R2 : same_registry R1 R2 ->
    (forall text, compile R1 text = compile R2 text) /\
    forall o text dirs s, tempren_main upper lower R1 o text dirs s = tempren_main upper lower R2 o text dirs s.
  Proof. intros S. split; [exact (compile_ext R1 R2 S)|exact (tempren_main_ext R1 R2 S)]. Qed.
End WholeExt.

(* ---------- 3. permuted rows ---------------------------------------------------------------------------- *)

Definition row_fid (x : row) : fid := e_fid (fst x).

(* a factory id denotes ONE factory (ids are the identities of the TagFactory objects) *)
Definition fid_functional (rows : list row) : Prop :=
  forall x y, In x rows -> In y rows -> row_fid x = row_fid y -> snd x = snd y.

Lemma NoDup_fid_functional rows : NoDup (map row_fid rows) -> fid_functional rows.
Proof.
  intros ND x y Ix Iy E. f_equal. exact (NoDup_map_inj row_fid rows x y ND Ix Iy E).
Qed.

Lemma kind_in_In f l k : kind_in f l = Some k -> In (f, k) l.
Proof.
  induction l as [|[g k'] l IH]; simpl; [discriminate|].
  destruct (g =? f) eqn:E; [|auto]. apply N.eqb_eq in E. subst g. intros H. inversion H; subst. left. reflexivity.
Qed.

Lemma kind_in_None f l : kind_in f l = None -> ~ In f (map fst l).
Proof.
  induction l as [|[g k'] l IH]; simpl; [intros _ []|].
  destruct (g =? f) eqn:E; [discriminate|]. intros H [<-|I]; [rewrite N.eqb_refl in E; discriminate|exact (IH H I)].
Qed.

Lemma kind_in_perm f l1 l2 :
  Permutation l1 l2 ->
  (forall k k', In (f, k) l1 -> In (f, k') l1 -> k = k') ->
  kind_in f l1 = kind_in f l2.
Proof.
  intros P Fn. destruct (kind_in f l1) as [k|] eqn:K1; destruct (kind_in f l2) as [k'|] eqn:K2; try reflexivity.
  - f_equal. apply Fn; [exact (kind_in_In _ _ _ K1)|].
    eapply Permutation_in; [symmetry; exact P|exact (kind_in_In _ _ _ K2)].
  - exfalso. apply (kind_in_None _ _ K2). apply kind_in_In in K1.
    apply (in_map fst) in K1. eapply Permutation_in; [apply Permutation_map; exact P|exact K1].
  - exfalso. apply (kind_in_None _ _ K1). apply kind_in_In in K2.
    apply (in_map fst) in K2. eapply Permutation_in; [apply Permutation_map; symmetry; exact P|exact K2].
Qed.

Theorem rows_perm_same_registry d rows1 rows2 R1 R2 :
  Permutation rows1 rows2 -> fid_functional rows1 ->
  tagreg_of_rows d rows1 = Some R1 -> tagreg_of_rows d rows2 = Some R2 ->
  same_registry R1 R2.
Proof.
  intros P Fn T1 T2. unfold tagreg_of_rows in T1, T2.
  destruct (build (map fst rows1)) as [r1|] eqn:B1; [|discriminate].
  destruct (build (map fst rows2)) as [r2|] eqn:B2; [|discriminate].
  inversion T1; subst R1. inversion T2; subst R2. split; [|split; [|reflexivity]].
  - intros q. cbn [tr_names].
    pose proof (order_independent_any (map fst rows1) (map fst rows2) (Permutation_map fst P) q) as O.
    unfold get_in in O. rewrite B1, B2 in O. exact O.
  - intros f. unfold kind_of. cbn [tr_kinds]. apply kind_in_perm.
    + apply Permutation_map. exact P.
    + intros k k' I1 I2. apply in_map_iff in I1 as (x & Ex & Ix). apply in_map_iff in I2 as (y & Ey & Iy).
      inversion Ex; subst. inversion Ey as [[Ef Ek]]. subst k'. apply (Fn x y Ix Iy). symmetry. exact Ef.
Qed.

(* registration succeeds in every order or in none (C12: validity is a property of the set of rows) *)
Lemma rows_perm_register d rows1 rows2 R1 :
  Permutation rows1 rows2 -> tagreg_of_rows d rows1 = Some R1 -> exists R2, tagreg_of_rows d rows2 = Some R2.
Proof.
  intros P T1. unfold tagreg_of_rows in *.
  destruct (build (map fst rows1)) as [r1|] eqn:B1; [|discriminate].
  assert (V : valid (map fst rows2)).
  { eapply valid_perm; [apply Permutation_map; exact P|]. eapply build_Some_valid. exact B1. }
  apply build_iff_valid in V. destruct (build (map fst rows2)) as [r2|]; [eauto|congruence].
Qed.

Section WholeOrder.
  Variables upper lower : str -> str.

  (* C12 for the program *)
  Theorem whole_registration_order d rows1 rows2 R1 R2 :
    Permutation rows1 rows2 -> fid_functional rows1 ->
    tagreg_of_rows d rows1 = Some R1 -> tagreg_of_rows d rows2 = Some R2 ->
    (forall text, compile R1 text = compile R2 text) /\
    (forall text, compiles R1 text = compiles R2 text) /\
    (forall o text dirs s,
       tempren_main upper lower R1 o text dirs s = tempren_main upper lower R2 o text dirs s).
  Proof.
    intros P Fn T1 T2. pose proof (rows_perm_same_registry d rows1 rows2 R1 R2 P Fn T1 T2) as S.
    split; [exact (compile_ext R1 R2 S)|]. split.
    - intros text. unfold compiles. rewrite (compile_ext R1 R2 S text). reflexivity.
    - exact (tempren_main_ext upper lower R1 R2 S).
  Qed.

  (* the core library in any order *)
  Lemma core_rows_register : tagreg_of_rows core_depth core_rows = Some core_reg.
  Proof. vm_compute. reflexivity. Qed.

  Lemma core_rows_fids : NoDup (map row_fid core_rows).
  Proof.
    vm_compute. repeat (constructor; [cbn; intuition discriminate|]). constructor.
  Qed.

  Theorem whole_core_any_order rows :
    Permutation core_rows rows ->
    exists R, tagreg_of_rows core_depth rows = Some R /\
      (forall text, compile R text = compile core_reg text) /\
      (forall o text dirs s,
         tempren_main upper lower R o text dirs s = tempren_main upper lower core_reg o text dirs s).
  Proof.
    intros P. destruct (rows_perm_register core_depth core_rows rows core_reg P core_rows_register) as [R T].
    exists R. split; [exact T|].
    destruct (whole_registration_order core_depth core_rows rows core_reg R P
                (NoDup_fid_functional _ core_rows_fids) core_rows_register T) as (C & _ & M).
    split; [intros text; symmetry; apply C|intros o text dirs s; symmetry; apply M].
  Qed.
End WholeOrder.
