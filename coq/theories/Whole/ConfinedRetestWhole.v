(* C06 on the whole-program model, after the repair of F38: the whole-program confinement theorem     *)
(* without any hypothesis on symbolic links (neither [no_links_below] on the tree nor [same_links] on *)
(* the run): Pipe/ConfinedRetestOverride.v read on the program's own plan.                            *)
From Coq Require Import Permutation.
From Tempren Require Import Base.Str Py.PathLib Py.PathLibProofs.
From Tempren Require Import FS.Model FS.Lemmas FS.PlainPaths FS.WfCheck.
From Tempren Require Import Pipe.Pipeline Pipe.Front Pipe.FrontCompile Pipe.Safety.
From Tempren Require Pipe.ConfinedRun Pipe.ConfinedOverride Pipe.ConfinedRetest Pipe.ConfinedRetestOverride.
From Tempren Require Import Whole.Library Whole.Render Whole.Gather Whole.Main Whole.Facts Whole.Theorems Whole.PipelineProps.
Open Scope N_scope.

Section Retest.
  Variables upper lower : str -> str.

  Theorem whole_confined_retest R o text dirs s :
    tree_ok s -> permutes (o_listing o) ->
    roots_not_nested (input_roots o s dirs) ->
    no_custom_in_path_mode o ->
    let r := tempren_main upper lower R o text dirs s in
    forall h, In h (r_final r :: r_states r) -> forall k n,
      (In (k, n) h /\ ~ In (k, n) s) \/ (In (k, n) s /\ ~ In (k, n) h) ->
      exists p, In p (input_roots o s dirs) /\ is_prefix_path p k = true.
  Proof.
    intros T P NN NC. cbv zeta.
    destruct (tempren_main_cases upper lower R o text dirs s) as [(e & _ & ->)|(b & _ & ->)].
    - intros h Ih k n D. exfalso. exact (failed_no_difference e s h k n Ih D).
    - intros h Ih k n D.
      assert (H1 : forall f r, In (f, r) (whole_plan upper lower b o dirs s) -> chdir s (pf_dir f) = Some (pf_dir f))
        by (intros f r I; exact (proj2 (whole_plan_root upper lower b o dirs s f r P I) T)).
      assert (H2 : forall f r f' r', In (f, r) (whole_plan upper lower b o dirs s) ->
                     In (f', r') (whole_plan upper lower b o dirs s) ->
                     is_prefix_path (pf_dir f) (pf_dir f') = true -> pf_dir f = pf_dir f').
      { intros f r f' r' I I' Pf. apply NN; [exact (proj1 (whole_plan_root upper lower b o dirs s f r P I))
                                             |exact (proj1 (whole_plan_root upper lower b o dirs s f' r' P I'))|exact Pf]. }
      assert (X : exists f r, In (f, r) (whole_plan upper lower b o dirs s) /\ is_prefix_path (pf_dir f) k = true).
      { destruct Ih as [<-|Ih].
        - exact (ConfinedRetestOverride.run_confined_any_strategy_retest (cfg_of_options o) _ (o_cwd o) s eq_refl
                   (tree_ok_WF _ T) NC H1 H2 k n D).
        - exact (ConfinedRetestOverride.every_state_confined_any_strategy_retest (cfg_of_options o) _ (o_cwd o) s eq_refl
                   (tree_ok_WF _ T) NC H1 H2 h Ih k n D). }
      destruct X as (f & r & I & Pf).
      exists (pf_dir f). split; [exact (proj1 (whole_plan_root upper lower b o dirs s f r P I))|exact Pf].
  Qed.
End Retest.
