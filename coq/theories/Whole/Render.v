(* The name/path template of a run, rendered for the files IN PROCESSING ORDER: one bound tree  *)
(* whose tag instances keep their state from file to file (a Count instance remembers its        *)
(* counters), exactly as Pipeline.execute calls path_generator.generate(file) in the loop.       *)
(* The rendering itself is Tpl/Alias.v's [render_list] (PatternElementSequence.process) over the *)
(* core semantics of Whole/Library.v; this file only supplies                                    *)
(*   - [instantiate]: the compiler's output (instances without state, FrontCompile.compiled) with *)
(*     every instance given its initial state (what the factory call + configure produce);        *)
(*   - [to_rendered]: the text as the pipeline model sees it (RText / RAbs for a leading '/',     *)
(*     RRaise for an exception escaping process());                                              *)
(*   - [render_all].                                                                              *)
(* The core tags do not read the filesystem, so rendering all files first and renaming afterwards *)
(* (the plan of Pipe/Pipeline.v) is the same as the interleaved loop of the code.                 *)
(* Model only - no proofs in this file.                                                           *)
From Tempren Require Import Base.Str Py.PathLib Py.Repr Tags.Count.
From Tempren Require Import Tpl.Registry Tpl.Signature Tpl.Alias.
From Tempren Require Import FS.Model Pipe.Pipeline Pipe.FrontCompile Whole.Library.
Open Scope N_scope.

Fixpoint inst_el (b : btree unit) : btree tstate :=
  match b with
  | BRaw s => BRaw s
  | BTag f a _ hc ctx => BTag f a (core_init f a) hc (map inst_el ctx)
  | BAlias body => BAlias (map inst_el body)
  end.

Definition instantiate (b : compiled) : bpat tstate := map inst_el b.

(* an exception raised by a tag's process() is not caught by Pipeline.execute (it logs and re-raises);
   cli.main maps the pipeline's own exception classes and sends everything else to UNKNOWN_ERROR *)
Definition exn_of_exc (e : Signature.exc) : exn :=
  match e with
  | Signature.ExTemplateEvaluation => ExTemplateEval
  | Signature.ExDestinationExists => ExDestExists
  | Signature.ExInvalidDestination => ExInvalidDest
  | Signature.ExFileNotSupported => ExFileNotSupported
  | Signature.ExPipelineConfiguration => ExConfiguration
  | Signature.ExOther => ExOther
  | Signature.ExSystemExit _ => ExOther
  | _ => ExTemplate
  end.

Definition to_rendered (r : Signature.exc + str) : rendered :=
  match r with
  | inl e => RRaise (exn_of_exc e)
  | inr (47 :: t) => RAbs t
  | inr t => RText t
  end.

Section Render.
  Variables upper lower : str -> str.

  Definition render_one (fl : pfile) (b : bpat tstate) : (Signature.exc + str) * bpat tstate :=
    render_list tstate pfile (core_sem upper lower) fl b.

  Fixpoint render_all (b : bpat tstate) (files : list pfile) : list (pfile * rendered) :=
    match files with
    | [] => []
    | fl :: rest => let '(r, b') := render_one fl b in (fl, to_rendered r) :: render_all b' rest
    end.
End Render.
