(* C08 for the program: the processing order of [tempren_main].                                        *)
(*   name / path mode with --sort '%Name()': [processing_order] is the stable sort by file NAME        *)
(*   (Python's str order: code points, lexicographic) of the listed files; the template %Count()       *)
(*   numbers the files along that order;                                                               *)
(*   directory mode: a directory is never listed before a directory below it that the same gatherer    *)
(*   produced (more generally: whose input directory is not longer).                                   *)
(* Reuses Py/SortProofs.v, Py/SortPyProofs.v (C08) and Whole/CountWhole.v (C16).                        *)
From Coq Require Import Permutation Sorted.
From Tempren Require Import Base.Str Py.PathLib Py.Repr Py.Sort Py.SortProofs Py.SortPyProofs Tags.Count Tags.CountProofs.
From Tempren Require Py.Order Py.OrderProofs.
From Tempren Require Import Tpl.Alias.
From Tempren Require Import FS.Model FS.Lemmas Pipe.Pipeline Pipe.Front Pipe.FrontCompile Pipe.PlanExact Pipe.DryEqualsRealDir.
From Tempren Require Import Whole.Library Whole.Render Whole.Gather Whole.Main Whole.Facts Whole.CountWhole.
From Tempren Require Whole.Theorems.
Open Scope N_scope.

(* file.relative_path.name: what %Name() yields for the file *)
Definition file_name (f : pfile) : str := pp_name (pf_rel f).

Lemma name_key_spec f : name_key f = Order.VTuple [Order.VStr (file_name f)].
Proof. reflexivity. Qed.

(* ---------- the str order -------------------------------------------------------------------------- *)

Lemma str_lt_eq a b : str_eqb a b = true -> Order.str_ltb a b = false.
Proof. intros E. destruct (OrderProofs.str_bundle a b a) as (_ & _ & _ & _ & H & _). exact (H E). Qed.

Lemma str_lt_tot a b : str_eqb a b = false -> Order.str_ltb a b = negb (Order.str_ltb b a).
Proof. intros E. destruct (OrderProofs.str_bundle a b a) as (_ & _ & _ & _ & _ & H & _). exact (H E). Qed.

Lemma str_le_nlt a b : Order.str_leb a b = negb (Order.str_ltb b a).
Proof. destruct (OrderProofs.str_bundle a b a) as (_ & _ & _ & _ & _ & _ & _ & _ & H). exact H. Qed.

Lemma str_lt_irrefl a : Order.str_ltb a a = false.
Proof. apply str_lt_eq. apply str_eqb_refl. Qed.

Lemma str_lt_asym a b : Order.str_ltb a b = true -> Order.str_ltb b a = false.
Proof.
  intros L. destruct (str_eqb a b) eqn:E.
  - rewrite (str_lt_eq a b E) in L. discriminate.
  - rewrite (str_lt_tot a b E) in L. destruct (Order.str_ltb b a); [discriminate|reflexivity].
Qed.

Lemma str_lt_trans a b c : Order.str_ltb a b = true -> Order.str_ltb b c = true -> Order.str_ltb a c = true.
Proof. destruct (OrderProofs.str_bundle a b c) as (_ & _ & _ & _ & _ & _ & H & _). exact H. Qed.

Lemma str_nlt_trans a b c :
  Order.str_ltb b a = false -> Order.str_ltb c b = false -> Order.str_ltb c a = false.
Proof.
  intros N1 N2. destruct (Order.str_ltb c a) eqn:L; [exfalso|reflexivity].
  destruct (str_eqb a b) eqn:E.
  - apply str_eqb_spec in E. subst b. congruence.
  - assert (Eba : str_eqb b a = false).
    { apply str_eqb_neq. intros ->. rewrite str_eqb_refl in E. discriminate. }
    pose proof (str_lt_tot b a Eba) as T. rewrite N1 in T.
    assert (Lab : Order.str_ltb a b = true) by (destruct (Order.str_ltb a b); [reflexivity|discriminate]).
    rewrite (str_lt_trans c a b L Lab) in N2. discriminate.
Qed.

(* neither name is smaller: the names are equal *)
Lemma str_key_equiv a b : key_equiv Order.str_ltb a b = str_eqb a b.
Proof.
  unfold key_equiv. destruct (str_eqb a b) eqn:E.
  - rewrite (str_lt_eq a b E). apply str_eqb_spec in E. subst b. rewrite str_lt_irrefl. reflexivity.
  - rewrite (str_lt_tot a b E). destruct (Order.str_ltb b a); reflexivity.
Qed.

(* the key of the code - the 1-tuple (name,) under Python's value order - compares as the names do *)
Lemma name_key_lt a b :
  Order.py_ltb (name_key a) (name_key b) = Order.str_ltb (file_name a) (file_name b).
Proof.
  rewrite !name_key_spec. cbn [Order.py_ltb Order.lex_ltb Order.py_eqb].
  destruct (str_eqb (file_name a) (file_name b)) eqn:E; [|reflexivity].
  symmetry. apply str_lt_eq. exact E.
Qed.

Lemma name_sort_as_str l :
  sort_by name_key Order.py_ltb false l = sort_by file_name Order.str_ltb false l.
Proof. apply sort_by_ext. exact name_key_lt. Qed.

Lemma name_key_shaped l : keys_shaped pfile name_key (Order.STuple [Order.SStr]) l.
Proof. apply Forall_forall. intros f _. reflexivity. Qed.

(* ---------- 1. name / path mode with --sort '%Name()' ------------------------------------------------- *)

Lemma order_files_sorted o l :
  o_mode o <> MDirectory -> o_sort_name o = true ->
  order_files o l = sort_by name_key Order.py_ltb false l.
Proof. intros M S. unfold order_files. rewrite S. destruct (o_mode o); [reflexivity|reflexivity|congruence]. Qed.

Lemma StronglySorted_weaken {A} (R R' : A -> A -> Prop) l :
  (forall a b, R a b -> R' a b) -> StronglySorted R l -> StronglySorted R' l.
Proof.
  intros H. induction 1 as [|x l Hs IH Hx]; constructor; [exact IH|].
  rewrite Forall_forall in *. intros b Hb. apply H. exact (Hx b Hb).
Qed.

Theorem processing_order_sorted_by_name o s dirs :
  o_mode o <> MDirectory -> o_sort_name o = true ->
  let listed := o_listing o (gather_all o s dirs) in
  let r := processing_order o s dirs in
  (* it is the sorter's result on the 1-tuples (name,) of C08_processing_order: no TypeError *)
  template_sort name_key false listed = Some r /\
  (* a rearrangement of the listed files - of the gathered ones when the listing permutes *)
  Permutation r listed /\
  (permutes (o_listing o) -> Permutation r (gather_all o s dirs)) /\
  (* sorted by name: Python's <= on str *)
  StronglySorted (fun a b => Order.str_leb (file_name a) (file_name b) = true) r /\
  StronglySorted (fun a b => Order.py_le (name_key a) (name_key b) = Some true) r /\
  (* stable: the files of one name stand in the order in which they were listed *)
  (forall n, filter (fun f => str_eqb n (file_name f)) r = filter (fun f => str_eqb n (file_name f)) listed).
Proof.
  intros M S listed r.
  assert (Er : r = sort_by name_key Order.py_ltb false listed).
  { unfold r, processing_order. apply order_files_sorted; assumption. }
  destruct (template_sort_spec pfile name_key (Order.STuple [Order.SStr]) false listed (name_key_shaped listed))
    as (r' & E & P & Spy & _).
  assert (Er' : r' = r).
  { unfold template_sort in E. destruct (all_comparable (map name_key listed)); [|discriminate].
    inversion E. symmetry. exact Er. }
  subst r'.
  assert (K : keys_in pfile str file_name (fun _ => True) listed) by (apply Forall_forall; intros; exact I).
  destruct (sort_by_spec pfile str file_name Order.str_ltb (fun _ => True)
              (fun a b _ _ => str_lt_asym a b) (fun a b c _ _ _ => str_nlt_trans a b c) false listed K)
    as (_ & Sstr & T).
  rewrite <- name_sort_as_str, <- Er in Sstr, T.
  split; [exact E|]. split; [exact P|]. split.
  { intros Pl. etransitivity; [exact P|]. symmetry. apply Pl. }
  split.
  { eapply StronglySorted_weaken; [|exact Sstr]. intros a b H. unfold le_dir in H.
    rewrite str_le_nlt, H. reflexivity. }
  split; [exact Spy|].
  intros n. specialize (T n I).
  rewrite (filter_ext _ (fun f => key_equiv Order.str_ltb n (file_name f))) by (intros f; symmetry; apply str_key_equiv).
  rewrite (filter_ext (fun f => str_eqb n (file_name f)) (fun f => key_equiv Order.str_ltb n (file_name f)))
    by (intros f; symmetry; apply str_key_equiv).
  exact T.
Qed.

(* the positional form: an earlier file has the smaller-or-equal name; of two files with the same name the one
   listed first comes first *)
Corollary processing_order_names_nth o s dirs i j a b :
  o_mode o <> MDirectory -> o_sort_name o = true ->
  nth_error (processing_order o s dirs) i = Some a ->
  nth_error (processing_order o s dirs) j = Some b ->
  (i < j)%nat -> Order.str_leb (file_name a) (file_name b) = true.
Proof.
  intros M S Hi Hj L.
  destruct (processing_order_sorted_by_name o s dirs M S) as (_ & _ & _ & Sd & _).
  exact (StronglySorted_nth _ _ Sd i j a b L Hi Hj).
Qed.

Lemma map_fst_combine {A B} (l : list A) (l' : list B) : length l' = length l -> map fst (combine l l') = l.
Proof.
  revert l'. induction l as [|x l IH]; intros [|y l'] H; cbn in *; try reflexivity; try discriminate.
  inversion H as [H']. rewrite (IH l' H'). reflexivity.
Qed.

Section SortCount.
  Variables upper lower : str -> str.

  (* `tempren -n --sort '%Name()' '%Count()' dirs`: the program is the pipeline run on a plan that lists the
     files in name order and gives the i-th of them the number C16_whole_count_numbers describes: the count of
     files of the same directory that stand before it in THAT order *)
  Theorem sorted_count_numbers o dirs s :
    o_mode o <> MDirectory -> o_sort_name o = true ->
    args_ok s t_count_plain dirs = true -> no_gatherers o s dirs = false ->
    let files := processing_order o s dirs in
    let plan := whole_plan upper lower [BTag fid_Count CountWhole.no_targs tt false []] o dirs s in
    tempren_main upper lower core_reg o t_count_plain dirs s = run (cfg_of_options o) plan (o_cwd o) s /\
    map fst plan = files /\
    StronglySorted (fun a b => Order.str_leb (file_name a) (file_name b) = true) files /\
    (forall n, filter (fun f => str_eqb n (file_name f)) files =
               filter (fun f => str_eqb n (file_name f)) (o_listing o (gather_all o s dirs))) /\
    forall i f, nth_error files i = Some f ->
      nth_error plan i =
      Some (f, RText (decimal_Z (Z.of_nat (occ (file_dirkey f) (firstn i (map file_dirkey files)))))).
  Proof.
    intros M S A G files plan.
    destruct (processing_order_sorted_by_name o s dirs M S) as (_ & _ & _ & Sd & _ & St).
    split.
    { apply tempren_main_is_run; try assumption.
      - exact compile_count_plain.
      - destruct (o_mode o); try reflexivity. congruence.
      - intros _. exact Theorems.compiles_sort_name. }
    assert (Fst : map fst plan = files).
    { unfold plan, whole_plan. rewrite (instantiate_count CountWhole.no_targs plain_count_cfg count_cfg_plain).
      rewrite render_all_count. fold files.
      apply map_fst_combine. rewrite map_length, count_values_length, map_length. reflexivity. }
    split; [exact Fst|]. split; [exact Sd|]. split; [exact St|].
    intros i f Hf.
    assert (Hp : exists e, nth_error plan i = Some e).
    { destruct (nth_error plan i) as [e|] eqn:E; [eauto|].
      apply nth_error_None in E. rewrite <- (map_length fst), Fst in E.
      apply nth_error_None in E. congruence. }
    destruct Hp as [[f' r] Hp].
    destruct (count_plain_numbers upper lower o dirs s i f' r Hp) as [Hf' ->].
    fold files in Hf'. rewrite Hf in Hf'. inversion Hf'; subst f'. exact Hp.
  Qed.
End SortCount.

(* ---------- 2. directory mode ----------------------------------------------------------------------- *)

Lemma order_files_depth o l :
  o_mode o = MDirectory -> order_files o l = sort_by Main.depth_key Nat.ltb true l.
Proof. intros M. unfold order_files. rewrite M. reflexivity. Qed.

Theorem processing_order_depth o s dirs :
  o_mode o = MDirectory ->
  let listed := o_listing o (gather_all o s dirs) in
  let r := processing_order o s dirs in
  Permutation r listed /\
  StronglySorted (fun a b => (Main.depth_key b <= Main.depth_key a)%nat) r /\
  (forall n, filter (fun f => Nat.eqb n (Main.depth_key f)) r = filter (fun f => Nat.eqb n (Main.depth_key f)) listed).
Proof.
  intros M listed r.
  assert (Er : r = sort_by Main.depth_key Nat.ltb true listed).
  { unfold r, processing_order. apply order_files_depth. exact M. }
  assert (H2 : forall a b : nat, True -> True -> Nat.ltb a b = true -> Nat.ltb b a = false).
  { intros a b _ _ H. apply Nat.ltb_lt in H. apply Nat.ltb_ge. lia. }
  assert (H3 : forall a b c : nat, True -> True -> True ->
               Nat.ltb b a = false -> Nat.ltb c b = false -> Nat.ltb c a = false).
  { intros a b c _ _ _ Ha Hb. apply Nat.ltb_ge in Ha, Hb. apply Nat.ltb_ge. lia. }
  assert (K : keys_in pfile nat Main.depth_key (fun _ => True) listed) by (apply Forall_forall; intros; exact I).
  destruct (sort_by_spec pfile nat Main.depth_key Nat.ltb (fun _ => True) H2 H3 true listed K) as (P & Sd & T).
  rewrite <- Er in P, Sd, T.
  split; [exact P|]. split.
  { eapply StronglySorted_weaken; [|exact Sd]. intros a b H. unfold le_dir in H. apply Nat.ltb_ge in H. exact H. }
  intros n. specialize (T n I).
  assert (Q : forall f, Nat.eqb n (Main.depth_key f) = key_equiv Nat.ltb n (Main.depth_key f)).
  { intros f. unfold key_equiv. destruct (Nat.eqb_spec n (Main.depth_key f)) as [<-|Hn].
    - rewrite Nat.ltb_irrefl. reflexivity.
    - destruct (Nat.ltb_spec n (Main.depth_key f)); destruct (Nat.ltb_spec (Main.depth_key f) n); try reflexivity; lia. }
  rewrite !(filter_ext _ _ Q). exact T.
Qed.

(* the key of the directory a gathered entry stands for *)
Lemma dir_key_src_key f : dir_key f = src_key f.
Proof. reflexivity. Qed.

Lemma dir_key_length f : length (dir_key f) = (length (pf_dir f) + Main.depth_key f)%nat.
Proof. unfold dir_key, Main.depth_key. apply app_length. Qed.

(* a deeper relative path is processed first *)
Theorem deeper_first o s dirs i j a b :
  o_mode o = MDirectory ->
  nth_error (processing_order o s dirs) i = Some a ->
  nth_error (processing_order o s dirs) j = Some b ->
  (Main.depth_key a < Main.depth_key b)%nat ->
  (j < i)%nat.
Proof.
  intros M Hi Hj L.
  destruct (processing_order_depth o s dirs M) as (_ & Sd & _).
  destruct (Nat.lt_trichotomy i j) as [H|[H|H]]; [| |exact H].
  - pose proof (StronglySorted_nth _ _ Sd i j a b H Hi Hj) as Hd. cbn in Hd. lia.
  - subst j. rewrite Hi in Hj. inversion Hj; subst. lia.
Qed.

(* a directory never comes before one of its descendants: for two entries of the processing order whose keys
   are nested, the descendant b stands before the ancestor a - when b's input directory is not longer than
   a's (in particular when one gatherer produced both) *)
Theorem descendants_first o s dirs i j a b :
  o_mode o = MDirectory ->
  nth_error (processing_order o s dirs) i = Some a ->
  nth_error (processing_order o s dirs) j = Some b ->
  proper_prefix (dir_key a) (dir_key b) ->
  (length (pf_dir b) <= length (pf_dir a))%nat ->
  (j < i)%nat.
Proof.
  intros M Hi Hj (r & Hr & E) L.
  apply (deeper_first o s dirs i j a b M Hi Hj).
  pose proof (dir_key_length a) as La. pose proof (dir_key_length b) as Lb.
  rewrite E, app_length in Lb. destruct r as [|x r]; [congruence|]. cbn [length] in Lb. lia.
Qed.

Corollary descendants_first_same_input o s dirs i j a b :
  o_mode o = MDirectory ->
  nth_error (processing_order o s dirs) i = Some a ->
  nth_error (processing_order o s dirs) j = Some b ->
  pf_dir a = pf_dir b ->
  proper_prefix (src_key a) (src_key b) ->
  (j < i)%nat.
Proof.
  intros M Hi Hj D P. apply (descendants_first o s dirs i j a b M Hi Hj P). rewrite D. apply le_n.
Qed.

(* with ONE input directory every pair qualifies *)
(* kept generic in the input list: with a concrete list the kernel would evaluate the path walk at Qed *)
Lemma gather_all_in o s dirs f :
  In f (gather_all o s dirs) -> exists d, In d dirs /\ In f (gather_input o s d).
Proof. intros I. unfold gather_all in I. apply in_flat_map in I. exact I. Qed.

Lemma gather_all_one_dir o s d p f :
  explicit_mode o = false -> chdir s d = Some p -> In f (gather_all o s [d]) -> pf_dir f = p.
Proof.
  intros X C I. apply gather_all_in in I. destruct I as (d' & Id & I). destruct Id as [E|[]]. subst d'.
  rewrite (gather_input_some o s d p C), X in I.
  destruct (gather_fs_in _ _ _ _ _ _ I) as (rel & n & _ & _ & -> & _). reflexivity.
Qed.

Lemma gather_all_no_dir o s d f : chdir s d = None -> ~ In f (gather_all o s [d]).
Proof.
  intros C I. apply gather_all_in in I. destruct I as (d' & Id & I). destruct Id as [E|[]]. subst d'.
  rewrite (gather_input_none o s d C) in I. destruct I.
Qed.

Theorem descendants_first_one_input o s d i j a b :
  o_mode o = MDirectory -> o_recursive o = true -> permutes (o_listing o) ->
  nth_error (processing_order o s [d]) i = Some a ->
  nth_error (processing_order o s [d]) j = Some b ->
  proper_prefix (dir_key a) (dir_key b) ->
  (j < i)%nat.
Proof.
  intros M R P Hi Hj Pp.
  assert (X : explicit_mode o = false) by (unfold explicit_mode; rewrite R; apply andb_false_r).
  assert (In_ : forall k f, nth_error (processing_order o s [d]) k = Some f -> In f (gather_all o s [d])).
  { intros k f H. apply nth_error_In in H. eapply Permutation_in; [symmetry; apply processing_order_perm; exact P|exact H]. }
  destruct (chdir s d) as [p|] eqn:C.
  - apply (descendants_first_same_input o s [d] i j a b M Hi Hj); [|exact Pp].
    rewrite (gather_all_one_dir o s d p a X C (In_ _ _ Hi)), (gather_all_one_dir o s d p b X C (In_ _ _ Hj)).
    reflexivity.
  - exfalso. exact (gather_all_no_dir o s d a C (In_ _ _ Hi)).
Qed.
