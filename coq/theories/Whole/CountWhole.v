(* C16 for the program: with a name template that is one Count tag, the k-th file OF ITS DIRECTORY in    *)
(* processing order is numbered start + k*step (padded to the width), for every tree, every input       *)
(* directory list and every listing order; with common=True the i-th processed file gets start + i*step. *)
(* Reuses the closed forms of Tags/CountProofs.v.                                                        *)
From Tempren Require Import Base.Str Py.PathLib Py.Repr Tags.Count Tags.CountProofs.
From Tempren Require Import Tpl.Alias.
From Tempren Require Import FS.Model Pipe.Pipeline Pipe.Front Pipe.FrontCompile.
From Tempren Require Import Whole.Library Whole.Render Whole.Gather Whole.Main Whole.Facts.
Open Scope N_scope.

(* what the pipeline receives for a counter outcome: the decimal / padded text, or the ValueError *)
Definition rendered_of_count (o : count_out) : rendered :=
  match count_text o with
  | Some t => RText t
  | None => RRaise ExOther
  end.

Lemma rendered_of_count_spec o :
  rendered_of_count o = match o with CInt v => RText (decimal_Z v) | CStr t => RText t | CRaise => RRaise ExOther end.
Proof. destruct o; reflexivity. Qed.

Lemma digit_not_slash c : is_digit c = true -> c <> 47.
Proof. intros H E. subst c. discriminate. Qed.

Lemma decimal_nonneg_head v : (0 <= v)%Z -> forall r, decimal_Z v <> 47 :: r.
Proof.
  intros Hv r E. destruct v as [|p|p]; [discriminate| |lia].
  unfold decimal_Z in E. apply (digit_not_slash 47); [|reflexivity].
  exact (decimal_N_head_digit _ _ _ E).
Qed.

Lemma count_text_head w v t : count_text (render_count w v) = Some t -> forall r, t <> 47 :: r.
Proof.
  unfold render_count. destruct (v <? 0)%Z eqn:Hv; [discriminate|]. apply Z.ltb_ge in Hv.
  destruct (w =? 0)%Z.
  - cbn. intros E. inversion E; subst. apply decimal_nonneg_head. exact Hv.
  - cbn. intros E. inversion E; subst. unfold zfill.
    destruct (Z.to_nat w - length (decimal_Z v))%nat as [|k]; cbn [repeat_n app].
    + apply decimal_nonneg_head. exact Hv.
    + intros r E2. discriminate.
Qed.

Lemma to_rendered_count w v :
  to_rendered (match count_value (render_count w v) with
               | OVal x => inr (py_str x ++ [])
               | OMissing => inr ([] ++ [])
               | ORaise e => inl e
               end) = rendered_of_count (render_count w v).
Proof.
  unfold rendered_of_count. pose proof (count_text_head w v) as H.
  destruct (render_count w v) as [z|t|]; cbn [count_value count_text py_str] in *.
  - rewrite app_nil_r. apply to_rendered_text. apply H. reflexivity.
  - rewrite app_nil_r. apply to_rendered_text. apply H. reflexivity.
  - reflexivity.
Qed.

Section CountWhole.
  Variables upper lower : str -> str.

  Definition count_pat (a : targs) (c : count_cfg) (st : count_state) : bpat tstate :=
    [BTag fid_Count a (SCount c st) false []].

  Lemma render_one_count a c st f :
    render_one upper lower f (count_pat a c st) =
    (match count_value (render_count (cc_width c) (fst (count_next c st (file_dirkey f)))) with
     | OVal x => inr (py_str x ++ [])
     | OMissing => inr ([] ++ [])
     | ORaise e => inl e
     end,
     count_pat a c (snd (count_next c st (file_dirkey f)))).
  Proof.
    unfold render_one, render_list, count_pat, fold_pieces. cbn [render_el].
    change (core_sem upper lower fid_Count a (SCount c st) f None) with
      (let '(o, cs') := count_process c st (file_dirkey f) in (count_value o, SCount c cs')).
    unfold count_process. destruct (count_next c st (file_dirkey f)) as [v st']. cbn [fst snd].
    destruct (count_value (render_count (cc_width c) v)) as [x| |e]; reflexivity.
  Qed.

  Lemma render_all_count a c : forall files st,
    render_all upper lower (count_pat a c st) files =
    combine files (map (fun v => rendered_of_count (render_count (cc_width c) v))
                       (count_values_from c st (map file_dirkey files))).
  Proof.
    induction files as [|f rest IH]; intros st; [reflexivity|].
    cbn [render_all map count_values_from]. rewrite render_one_count.
    destruct (count_next c st (file_dirkey f)) as [v st']. cbn [fst snd map combine].
    rewrite to_rendered_count, IH. reflexivity.
  Qed.

  Lemma nth_error_combine_map {A B C} (l : list A) (g : B -> C) (vs : list B) i x y :
    nth_error (combine l (map g vs)) i = Some (x, y) ->
    nth_error l i = Some x /\ exists v, nth_error vs i = Some v /\ y = g v.
  Proof.
    revert vs i. induction l as [|a l IH]; intros vs i H; [destruct i; discriminate|].
    destruct vs as [|v vs]; [destruct i; discriminate|].
    destruct i as [|i]; cbn in H.
    - inversion H; subst. split; [reflexivity|]. exists v. split; reflexivity.
    - exact (IH vs i H).
  Qed.

  Lemma instantiate_count a c :
    count_cfg_of a = Some c ->
    instantiate [BTag fid_Count a tt false []] = count_pat a c (count_init c).
  Proof. intros H. unfold instantiate, count_pat. cbn [map inst_el]. unfold core_init. cbn. rewrite H. reflexivity. Qed.

  (* the plan of a run whose template is a single Count tag *)
  Theorem count_plan_values o a c dirs s i f r :
    count_cfg_of a = Some c ->
    nth_error (whole_plan upper lower [BTag fid_Count a tt false []] o dirs s) i = Some (f, r) ->
    let files := processing_order o s dirs in
    nth_error files i = Some f /\
    exists v, nth_error (count_values c (map file_dirkey files)) i = Some v /\
              r = rendered_of_count (render_count (cc_width c) v).
  Proof.
    intros Hc H. unfold whole_plan in H. rewrite (instantiate_count a c Hc), render_all_count in H.
    exact (nth_error_combine_map _ _ _ _ _ _ H).
  Qed.

  (* per-directory counters: k = the number of files of the same directory processed before *)
  Theorem count_plan_per_directory o a c dirs s i f r :
    count_cfg_of a = Some c -> cc_common c = false ->
    nth_error (whole_plan upper lower [BTag fid_Count a tt false []] o dirs s) i = Some (f, r) ->
    let files := processing_order o s dirs in
    let k := occ (file_dirkey f) (firstn i (map file_dirkey files)) in
    nth_error files i = Some f /\
    r = rendered_of_count (render_count (cc_width c) (cc_start c + Z.of_nat k * cc_step c)).
  Proof.
    intros Hc Hcm H. destruct (count_plan_values o a c dirs s i f r Hc H) as (Hf & v & Hv & ->).
    split; [exact Hf|].
    assert (Hd : nth_error (map file_dirkey (processing_order o s dirs)) i = Some (file_dirkey f)).
    { rewrite nth_error_map, Hf. reflexivity. }
    rewrite (count_per_directory c _ i _ Hcm Hd) in Hv. inversion Hv. reflexivity.
  Qed.

  (* one common counter: the i-th processed file *)
  Theorem count_plan_common o a c dirs s i f r :
    count_cfg_of a = Some c -> cc_common c = true ->
    nth_error (whole_plan upper lower [BTag fid_Count a tt false []] o dirs s) i = Some (f, r) ->
    nth_error (processing_order o s dirs) i = Some f /\
    r = rendered_of_count (render_count (cc_width c) (cc_start c + Z.of_nat i * cc_step c)).
  Proof.
    intros Hc Hcm H. destruct (count_plan_values o a c dirs s i f r Hc H) as (Hf & v & Hv & ->).
    split; [exact Hf|].
    assert (Hl : (i < length (map file_dirkey (processing_order o s dirs)))%nat).
    { rewrite map_length. apply nth_error_Some. congruence. }
    rewrite (count_common c _ i Hcm Hl) in Hv. inversion Hv. reflexivity.
  Qed.

  (* when the command line is accepted, the program IS the pipeline run on that plan *)
  Theorem tempren_main_is_run R o text b dirs s :
    args_ok s text dirs = true -> no_gatherers o s dirs = false ->
    compile R text = inl b ->
    wants_dirs (o_mode o) && o_sort_name o = false ->
    (o_sort_name o = true -> compiles R t_sort_name = true) ->
    tempren_main upper lower R o text dirs s =
    run (cfg_of_options o) (whole_plan upper lower b o dirs s) (o_cwd o) s.
  Proof.
    intros A G C D S. unfold tempren_main. rewrite A, G, C, D. cbn [negb].
    destruct (o_sort_name o); [rewrite (S eq_refl)|]; reflexivity.
  Qed.
End CountWhole.

(* ---------- the text %Count() ------------------------------------------------------------------- *)
Definition t_count_plain : str := [37; 67; 111; 117; 110; 116; 40; 41].      (* %Count() *)
Definition no_targs : targs := {| a_pos := []; a_kw := [] |}.
Definition plain_count_cfg : count_cfg := {| cc_start := 0; cc_step := 1; cc_width := 0; cc_common := false |}.

Lemma compile_count_plain : compile core_reg t_count_plain = inl [BTag fid_Count no_targs tt false []].
Proof. vm_compute. reflexivity. Qed.

Lemma count_plain_text :
  compile core_reg t_count_plain = inl [BTag fid_Count no_targs tt false []] /\
  t_count_plain = [37; 67; 111; 117; 110; 116; 40; 41].
Proof. split; [exact compile_count_plain|reflexivity]. Qed.

Lemma count_cfg_plain : count_cfg_of no_targs = Some plain_count_cfg.
Proof. reflexivity. Qed.

(* `tempren -n '%Count()' dirs`: the k-th file of each directory (k from 0, in processing order) is
   given the name "k" - for every tree, input directory list, listing order, sort option *)
Theorem count_plain_numbers upper lower o dirs s i f r :
  nth_error (whole_plan upper lower [BTag fid_Count no_targs tt false []] o dirs s) i = Some (f, r) ->
  let files := processing_order o s dirs in
  let k := occ (file_dirkey f) (firstn i (map file_dirkey files)) in
  nth_error files i = Some f /\ r = RText (decimal_Z (Z.of_nat k)).
Proof.
  intros H. destruct (count_plan_per_directory upper lower o no_targs plain_count_cfg dirs s i f r
                        count_cfg_plain eq_refl H) as [Hf ->].
  split; [exact Hf|]. cbn [cc_width cc_start cc_step plain_count_cfg].
  set (k := occ _ _). replace (0 + Z.of_nat k * 1)%Z with (Z.of_nat k) by lia.
  unfold render_count. destruct (Z.of_nat k <? 0)%Z eqn:E; [apply Z.ltb_lt in E; lia|]. reflexivity.
Qed.
