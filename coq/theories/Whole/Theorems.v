(* Whole-program theorems: statements about [tempren_main] on a template TEXT, options, input    *)
(* directories and a tree - C09 (a text that does not compile), C01 (no loss), C17 (the identity  *)
(* templates).  The run-level theorems they reuse are imported, not re-proved.                    *)
From Coq Require Import Permutation.
From Tempren Require Import Base.Str Py.PathLib Py.PathLibProofs Py.Repr.
From Tempren Require Import Tpl.Alias.
From Tempren Require Import FS.Model FS.Lemmas FS.PlainPaths.
From Tempren Require Import Pipe.Pipeline Pipe.Front Pipe.FrontCompile Pipe.Safety Pipe.SafetyFacts Pipe.Noop.
From Tempren Require Import Whole.Library Whole.Render Whole.Gather Whole.Main Whole.Facts.
Open Scope N_scope.

(* ====================================================================================== *)
(* C09: a template text that does not compile                                               *)
(* ====================================================================================== *)

Lemma failed_untouched e s :
  let r := failed e s in
  r_calls r = [] /\ r_states r = [] /\ r_final r = s /\ r_report r = [] /\ r_status r = status_of e.
Proof. cbn. repeat split; reflexivity. Qed.

(* whatever the registry, the options, the input paths and the tree: nothing is called, nothing changes,
   nothing is reported; the exit status is 3 once argparse has accepted the command line and a gatherer
   exists (otherwise the run ends even earlier, with status 2 or 126) *)
Theorem whole_bad_template_untouched upper lower R o text dirs s :
  is_error (compile R text) ->
  let r := tempren_main upper lower R o text dirs s in
  r_calls r = [] /\ r_states r = [] /\ r_final r = s /\ r_report r = [] /\
  (args_ok s text dirs = true -> no_gatherers o s dirs = false -> r_status r = 3%Z) /\
  (r_status r = 3%Z \/ r_status r = 2%Z \/ r_status r = 126%Z).
Proof.
  intros [e E]. unfold tempren_main. rewrite E.
  destruct (args_ok s text dirs); cbn [negb].
  - destruct (no_gatherers o s dirs).
    + cbn. repeat split; try reflexivity; [intros _ H; discriminate|right; right; reflexivity].
    + cbn. repeat split; try reflexivity. left. reflexivity.
  - cbn. repeat split; try reflexivity; [intros H; discriminate|right; left; reflexivity].
Qed.

(* ====================================================================================== *)
(* C01: no loss, for the program                                                            *)
(* ====================================================================================== *)

(* the options do not ask for override (manual: no answer selects it) *)
Definition no_override (o : options) : Prop :=
  match o_strategy o with
  | Stop | Ignore => True
  | Manual => no_override_answer (o_answers o)
  | Override => False
  end.

Lemma no_override_safe o : no_override o -> safe_cfg (cfg_of_options o).
Proof. intros H. split; [split; reflexivity|exact H]. Qed.

Lemma no_override_spec o :
  no_override o <->
  match o_strategy o with
  | Stop | Ignore => True
  | Manual => Forall (fun l => parse_answer l <> AOverride) (o_answers o)
  | Override => False
  end.
Proof. reflexivity. Qed.

Lemma failed_no_loss e s : WF s ->
  Forall (same_leaves s) (s :: r_states (failed e s)) /\ same_leaves s (r_final (failed e s)).
Proof.
  intros W. cbn. split; [constructor; [|constructor]|]; split; auto.
Qed.

Theorem whole_no_loss upper lower R o text dirs s :
  WF s -> no_override o ->
  let r := tempren_main upper lower R o text dirs s in
  Forall (same_leaves s) (s :: r_states r) /\ same_leaves s (r_final r).
Proof.
  intros W N. unfold tempren_main.
  destruct (negb (args_ok s text dirs)); [apply failed_no_loss; exact W|].
  destruct (no_gatherers o s dirs); [apply failed_no_loss; exact W|].
  destruct (compile R text) as [b|e]; [|apply failed_no_loss; exact W].
  destruct (wants_dirs (o_mode o) && o_sort_name o); [apply failed_no_loss; exact W|].
  destruct (o_sort_name o && negb (compiles R t_sort_name)); [apply failed_no_loss; exact W|].
  apply no_loss; [exact W|apply no_override_safe; exact N].
Qed.

(* ====================================================================================== *)
(* C17: the identity templates                                                              *)
(* ====================================================================================== *)

Definition t_name : str := [37; 78; 97; 109; 101; 40; 41].                                          (* %Name()         *)
Definition t_base_ext : str := [37; 66; 97; 115; 101; 40; 41; 37; 69; 120; 116; 40; 41].            (* %Base()%Ext()   *)
Definition t_dir_name : str := [37; 68; 105; 114; 40; 41; 47; 37; 78; 97; 109; 101; 40; 41].        (* %Dir()/%Name()  *)

Definition no_targs : targs := {| a_pos := []; a_kw := [] |}.

Definition b_name : compiled := [BTag fid_Name no_targs tt false []].
Definition b_base_ext : compiled := [BTag fid_Base no_targs tt false []; BTag fid_Ext no_targs tt false []].
Definition b_dir_name : compiled :=
  [BTag fid_Dir no_targs tt false []; BRaw [47]; BTag fid_Name no_targs tt false []].

Lemma compile_name : compile core_reg t_name = inl b_name.
Proof. vm_compute. reflexivity. Qed.
Lemma compile_base_ext : compile core_reg t_base_ext = inl b_base_ext.
Proof. vm_compute. reflexivity. Qed.
Lemma compile_dir_name : compile core_reg t_dir_name = inl b_dir_name.
Proof. vm_compute. reflexivity. Qed.
Lemma compiles_sort_name : compiles core_reg t_sort_name = true.
Proof. vm_compute. reflexivity. Qed.

Lemma identity_texts :
  t_name = [37; 78; 97; 109; 101; 40; 41] /\
  t_base_ext = [37; 66; 97; 115; 101; 40; 41; 37; 69; 120; 116; 40; 41] /\
  t_dir_name = [37; 68; 105; 114; 40; 41; 47; 37; 78; 97; 109; 101; 40; 41] /\
  (forall o, explicit_mode o = match o_mode o with MDirectory => negb (o_recursive o) | _ => false end).
Proof. repeat split. intros o. unfold explicit_mode. destruct (o_mode o); reflexivity. Qed.

(* which text is an identity template in which mode *)
Definition identity_template (m : mode) (text : str) : Prop :=
  (m <> MPath /\ (text = t_name \/ text = t_base_ext)) \/ (m = MPath /\ text = t_dir_name).

Lemma normal_name_head rel : normal_rel rel -> forall r, pp_name rel <> 47 :: r.
Proof.
  intros (_ & Hne & G) r E.
  assert (I : In (pp_name rel) (pp_parts rel)) by (apply last_In; exact Hne).
  destruct (good_part_head _ (G _ I)) as (c & t & E2 & Hc). rewrite E2 in E. inversion E. apply Hc. assumption.
Qed.

Lemma join_head_of (p : str) ps c t : p = c :: t -> exists t', join slash (p :: ps) = c :: t'.
Proof.
  intros ->. destruct ps as [|q ps]; [exists t; reflexivity|].
  cbn [join]. exists (t ++ slash :: join slash (q :: ps)). reflexivity.
Qed.

Lemma normal_dir_head rel : normal_rel rel -> forall r t, pp_str (pp_parent rel) ++ t <> 47 :: r.
Proof.
  intros (R0 & Hne & G) r t E. unfold pp_str, pp_parent in E. cbn [pp_root pp_parts] in E. rewrite R0 in E.
  destruct (removelast (pp_parts rel)) as [|p ps] eqn:RL.
  - cbn in E. inversion E.
  - assert (I : In p (pp_parts rel)) by (apply In_removelast; rewrite RL; left; reflexivity).
    destruct (good_part_head _ (G _ I)) as (c & t0 & E2 & Hc).
    destruct (join_head_of p ps c t0 E2) as [t' J]. cbn [root_str app] in E. rewrite J in E.
    inversion E. apply Hc. assumption.
Qed.

Lemma input_is_dir_some s d : input_is_dir s d = true -> exists p, chdir s d = Some p.
Proof. unfold input_is_dir. destruct (chdir s d) as [p|]; [eauto|discriminate]. Qed.

Section Identity.
  Variables upper lower : str -> str.

  Lemma render_name f :
    render_one upper lower f (instantiate b_name) = (inr (tag_name (pf_rel f) None ++ []), instantiate b_name).
  Proof. reflexivity. Qed.

  Lemma render_base_ext f :
    render_one upper lower f (instantiate b_base_ext) =
    (inr (tag_base (pf_rel f) None ++ tag_ext (pf_rel f) None ++ []), instantiate b_base_ext).
  Proof. reflexivity. Qed.

  Lemma render_dir_name f :
    render_one upper lower f (instantiate b_dir_name) =
    (inr (tag_dir (pf_rel f) None ++ slash :: tag_name (pf_rel f) None ++ []), instantiate b_dir_name).
  Proof. reflexivity. Qed.

  Lemma identity_plan m b text o dirs s :
    tree_ok s -> permutes (o_listing o) ->
    (explicit_mode o = true -> Forall (fun d => d <> [] /\ lookup s d = Some NDir) dirs) ->
    identity_template m text -> compile core_reg text = inl b ->
    Forall (identity_entry m s) (whole_plan upper lower b o dirs s).
  Proof.
    intros T P X Id C. pose proof (processing_order_ok o s dirs T P X) as F.
    unfold whole_plan. revert F. generalize (processing_order o s dirs). intros files F.
    destruct Id as [[Hm [ -> | -> ]]|[-> ->]].
    - rewrite compile_name in C. inversion C; subst b.
      rewrite (render_all_stateless upper lower _ _ render_name).
      apply Forall_forall. intros e Ie. apply in_map_iff in Ie as (f & <- & If).
      rewrite Forall_forall in F. destruct (F f If) as [Hc Hn].
      rewrite app_nil_r. rewrite to_rendered_text; [|exact (normal_name_head _ Hn)].
      apply own_name_is_identity; assumption.
    - rewrite compile_base_ext in C. inversion C; subst b.
      rewrite (render_all_stateless upper lower _ _ render_base_ext).
      apply Forall_forall. intros e Ie. apply in_map_iff in Ie as (f & <- & If).
      rewrite Forall_forall in F. destruct (F f If) as [Hc Hn].
      rewrite app_nil_r, base_ext_is_name. rewrite to_rendered_text; [|exact (normal_name_head _ Hn)].
      apply own_name_is_identity; assumption.
    - rewrite compile_dir_name in C. inversion C; subst b.
      rewrite (render_all_stateless upper lower _ _ render_dir_name).
      apply Forall_forall. intros e Ie. apply in_map_iff in Ie as (f & <- & If).
      rewrite Forall_forall in F. destruct (F f If) as [Hc Hn].
      rewrite app_nil_r. rewrite to_rendered_text; [|intros r; exact (normal_dir_head _ Hn r _)].
      apply dir_slash_name_is_identity; assumption.
  Qed.

  (* the command line is accepted and a gatherer exists when every input path names a directory *)
  Lemma inputs_accepted o text dirs s :
    text <> [] -> dirs <> [] -> Forall (fun d => is_dir s [] (abs_path d) = true) dirs ->
    args_ok s text dirs = true /\ no_gatherers o s dirs = false.
  Proof.
    intros Ht Hd F. split.
    - unfold args_ok. destruct text as [|c t]; [congruence|]. destruct dirs as [|d ds]; [congruence|].
      apply forallb_forall. intros x Ix. rewrite Forall_forall in F. specialize (F x Ix).
      rewrite <- chdir_is_dir in F. destruct (input_is_dir_some _ _ F) as [p C]. exact (chdir_exists _ _ _ C).
    - unfold no_gatherers. destruct dirs as [|d ds]; [congruence|].
      inversion F as [|? ? Fd _]; subst. rewrite <- chdir_is_dir in Fd.
      cbn [existsb]. rewrite Fd. cbn [orb negb]. apply andb_false_r.
  Qed.

  Theorem whole_identity_templates o text dirs s :
    tree_ok s ->
    dirs <> [] -> Forall (fun d => is_dir s [] (abs_path d) = true) dirs ->
    (explicit_mode o = true -> Forall (fun d => d <> [] /\ lookup s d = Some NDir) dirs) ->
    permutes (o_listing o) ->
    (o_mode o = MDirectory -> o_sort_name o = false) ->
    identity_template (o_mode o) text ->
    let r := tempren_main upper lower core_reg o text dirs s in
    r_status r = 0%Z /\ r_calls r = [] /\ r_report r = [] /\ r_states r = [] /\ r_final r = s.
  Proof.
    intros T Hd F X P S Id.
    assert (Ht : text <> []).
    { destruct Id as [[_ [ -> | -> ]]|[_ ->]]; discriminate. }
    destruct (inputs_accepted o text dirs s Ht Hd F) as [A G].
    assert (C : exists b, compile core_reg text = inl b).
    { destruct Id as [[_ [ -> | -> ]]|[_ ->]]; eexists;
        [apply compile_name|apply compile_base_ext|apply compile_dir_name]. }
    destruct C as [b C]. unfold tempren_main. rewrite A, G, C. cbn [negb].
    assert (D : wants_dirs (o_mode o) && o_sort_name o = false).
    { destruct (o_mode o); try reflexivity. rewrite (S eq_refl). reflexivity. }
    rewrite D, compiles_sort_name. cbn [negb]. rewrite andb_false_r.
    apply (identity_plan_is_noop (cfg_of_options o)). cbn [c_mode cfg_of_options].
    eapply identity_plan; eassumption.
  Qed.
End Identity.
