(* tempren <options> <template text> <input directories> on a tree: the composition of the component *)
(* models, in the order of tempren.cli.main / build_pipeline / Pipeline.execute:                     *)
(*   1. argparse: the template text is non-empty, at least one input path, every input path exists   *)
(*      (else SystemExitError, status 2);                                                            *)
(*   2. build_pipeline: one gatherer per input DIRECTORY; CombinedFileGatherer([]) raises ValueError  *)
(*      (status 126) - reachable in recursive directory mode when no input path is a directory;       *)
(*   3. the name/path template is compiled from its TEXT (Pipe/FrontCompile.v [compile]; a            *)
(*      TemplateError is status 3);                                                                   *)
(*   4. --sort in directory mode is a ConfigurationError (status 2); otherwise the sort template      *)
(*      is compiled too;                                                                              *)
(*   5. Pipeline.execute: gather every input directory (Whole/Gather.v), order (PathDepthSorter in    *)
(*      directory mode, the template sorter for --sort %Name(), else the listing order), render the   *)
(*      files in that order with one bound template (Whole/Render.v), and rename: Pipe/Pipeline.v      *)
(*      [run] on the plan so obtained.                                                                *)
(* Scope of the model: the input paths are directories.  An input path that exists but is not a       *)
(* directory is dropped here (the code would rename it as an explicitly named file in name and path   *)
(* mode); no --filter option; the only sort template is %Name() ([o_sort_name]), whose keys are the   *)
(* 1-tuples (name,) compared as Python compares them (Py/Order.v) by the stable sort of Py/Sort.v.    *)
(* [o_listing] stands for the order in which os.listdir hands out the entries: the theorems assume    *)
(* nothing about it but that it permutes the gathered list.                                           *)
(* Model only - no proofs in this file.                                                               *)
From Tempren Require Import Base.Str Py.PathLib Py.Sort.
From Tempren Require Py.Order.
From Tempren Require Import Tpl.Alias.
From Tempren Require Import FS.Model Pipe.Pipeline Pipe.Front Pipe.FrontCompile.
From Tempren Require Import Whole.Library Whole.Render Whole.Gather.
Open Scope N_scope.

Record options := {
  o_mode : mode;                     (* -n / -p / -d *)
  o_strategy : strategy;             (* -cs / -ci / -co / -cm *)
  o_dry : bool;                      (* --dry-run *)
  o_recursive : bool;                (* -r *)
  o_include_hidden : bool;           (* -ih *)
  o_sort_name : bool;                (* --sort '%Name()' *)
  o_answers : list str;              (* stdin of the manual prompt *)
  o_fault : option nat;              (* index of an injected OSError (None: none) *)
  o_listing : list pfile -> list pfile;   (* the listing order of the operating system *)
  o_cwd : rpath                      (* the working directory tempren is started in *)
}.

Definition cfg_of_options (o : options) : cfg :=
  {| c_mode := o_mode o; c_strategy := o_strategy o; c_dry := o_dry o; c_answers := o_answers o;
     c_fault := o_fault o; c_var := fixed |}.

Definition t_sort_name : str := [37; 78; 97; 109; 101; 40; 41].        (* %Name() *)

(* ---------- 1. argparse ------------------------------------------------------------------------------ *)
Definition args_ok (s : fs) (tpl : str) (dirs : list rpath) : bool :=
  match tpl, dirs with
  | [], _ => false                                  (* nonempty_string *)
  | _, [] => false                                  (* nargs="+" *)
  | _, _ => forallb (fun d => exists_ s [] (abs_path d)) dirs      (* existing_path *)
  end.

(* ---------- 2./5. gatherers ---------------------------------------------------------------------------- *)
Definition explicit_mode (o : options) : bool := wants_dirs (o_mode o) && negb (o_recursive o).

(* filter(lambda p: p.is_dir(), input_paths) *)
Definition input_is_dir (s : fs) (d : rpath) : bool :=
  match chdir s d with Some _ => true | None => false end.

Definition no_gatherers (o : options) (s : fs) (dirs : list rpath) : bool :=
  negb (explicit_mode o) && negb (existsb (input_is_dir s) dirs).

Definition gather_input (o : options) (s : fs) (d : rpath) : list pfile :=
  match chdir s d with
  | Some p =>
    if explicit_mode o then gather_explicit s d
    else gather_fs s p (o_recursive o) (o_include_hidden o) (o_mode o)
  | None => []
  end.

Definition gather_all (o : options) (s : fs) (dirs : list rpath) : list pfile :=
  flat_map (gather_input o s) dirs.

(* ---------- 5. sorters ------------------------------------------------------------------------------------ *)
Definition depth_key (f : pfile) : nat := length (pp_parts (pf_rel f)).
Definition name_key (f : pfile) : Order.pyval := Order.VTuple [Order.VStr (pp_name (pf_rel f))].

Definition order_files (o : options) (l : list pfile) : list pfile :=
  match o_mode o with
  | MDirectory => sort_by depth_key Nat.ltb true l         (* PathDepthSorter: deepest first, stable *)
  | _ => if o_sort_name o then sort_by name_key Order.py_ltb false l else l
  end.

Definition processing_order (o : options) (s : fs) (dirs : list rpath) : list pfile :=
  order_files o (o_listing o (gather_all o s dirs)).

Section Whole.
  Variables upper lower : str -> str.

  Definition whole_plan (b : compiled) (o : options) (dirs : list rpath) (s : fs) : list (pfile * rendered) :=
    render_all upper lower (instantiate b) (processing_order o s dirs).

  Definition tempren_main (R : tagreg) (o : options) (name_tpl : str) (dirs : list rpath) (s : fs) : result :=
    if negb (args_ok s name_tpl dirs) then failed ExConfiguration s
    else if no_gatherers o s dirs then failed ExOther s
    else match compile R name_tpl with
         | inr _ => failed ExTemplate s
         | inl b =>
           if wants_dirs (o_mode o) && o_sort_name o then failed ExConfiguration s
           else if o_sort_name o && negb (compiles R t_sort_name) then failed ExTemplate s
           else run (cfg_of_options o) (whole_plan b o dirs s) (o_cwd o) s
         end.
End Whole.
