(* The file gatherers of tempren/filesystem.py over the FLAT filesystem of FS/Model.v.             *)
(*   FlatFileGatherer(d)            name/path mode:  entries directly in d that are not directories *)
(*   RecursiveFileGatherer(d)       name/path mode, -r: the same anywhere below d                   *)
(*   RecursiveDirectoryGatherer(d)  directory mode, -r: the directories anywhere below d            *)
(*   ExplicitFileGatherer(dirs)     directory mode without -r: the input directories THEMSELVES,    *)
(*                                  each as File(parent, name)                                       *)
(* [d] is the real path of the input directory (File.__init__ resolves it).  An entry is a          *)
(* directory when Path.is_dir() says so: a symbolic link counts as what it leads to.  Hidden names  *)
(* (leading '.') are skipped unless --include-hidden; the recursive gatherers do not enter a hidden *)
(* directory, so with -r no component of the relative path may be hidden.                           *)
(* Order: the order of the association list.  The real order is whatever os.listdir returns, so the *)
(* whole-program theorems quantify over a permutation applied afterwards (Whole/Main.v).            *)
(* Restriction of the model: the recursive gatherers are not followed through symbolic links to     *)
(* directories (such a link is classified as a directory, its target's content is not listed under  *)
(* the link's name).                                                                                *)
(* Model only - no proofs in this file.                                                             *)
From Tempren Require Import Base.Str Py.PathLib FS.Model Pipe.Pipeline.
Open Scope N_scope.

Definition abs_path (d : rpath) : upath := {| up_abs := true; up_comps := d |}.

(* path.name.startswith(".") *)
Definition hidden (n : name) : bool :=
  match n with
  | 46 :: _ => true
  | _ => false
  end.

(* Path.is_dir() of the entry with key k *)
Definition entry_is_dir (s : fs) (k : rpath) (n : node) : bool :=
  match n with
  | NDir => true
  | NFile _ => false
  | NLink _ _ => is_dir s [] (abs_path k)
  end.

(* the path of key k relative to d, when k lies properly below d *)
Definition rel_under (d k : rpath) : option (list name) :=
  if is_prefix_path d k then
    match skipn (length d) k with
    | [] => None
    | r => Some r
    end
  else None.

Definition wanted (recursive include_hidden : bool) (rel : list name) : bool :=
  (recursive || Nat.eqb (length rel) 1) && (include_hidden || negb (existsb hidden rel)).

Definition wants_dirs (m : mode) : bool := match m with MDirectory => true | _ => false end.

Definition rel_file (d : rpath) (rel : list name) : pfile :=
  {| pf_dir := d; pf_rel := {| pp_root := 0; pp_parts := rel |} |}.

Definition gather_entry (s : fs) (d : rpath) (recursive include_hidden : bool) (m : mode)
           (e : rpath * node) : list pfile :=
  match rel_under d (fst e) with
  | Some rel =>
    if wanted recursive include_hidden rel && Bool.eqb (entry_is_dir s (fst e) (snd e)) (wants_dirs m)
    then [rel_file d rel] else []
  | None => []
  end.

Definition gather_fs (s : fs) (d : rpath) (recursive include_hidden : bool) (m : mode) : list pfile :=
  flat_map (gather_entry s d recursive include_hidden m) s.

(* ExplicitFileGatherer([d]): File(d.parent.absolute(), Path(d.name)); the parent is resolved by
   File.__init__.  The root of the model stands for the sandbox root: its parent is outside the model,
   the empty path yields nothing.  (include_hidden is not consulted by this gatherer.) *)
Definition gather_explicit (s : fs) (d : rpath) : list pfile :=
  match d with
  | [] => []
  | _ =>
    match chdir s (removelast d) with
    | Some p => [rel_file p [last d []]]
    | None => []
    end
  end.
