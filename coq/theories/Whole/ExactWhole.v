(* C02 for the program: name mode, stop, a real run of a template text compiled against the core        *)
(* library: exit status 0 => the final tree is the rendered plan applied to the initial tree, all at    *)
(* once.  From Pipe/PlanExact.v [success_exact_name_mode_list]; this file derives its hypothesis        *)
(* [selected_ok] for the plan the program builds itself.                                                *)
From Coq Require Import Permutation.
From Tempren Require Import Base.Str Py.PathLib Py.PathLibProofs.
From Tempren Require Import Tpl.Alias.
From Tempren Require Import FS.Model FS.Lemmas FS.PlainPaths.
From Tempren Require Import Pipe.Pipeline Pipe.Front Pipe.FrontCompile Pipe.PlanExact.
From Tempren Require Import Whole.Library Whole.Render Whole.Gather Whole.Main Whole.Facts Whole.Theorems Whole.CountWhole.
Open Scope N_scope.

(* a rendered text the name generator accepts and the kernel can use as a last component:
   non-empty, no '/', neither "." nor ".." *)
Definition valid_name_b (t : str) : bool :=
  negb (match t with [] => true | [46] => true | _ => has_slash t end) && negb (name_eqb t dotdot).

Definition renders_valid_name (e : pfile * rendered) : Prop :=
  exists t, snd e = RText t /\ valid_name_b t = true.

(* ---------- the files of the plan are the processed files ---------------------------------------- *)
Lemma render_all_files upper lower : forall files b, map fst (render_all upper lower b files) = files.
Proof.
  induction files as [|f rest IH]; intros b; [reflexivity|].
  cbn [render_all]. destruct (render_one upper lower f b) as [r b']. cbn [map fst]. rewrite IH. reflexivity.
Qed.

(* ---------- a gathered file of name mode is a selected entry --------------------------------------- *)
Lemma good_names_no_dotdot k : (forall c, In c k -> good_name c) -> no_dotdot k = true.
Proof.
  intros H. unfold no_dotdot. apply forallb_forall. intros c Ic. destruct (H c Ic) as [_ N].
  apply negb_true_iff. apply name_eqb_false_of_neq. exact N.
Qed.

Lemma not_wanted_dir_is_leaf s k n : entry_is_dir s k n = false -> is_dir_node n = false.
Proof. destruct n; cbn; intros H; [reflexivity|reflexivity|discriminate]. Qed.

Definition name_file_ok (s : fs) (f : pfile) : Prop :=
  pp_root (pf_rel f) = 0%nat /\ chdir s (pf_dir f) = Some (pf_dir f) /\
  no_dotdot (pp_parts (pf_rel f)) = true /\ selected_node s f <> None /\ pp_parts (pf_rel f) <> [].

Lemma gather_fs_name_ok s d r ih m :
  tree_ok s -> lookup s d = Some NDir -> wants_dirs m = false ->
  Forall (name_file_ok s) (gather_fs s d r ih m).
Proof.
  intros T L M. pose proof (tree_ok_WF _ T) as W. apply Forall_forall. intros f I.
  destruct (gather_fs_in _ _ _ _ _ _ I) as (rel & n & Ik & Hne & -> & _ & K).
  rewrite M in K. destruct (proj2 T _ _ Ik) as [Hlen Hgood].
  assert (Grel : forall c, In c rel -> good_name c) by (intros c Ic; apply Hgood; apply in_or_app; right; exact Ic).
  split; [reflexivity|]. cbn [pf_dir pf_rel rel_file pp_parts].
  split; [apply chdir_real; assumption|].
  split; [apply good_names_no_dotdot; exact Grel|].
  split; [|exact Hne].
  assert (Sel : selected_node s (rel_file d rel) = Some n); [|rewrite Sel; discriminate].
  apply lookup_selected_node.
  - exact W.
  - reflexivity.
  - exact L.
  - cbn [pf_rel rel_file pp_parts]. apply good_names_no_dotdot. exact Grel.
  - exact Hne.
  - cbn [pf_rel rel_file pp_parts]. rewrite app_length in Hlen. apply Nat.lt_le_incl. eapply Nat.le_lt_trans; [|exact Hlen]. apply Nat.le_add_l.
  - unfold src_key. cbn [pf_dir pf_rel rel_file pp_parts]. apply lookup_of_In; assumption.
  - exact (not_wanted_dir_is_leaf _ _ _ K).
Qed.

Lemma gather_all_name_ok o s dirs :
  tree_ok s -> o_mode o = MName -> Forall (name_file_ok s) (gather_all o s dirs).
Proof.
  intros T M. unfold gather_all. apply Forall_forall. intros f I.
  apply in_flat_map in I as (d & Id & If).
  destruct (chdir s d) as [p|] eqn:C.
  - rewrite (gather_input_some o s d p C) in If.
    assert (E : explicit_mode o = false) by (unfold explicit_mode; rewrite M; reflexivity).
    rewrite E in If.
    assert (G : Forall (name_file_ok s) (gather_fs s p (o_recursive o) (o_include_hidden o) (o_mode o))).
    { apply gather_fs_name_ok; [exact T|exact (chdir_found _ _ _ C)|rewrite M; reflexivity]. }
    rewrite Forall_forall in G. exact (G f If).
  - rewrite (gather_input_none o s d C) in If. destruct If.
Qed.

(* ---------- one input directory: nothing is gathered twice ------------------------------------------- *)
Lemma gather_entry_src s d r ih m e f : In f (gather_entry s d r ih m e) -> src_key f = fst e.
Proof.
  unfold gather_entry, rel_under. destruct (is_prefix_path d (fst e)) eqn:P; [|intros []].
  apply is_prefix_path_spec in P as [rel E]. rewrite E, skipn_app_exact.
  destruct rel as [|c rel]; [intros []|].
  destruct (_ && _); [|intros []]. intros [<-|[]]. reflexivity.
Qed.

Lemma gather_entry_short s d r ih m e : (length (gather_entry s d r ih m e) <= 1)%nat.
Proof.
  unfold gather_entry. destruct (rel_under d (fst e)); [|cbn; lia].
  destruct (_ && _); cbn; lia.
Qed.

Lemma gather_fs_nodup_gen d r ih m s0 : forall s,
  NoDup (map fst s) -> NoDup (map src_key (flat_map (gather_entry s0 d r ih m) s)).
Proof.
  induction s as [|e s IH]; intros ND; [constructor|].
  cbn [flat_map map] in *. inversion ND as [|? ? Hn ND']; subst.
  rewrite map_app.
  pose proof (gather_entry_short s0 d r ih m e) as Sh.
  pose proof (gather_entry_src s0 d r ih m e) as Sr.
  destruct (gather_entry s0 d r ih m e) as [|f [|g l]]; cbn [map app].
  - apply IH. exact ND'.
  - constructor; [|apply IH; exact ND'].
    intros I. apply in_map_iff in I as (f' & E & I'). apply in_flat_map in I' as (e' & Ie' & If').
    apply Hn. rewrite <- (Sr f (or_introl eq_refl)), <- E, (gather_entry_src _ _ _ _ _ _ _ If').
    apply in_map. exact Ie'.
  - cbn in Sh. lia.
Qed.

Lemma gather_fs_nodup s d r ih m : WF s -> NoDup (map src_key (gather_fs s d r ih m)).
Proof. intros [ND _]. unfold gather_fs. apply gather_fs_nodup_gen. exact ND. Qed.

Lemma gather_one_dir_nodup o s d :
  WF s -> explicit_mode o = false -> NoDup (map src_key (gather_all o s [d])).
Proof.
  intros W E. unfold gather_all. cbn [flat_map]. rewrite app_nil_r.
  destruct (chdir s d) as [p|] eqn:C.
  - rewrite (gather_input_some o s d p C), E. apply gather_fs_nodup. exact W.
  - rewrite (gather_input_none o s d C). constructor.
Qed.

(* ---------- the theorem ------------------------------------------------------------------------------- *)
Section Exact.
  Variables upper lower : str -> str.

  Lemma whole_plan_selected_ok b o dirs s :
    tree_ok s -> o_mode o = MName -> permutes (o_listing o) ->
    NoDup (map src_key (gather_all o s dirs)) ->
    Forall renders_valid_name (whole_plan upper lower b o dirs s) ->
    selected_ok s (whole_plan upper lower b o dirs s).
  Proof.
    intros T M P ND V. pose proof (processing_order_perm o s dirs P) as Perm.
    assert (Fm : map fst (whole_plan upper lower b o dirs s) = processing_order o s dirs)
      by apply render_all_files.
    split.
    - assert (G : Forall (name_file_ok s) (processing_order o s dirs)).
      { eapply Permutation_Forall; [exact Perm|]. apply gather_all_name_ok; assumption. }
      apply Forall_forall. intros [f r] Ie.
      rewrite Forall_forall in V. destruct (V _ Ie) as (t & Er & Vt). cbn [snd] in Er. subst r.
      assert (If : In f (processing_order o s dirs)).
      { rewrite <- Fm. apply in_map_iff. exists (f, RText t). split; [reflexivity|exact Ie]. }
      rewrite Forall_forall in G. destruct (G f If) as (R0 & Cd & Dd & Sel & Hne).
      unfold valid_name_b in Vt. apply andb_true_iff in Vt as [V1 V2].
      apply negb_true_iff in V1. apply negb_true_iff in V2.
      cbn [entry_ok]. repeat split; try assumption.
      unfold pp_with_name. destruct (pp_parts (pf_rel f)); [congruence|]. rewrite V1. discriminate.
    - unfold srcs. rewrite <- map_map, Fm.
      eapply Permutation_NoDup; [apply Permutation_map; exact Perm|exact ND].
  Qed.

  Lemma failed_status_nonzero e s : e <> ExDestExists -> r_status (failed e s) <> 0%Z.
  Proof. destruct e; cbn; intros; discriminate. Qed.

  Theorem whole_exact_name_mode o text b dirs s :
    tree_ok s ->
    o_mode o = MName -> o_strategy o = Stop -> o_dry o = false -> o_fault o = None ->
    permutes (o_listing o) ->
    compile core_reg text = inl b ->
    NoDup (map src_key (gather_all o s dirs)) ->
    Forall renders_valid_name (whole_plan upper lower b o dirs s) ->
    let r := tempren_main upper lower core_reg o text dirs s in
    r_status r = 0%Z ->
    r_final r = apply_plan s (whole_plan upper lower b o dirs s).
  Proof.
    intros T M St Dr Fl P C ND V. unfold tempren_main. rewrite C.
    destruct (negb (args_ok s text dirs)); [intros H; exfalso; revert H; apply failed_status_nonzero; discriminate|].
    destruct (no_gatherers o s dirs); [intros H; exfalso; revert H; apply failed_status_nonzero; discriminate|].
    destruct (wants_dirs (o_mode o) && o_sort_name o); [intros H; exfalso; revert H; apply failed_status_nonzero; discriminate|].
    destruct (o_sort_name o && negb (compiles core_reg t_sort_name)); [intros H; exfalso; revert H; apply failed_status_nonzero; discriminate|].
    intros H. apply success_exact_name_mode_list; try assumption; try reflexivity.
    - exact (tree_ok_WF _ T).
    - apply whole_plan_selected_ok; assumption.
  Qed.

  (* no conflicts at all: the run succeeds, and the plan is applied exactly *)
  Theorem whole_all_free_succeeds o text b dirs s :
    tree_ok s ->
    o_mode o = MName -> o_strategy o = Stop -> o_dry o = false -> o_fault o = None ->
    permutes (o_listing o) ->
    args_ok s text dirs = true -> existsb (input_is_dir s) dirs = true ->
    compile core_reg text = inl b ->
    NoDup (map src_key (gather_all o s dirs)) ->
    Forall renders_valid_name (whole_plan upper lower b o dirs s) ->
    all_free s (whole_plan upper lower b o dirs s) ->
    let r := tempren_main upper lower core_reg o text dirs s in
    r_status r = 0%Z /\ r_final r = apply_plan s (whole_plan upper lower b o dirs s).
  Proof.
    intros T M St Dr Fl P A In C ND V AF.
    rewrite (tempren_main_is_run upper lower core_reg o text b dirs s A).
    - apply all_free_succeeds; try assumption; try reflexivity.
      + exact (tree_ok_WF _ T).
      + apply whole_plan_selected_ok; assumption.
    - unfold no_gatherers. rewrite In. apply andb_false_r.
    - exact C.
    - rewrite M. reflexivity.
    - intros _. exact compiles_sort_name.
  Qed.
End Exact.
