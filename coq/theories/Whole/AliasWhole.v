(* C15 for the program: a template text that uses aliases and the text with the alias patterns written   *)
(* in place give the same run of [tempren_main] - same status, calls, states, final tree, report.        *)
(*   1. the inlined tree contains no alias occurrence: it binds alike with and without the alias table;  *)
(*   2. merging adjacent raw texts (the parser hands over maximal text runs, [inline_list] keeps the      *)
(*      pieces apart: Tpl/Alias.v [norm]) commutes with binding and is invisible to the name renderer -   *)
(*      the statement Properties/C15.v leaves to the correspondence check, proved here;                   *)
(*   3. instantiation (Whole/Render.v) commutes with flattening and merging;                              *)
(*   4. equal rendered plans give equal runs.                                                             *)
(* Reuses Tpl/AliasProofs.v: [bind_inline], [render_flatten].                                             *)
From Tempren Require Import Base.Str Py.PathLib Py.Repr Tags.Count.
From Tempren Require Import Tpl.Registry Tpl.Signature Tpl.Alias Tpl.AliasProofs.
From Tempren Require Import Tpl.Ast Tpl.Parser Tpl.Visitor.
From Tempren Require Import FS.Model Pipe.Pipeline Pipe.Front Pipe.FrontCompile.
From Tempren Require Import Whole.Library Whole.Render Whole.Gather Whole.Main.
Open Scope N_scope.

(* ====================================================================================== *)
(* 0. merging adjacent raw texts in bound trees                                             *)
(* ====================================================================================== *)

Section BMerge.
  Variable state : Type.

  Fixpoint bmerge (p : bpat state) : bpat state :=
    match p with
    | [] => []
    | BRaw s :: p' =>
      match bmerge p' with
      | BRaw s' :: r => BRaw (s ++ s') :: r
      | r => BRaw s :: r
      end
    | t :: p' => t :: bmerge p'
    end.

  (* alias instances keep the tree their factory compiled: [norm] does not look into alias texts *)
  Fixpoint bnorm_el (b : btree state) : btree state :=
    match b with
    | BTag f a st hc ctx => BTag f a st hc (bmerge (map bnorm_el ctx))
    | _ => b
    end.

  Definition bnorm (p : bpat state) : bpat state := bmerge (map bnorm_el p).

  Definition not_raw (b : btree state) : Prop := forall s, b <> BRaw s.

  Lemma bmerge_cons_not_raw b l : not_raw b -> bmerge (b :: l) = b :: bmerge l.
  Proof. intros H. destruct b as [s| |]; [exfalso; exact (H s eq_refl)|reflexivity|reflexivity]. Qed.

  Lemma bmerge_raw_not_raw s b l : not_raw b -> bmerge (BRaw s :: b :: l) = BRaw s :: b :: bmerge l.
  Proof.
    intros H. change (bmerge (BRaw s :: b :: l)) with
      (match bmerge (b :: l) with BRaw s' :: r => BRaw (s ++ s') :: r | r => BRaw s :: r end).
    rewrite (bmerge_cons_not_raw b l H).
    destruct b as [s0| |]; [exfalso; exact (H s0 eq_refl)|reflexivity|reflexivity].
  Qed.
End BMerge.

Arguments bmerge {state}.
Arguments bnorm_el {state}.
Arguments bnorm {state}.
Arguments not_raw {state}.

(* ====================================================================================== *)
(* 1. / 2. the binder                                                                        *)
(* ====================================================================================== *)

Lemma map_res_cons {A B} (f : A -> exc + B) x l :
  map_res f (x :: l) =
  match f x with
  | inl e => inl e
  | inr y => match map_res f l with inl e => inl e | inr ys => inr (y :: ys) end
  end.
Proof. reflexivity. Qed.

Section Binder.
  Variable state : Type.
  Variable reg : registry.
  Variable tag_check : fid -> targs -> bool -> outcome.
  Variable tag_init : fid -> targs -> state.

  Notation bind_with := (bind_with state reg tag_check tag_init).
  Notation expander := (expander state reg tag_check tag_init).
  Notation bind_list := (bind_list state reg tag_check tag_init).

  (* ---------- the inlined tree binds alike with any alias table it was inlined against, and with none *)
  Section Closed.
    Variable al : atable.
    Variable ei : option upat -> option upat.
    Variables eb1 eb2 : option upat -> exc + bpat state.
    Hypothesis Hexp : forall body h, ei body = Some h ->
      map_res (bind_with al eb1) h = map_res (bind_with [] eb2) h.

    Definition closed_stmt (t : utree) : Prop :=
      forall h, inline_with reg al ei t = Some h ->
                map_res (bind_with al eb1) h = map_res (bind_with [] eb2) h.

    Lemma closed_list l :
      Forall closed_stmt l ->
      forall h, flat_map_opt (inline_with reg al ei) l = Some h ->
                map_res (bind_with al eb1) h = map_res (bind_with [] eb2) h.
    Proof.
      induction 1 as [|t l Ht Hl IH]; simpl; intros h H.
      - inversion H; subst. reflexivity.
      - destruct (inline_with reg al ei t) as [ht|] eqn:It; [|discriminate].
        destruct (flat_map_opt (inline_with reg al ei) l) as [hl|] eqn:Il; [|discriminate].
        inversion H; subst. rewrite !map_res_app, (Ht _ It), (IH _ eq_refl). reflexivity.
    Qed.

    Lemma closed_el : forall t, closed_stmt t.
    Proof.
      induction t as [s|q a hc ctx IH] using utree_ind'; intros h H.
      - simpl in H. inversion H; subst. reflexivity.
      - simpl in H.
        assert (Plain : forall h0,
                  (if hc then match flat_map_opt (inline_with reg al ei) ctx with
                              | Some c => Some [UTag q a true c] | None => None end
                   else Some [UTag q a false []]) = Some h0 ->
                  (forall f, get reg q = ROk f -> alias_find f al = None) ->
                  map_res (bind_with al eb1) h0 = map_res (bind_with [] eb2) h0).
        { intros h0 H0 NA. destruct hc.
          - destruct (flat_map_opt (inline_with reg al ei) ctx) as [c|] eqn:IC; [|discriminate].
            inversion H0; subst. pose proof (closed_list ctx IH c IC) as HC.
            simpl. destruct (get reg q) as [f| | | |] eqn:G; try reflexivity.
            rewrite (NA f eq_refl). cbn [alias_find].
            destruct (tag_check f a true); [|reflexivity]. rewrite HC. reflexivity.
          - inversion H0; subst. simpl. destruct (get reg q) as [f| | | |] eqn:G; try reflexivity.
            rewrite (NA f eq_refl). cbn [alias_find]. reflexivity. }
        destruct (get reg q) as [f| | | |] eqn:G; try (apply Plain; [exact H|intros f0 E; discriminate]).
        destruct (alias_find f al) as [body|] eqn:AF.
        + destruct (no_args a && negb hc); [|discriminate]. exact (Hexp _ _ H).
        + apply Plain; [exact H|]. intros f0 E. inversion E; subst. exact AF.
    Qed.

    Lemma closed_step l h :
      flat_map_opt (inline_with reg al ei) l = Some h ->
      map_res (bind_with al eb1) h = map_res (bind_with [] eb2) h.
    Proof. apply closed_list. apply Forall_forall. intros t _. apply closed_el. Qed.
  End Closed.

  Lemma inliner_closed al eb2 :
    forall fuel body h, inliner reg fuel al body = Some h ->
      forall fuel1, map_res (bind_with al (expander fuel1 al)) h = map_res (bind_with [] eb2) h.
  Proof.
    induction fuel as [|n IH]; intros body h H fuel1; simpl in H; [discriminate|].
    destruct body as [p|]; [|discriminate].
    eapply closed_step; [|exact H]. intros body h0 H0. apply (IH _ _ H0).
  Qed.

  Theorem inline_binds_without_aliases fuel al host h :
    inline_list reg fuel al host = Some h ->
    forall fuel1, bind_list fuel1 al h = bind_list 0 [] h.
  Proof.
    intros H fuel1. unfold inline_list, inline_el in H. unfold bind_list, bind_el.
    eapply closed_step; [|exact H]. intros body h0 H0. apply (inliner_closed al _ _ _ _ H0).
  Qed.

  (* ---------- merging adjacent raw texts commutes with binding ------------------------------------- *)
  Section Norm.
    Variable al : atable.
    Variable eb : option upat -> exc + bpat state.

    Lemma bind_tag_not_raw q a hc ctx b : bind_with al eb (UTag q a hc ctx) = inr b -> not_raw b.
    Proof.
      simpl. intros H s E. subst b.
      destruct (get reg q) as [f| | | |]; try discriminate.
      destruct (alias_find f al) as [body|].
      - destruct (eb body); [discriminate|]. destruct (no_args a); [destruct hc|]; discriminate.
      - destruct (tag_check f a hc); [|discriminate]. destruct hc; [|discriminate].
        destruct (map_res (bind_with al eb) ctx); discriminate.
    Qed.

    Lemma bind_merge_raw : forall l,
      map_res (bind_with al eb) (merge_raw l) = res_map bmerge (map_res (bind_with al eb) l).
    Proof.
      induction l as [|t l IH]; [reflexivity|].
      destruct t as [s|q a hc ctx].
      - change (merge_raw (URaw s :: l)) with
          (match merge_raw l with URaw s' :: r => URaw (s ++ s') :: r | r => URaw s :: r end).
        change (map_res (bind_with al eb) (URaw s :: l)) with
          (match map_res (bind_with al eb) l with inl e => inl e | inr ys => inr (BRaw s :: ys) end).
        revert IH. destruct (merge_raw l) as [|[s'|q a hc ctx] r]; intros IH.
        + revert IH. destruct (map_res (bind_with al eb) l) as [e|ys]; intros IH; simpl in IH; [discriminate|].
          inversion IH as [E]. simpl. rewrite <- E. reflexivity.
        + change (map_res (bind_with al eb) (URaw s' :: r)) with
            (match map_res (bind_with al eb) r with inl e => inl e | inr ys => inr (BRaw s' :: ys) end) in IH.
          change (map_res (bind_with al eb) (URaw (s ++ s') :: r)) with
            (match map_res (bind_with al eb) r with inl e => inl e | inr ys => inr (BRaw (s ++ s') :: ys) end).
          revert IH. destruct (map_res (bind_with al eb) r) as [e|zs];
            destruct (map_res (bind_with al eb) l) as [e'|ys]; intros IH; simpl in IH; try discriminate.
          * inversion IH; subst. reflexivity.
          * inversion IH as [E]. simpl. rewrite <- E. reflexivity.
        + change (map_res (bind_with al eb) (URaw s :: UTag q a hc ctx :: r)) with
            (match map_res (bind_with al eb) (UTag q a hc ctx :: r) with
             | inl e => inl e | inr ys => inr (BRaw s :: ys) end).
          rewrite IH. revert IH. destruct (map_res (bind_with al eb) l) as [e|ys]; intros IH; simpl; [reflexivity|].
          f_equal.
          (* the head of bmerge ys is the bound tag: not a raw text *)
          assert (Hd : exists b zs, bmerge ys = b :: zs /\ not_raw b).
          { revert IH. rewrite (map_res_cons (bind_with al eb) (UTag q a hc ctx) r).
            destruct (bind_with al eb (UTag q a hc ctx)) as [e|b] eqn:B; [intros IH; discriminate|].
            destruct (map_res (bind_with al eb) r) as [e|zs]; [intros IH; discriminate|]. intros IH.
            inversion IH as [E]. exists b, zs. split; [reflexivity|]. exact (bind_tag_not_raw _ _ _ _ _ B). }
          destruct Hd as (b & zs & E & Nb). rewrite E.
          destruct b as [s0| |]; [exfalso; exact (Nb s0 eq_refl)|reflexivity|reflexivity].
      - change (merge_raw (UTag q a hc ctx :: l)) with (UTag q a hc ctx :: merge_raw l).
        change (map_res (bind_with al eb) (UTag q a hc ctx :: merge_raw l)) with
          (match bind_with al eb (UTag q a hc ctx) with
           | inl e => inl e
           | inr y => match map_res (bind_with al eb) (merge_raw l) with
                      | inl e => inl e | inr ys => inr (y :: ys) end
           end).
        change (map_res (bind_with al eb) (UTag q a hc ctx :: l)) with
          (match bind_with al eb (UTag q a hc ctx) with
           | inl e => inl e
           | inr y => match map_res (bind_with al eb) l with
                      | inl e => inl e | inr ys => inr (y :: ys) end
           end).
        rewrite IH. destruct (bind_with al eb (UTag q a hc ctx)) as [e|b] eqn:B; [reflexivity|].
        destruct (map_res (bind_with al eb) l) as [e|ys]; cbn [res_map]; [reflexivity|].
        rewrite (bmerge_cons_not_raw state b ys (bind_tag_not_raw _ _ _ _ _ B)). reflexivity.
    Qed.

    Lemma map_res_map_norm l :
      Forall (fun t => bind_with al eb (norm_el t) = res_map bnorm_el (bind_with al eb t)) l ->
      map_res (bind_with al eb) (map norm_el l) = res_map (map bnorm_el) (map_res (bind_with al eb) l).
    Proof.
      induction 1 as [|t l Ht Hl IH]; [reflexivity|].
      cbn [map]. simpl map_res. rewrite Ht, IH.
      destruct (bind_with al eb t); simpl; [reflexivity|].
      destruct (map_res (bind_with al eb) l); reflexivity.
    Qed.

    Lemma bind_norm_list l :
      Forall (fun t => bind_with al eb (norm_el t) = res_map bnorm_el (bind_with al eb t)) l ->
      map_res (bind_with al eb) (merge_raw (map norm_el l)) = res_map bnorm (map_res (bind_with al eb) l).
    Proof.
      intros F. rewrite bind_merge_raw, (map_res_map_norm l F).
      destruct (map_res (bind_with al eb) l); reflexivity.
    Qed.

    Lemma bind_norm_el : forall t, bind_with al eb (norm_el t) = res_map bnorm_el (bind_with al eb t).
    Proof.
      induction t as [s|q a hc ctx IH] using utree_ind'; [reflexivity|].
      pose proof (bind_norm_list ctx IH) as HC.
      cbn [norm_el]. simpl. destruct (get reg q) as [f| | | |]; try reflexivity.
      destruct (alias_find f al) as [body|].
      - destruct (eb body); [reflexivity|]. destruct (no_args a); [destruct hc|]; reflexivity.
      - destruct (tag_check f a hc); [|reflexivity]. destruct hc; [|reflexivity].
        change (Alias.bind_with state reg tag_check tag_init al eb) with (bind_with al eb).
        rewrite HC. destruct (map_res (bind_with al eb) ctx); reflexivity.
    Qed.
  End Norm.

  Theorem bind_norm fuel al p : bind_list fuel al (norm p) = res_map bnorm (bind_list fuel al p).
  Proof.
    unfold bind_list, bind_el, norm. apply bind_norm_list. apply Forall_forall. intros t _. apply bind_norm_el.
  Qed.
End Binder.

(* ====================================================================================== *)
(* 2'. merging is invisible to the name renderer                                             *)
(* ====================================================================================== *)

Section RenderNorm.
  Variable state : Type.
  Variable file : Type.
  Variable sem : fid -> targs -> state -> file -> option str -> tout * state.
  Variable fl : file.

  Notation render_el := (render_el state file sem fl).
  Notation fold := (fold_pieces state (conv_str state) render_el).

  Lemma render_not_raw b : not_raw b -> not_raw (snd (render_el b)).
  Proof.
    intros H s. destruct b as [s0|f a st hc ctx|body]; [exfalso; exact (H s0 eq_refl)| |].
    - cbn [Alias.render_el]. destruct hc.
      + destruct (fold_pieces state (conv_str state) render_el ctx) as [[e|c] ctx']; [discriminate|].
        destruct (sem f a st fl (Some c)) as [o st']. discriminate.
      + destruct (sem f a st fl None) as [o st']. discriminate.
    - cbn [Alias.render_el].
      destruct (fold_pieces state (conv_str state) render_el body) as [[e|c] body']; discriminate.
  Qed.

  Lemma fold_cons b l :
    fold (b :: l) =
    match render_el b with
    | (inl e, b') => (inl e, b' :: l)
    | (inr v, b') => match fold l with
                     | (inl e, l') => (inl e, b' :: l')
                     | (inr s, l') => (inr (py_str v ++ s), b' :: l')
                     end
    end.
  Proof. reflexivity. Qed.

  Lemma fold_raw s l :
    fold (BRaw s :: l) =
    match fold l with
    | (inl e, l') => (inl e, BRaw s :: l')
    | (inr t, l') => (inr (s ++ t), BRaw s :: l')
    end.
  Proof. reflexivity. Qed.

  Lemma fold_head b l : exists rest, snd (fold (b :: l)) = snd (render_el b) :: rest.
  Proof.
    rewrite fold_cons. destruct (render_el b) as [[e|v] b']; [eexists; reflexivity|].
    destruct (fold l) as [[e|s] l']; eexists; reflexivity.
  Qed.

  Lemma fold_bmerge : forall l, fold (bmerge l) = (fst (fold l), bmerge (snd (fold l))).
  Proof.
    induction l as [|b l IH]; [reflexivity|].
    destruct b as [s|f a st hc ctx|body].
    - change (bmerge (BRaw s :: l)) with
        (match bmerge l with BRaw s' :: r => BRaw (s ++ s') :: r | r => BRaw s :: r end).
      rewrite (fold_raw s l). revert IH. destruct (fold l) as [r0 l'']. cbn [fst snd].
      destruct (bmerge l) as [|b1 r]; intros IH.
      + cbn in IH. inversion IH as [[E1 E2]].
        destruct r0 as [e|t]; [discriminate|]. inversion E1; subst t.
        cbn [fst snd]. change (bmerge (BRaw s :: l'')) with
          (match bmerge l'' with BRaw s' :: r => BRaw (s ++ s') :: r | r => BRaw s :: r end).
        rewrite <- E2. reflexivity.
      + destruct b1 as [s'|f a st hc ctx|body].
        * rewrite fold_raw in IH. rewrite fold_raw. revert IH.
          destruct (fold r) as [[e|t] r']; intros IH.
          -- inversion IH as [[E1 E2]]. cbn [fst snd].
             change (bmerge (BRaw s :: l'')) with
               (match bmerge l'' with BRaw s' :: r => BRaw (s ++ s') :: r | r => BRaw s :: r end).
             rewrite <- E2. reflexivity.
          -- inversion IH as [[E1 E2]]. cbn [fst snd].
             change (bmerge (BRaw s :: l'')) with
               (match bmerge l'' with BRaw s' :: r => BRaw (s ++ s') :: r | r => BRaw s :: r end).
             rewrite <- E2, app_assoc. reflexivity.
        * assert (Nb : not_raw (BTag f a st hc ctx)) by (intros s0; discriminate).
          destruct (fold_head (BTag f a st hc ctx) r) as [rest Hh].
          rewrite IH in Hh. cbn [snd] in Hh. pose proof (render_not_raw _ Nb) as Nb'.
          rewrite fold_raw, IH.
          destruct r0 as [e|t]; cbn [fst snd];
            change (bmerge (BRaw s :: l'')) with
              (match bmerge l'' with BRaw s' :: r => BRaw (s ++ s') :: r | r => BRaw s :: r end);
            rewrite Hh; (destruct (snd (render_el (BTag f a st hc ctx))) as [s0| |];
              [exfalso; exact (Nb' s0 eq_refl)|reflexivity|reflexivity]).
        * assert (Nb : not_raw (@BAlias state body)) by (intros s0; discriminate).
          destruct (fold_head (BAlias body) r) as [rest Hh].
          rewrite IH in Hh. cbn [snd] in Hh. pose proof (render_not_raw _ Nb) as Nb'.
          rewrite fold_raw, IH.
          destruct r0 as [e|t]; cbn [fst snd];
            change (bmerge (BRaw s :: l'')) with
              (match bmerge l'' with BRaw s' :: r => BRaw (s ++ s') :: r | r => BRaw s :: r end);
            rewrite Hh; (destruct (snd (render_el (BAlias body))) as [s0| |];
              [exfalso; exact (Nb' s0 eq_refl)|reflexivity|reflexivity]).
    - assert (Nb : not_raw (BTag f a st hc ctx)) by (intros s0; discriminate).
      rewrite (bmerge_cons_not_raw state _ l Nb), !fold_cons, IH.
      pose proof (render_not_raw _ Nb) as Nb'.
      destruct (render_el (BTag f a st hc ctx)) as [[e|v] b']; cbn [snd] in Nb'.
      + cbn [fst snd]. rewrite (bmerge_cons_not_raw state _ l Nb'). reflexivity.
      + destruct (fold l) as [[e|t] l']; cbn [fst snd]; rewrite (bmerge_cons_not_raw state _ l' Nb'); reflexivity.
    - assert (Nb : not_raw (@BAlias state body)) by (intros s0; discriminate).
      rewrite (bmerge_cons_not_raw state _ l Nb), !fold_cons, IH.
      pose proof (render_not_raw _ Nb) as Nb'.
      destruct (render_el (BAlias body)) as [[e|v] b']; cbn [snd] in Nb'.
      + cbn [fst snd]. rewrite (bmerge_cons_not_raw state _ l Nb'). reflexivity.
      + destruct (fold l) as [[e|t] l']; cbn [fst snd]; rewrite (bmerge_cons_not_raw state _ l' Nb'); reflexivity.
  Qed.

  Definition norm_el_stmt (b : btree state) : Prop :=
    render_el (bnorm_el b) = (fst (render_el b), bnorm_el (snd (render_el b))).

  Lemma fold_map_bnorm l :
    Forall norm_el_stmt l -> fold (map bnorm_el l) = (fst (fold l), map bnorm_el (snd (fold l))).
  Proof.
    induction 1 as [|b l Hb Hl IH]; [reflexivity|].
    cbn [map]. rewrite !fold_cons. red in Hb. rewrite Hb, IH.
    destruct (render_el b) as [[e|v] b']; [reflexivity|].
    destruct (fold l) as [[e|t] l']; reflexivity.
  Qed.

  Lemma render_bnorm_el : forall b, norm_el_stmt b.
  Proof.
    induction b as [s|f a st hc ctx IH|body IH] using btree_ind'; red; [reflexivity| |].
    2:{ cbn [bnorm_el Alias.render_el].
        destruct (fold_pieces state (conv_str state) render_el body) as [[e|c] body']; reflexivity. }
    cbn [bnorm_el Alias.render_el]. destruct hc.
    - rewrite fold_bmerge, (fold_map_bnorm ctx IH).
      destruct (fold_pieces state (conv_str state) render_el ctx) as [[e|c] ctx']; cbn [fst snd]; [reflexivity|].
      destruct (sem f a st fl (Some c)) as [o st']. reflexivity.
    - destruct (sem f a st fl None) as [o st']. reflexivity.
  Qed.

  Theorem render_bnorm l :
    render_list state file sem fl (bnorm l) =
    (fst (render_list state file sem fl l), bnorm (snd (render_list state file sem fl l))).
  Proof.
    unfold render_list, bnorm. rewrite fold_bmerge, fold_map_bnorm; [reflexivity|].
    apply Forall_forall. intros b _. apply render_bnorm_el.
  Qed.
End RenderNorm.

(* ====================================================================================== *)
(* 3. instantiation commutes with flattening and merging                                    *)
(* ====================================================================================== *)

Lemma inst_flat_map l :
  Forall (fun b => map inst_el (flatten_el unit b) = flatten_el tstate (inst_el b)) l ->
  map inst_el (flat_map (flatten_el unit) l) = flat_map (flatten_el tstate) (map inst_el l).
Proof.
  induction 1 as [|b l Hb Hl IH]; [reflexivity|]. cbn [flat_map map]. rewrite map_app, Hb, IH. reflexivity.
Qed.

Lemma inst_flatten_el : forall b, map inst_el (flatten_el unit b) = flatten_el tstate (inst_el b).
Proof.
  induction b as [s|f a st hc ctx IH|body IH] using btree_ind'; [reflexivity| |].
  - cbn [flatten_el inst_el map]. rewrite (inst_flat_map ctx IH). reflexivity.
  - cbn [flatten_el inst_el]. apply inst_flat_map. exact IH.
Qed.

Lemma instantiate_flatten b : instantiate (flatten unit b) = flatten tstate (instantiate b).
Proof.
  unfold instantiate, flatten. apply inst_flat_map. apply Forall_forall. intros x _. apply inst_flatten_el.
Qed.

Lemma inst_bmerge : forall l, map inst_el (bmerge l) = bmerge (map inst_el l).
Proof.
  induction l as [|b l IH]; [reflexivity|].
  destruct b as [s|f a st hc ctx|body].
  - change (bmerge (BRaw s :: l)) with
      (match bmerge l with BRaw s' :: r => BRaw (s ++ s') :: r | r => BRaw s :: r end).
    change (bmerge (map inst_el (BRaw s :: l))) with
      (match bmerge (map inst_el l) with BRaw s' :: r => BRaw (s ++ s') :: r | r => BRaw s :: r end).
    rewrite <- IH. destruct (bmerge l) as [|[s'|f a st hc ctx|body] r]; reflexivity.
  - change (bmerge (BTag f a st hc ctx :: l)) with (BTag f a st hc ctx :: bmerge l).
    cbn [map inst_el]. rewrite IH. reflexivity.
  - change (bmerge (BAlias body :: l)) with (BAlias body :: bmerge l).
    cbn [map inst_el]. rewrite IH. reflexivity.
Qed.

Lemma inst_bnorm_el : forall b, inst_el (bnorm_el b) = bnorm_el (inst_el b).
Proof.
  induction b as [s|f a st hc ctx IH|body IH] using btree_ind'; [reflexivity| |reflexivity].
  cbn [bnorm_el inst_el]. rewrite inst_bmerge, !map_map. f_equal. f_equal.
  apply map_ext_in. intros x Hx. rewrite Forall_forall in IH. exact (IH x Hx).
Qed.

Lemma instantiate_bnorm b : instantiate (bnorm b) = bnorm (instantiate b).
Proof.
  unfold instantiate, bnorm. rewrite inst_bmerge, !map_map. f_equal.
  apply map_ext. intros x. apply inst_bnorm_el.
Qed.

(* ====================================================================================== *)
(* 4. the program                                                                            *)
(* ====================================================================================== *)

Section WholeAlias.
  Variables upper lower : str -> str.

  Lemma render_all_flatten : forall files b,
    render_all upper lower (flatten tstate b) files = render_all upper lower b files.
  Proof.
    induction files as [|f files IH]; intros b; [reflexivity|].
    cbn [render_all]. unfold render_one. rewrite render_flatten.
    destruct (render_list tstate pfile (core_sem upper lower) f b) as [r b']. cbn [fst snd]. rewrite IH. reflexivity.
  Qed.

  Lemma render_all_bnorm : forall files b,
    render_all upper lower (bnorm b) files = render_all upper lower b files.
  Proof.
    induction files as [|f files IH]; intros b; [reflexivity|].
    cbn [render_all]. unfold render_one. rewrite render_bnorm.
    destruct (render_list tstate pfile (core_sem upper lower) f b) as [r b']. cbn [fst snd]. rewrite IH. reflexivity.
  Qed.

  (* two compiled templates that differ by flattening alias instances and merging raw texts give one plan *)
  Lemma same_plan b b' o dirs s :
    bnorm b' = bnorm (flatten unit b) ->
    whole_plan upper lower b' o dirs s = whole_plan upper lower b o dirs s.
  Proof.
    intros E. unfold whole_plan.
    rewrite <- (render_all_bnorm _ (instantiate b')), <- instantiate_bnorm, E, instantiate_bnorm,
      render_all_bnorm, instantiate_flatten, render_all_flatten.
    reflexivity.
  Qed.

  Lemma args_ok_text s t t' dirs : (t = [] <-> t' = []) -> args_ok s t dirs = args_ok s t' dirs.
  Proof.
    intros [H1 H2]. unfold args_ok. destruct t as [|c t]; destruct t' as [|c' t']; try reflexivity.
    - specialize (H1 eq_refl). discriminate.
    - specialize (H2 eq_refl). discriminate.
  Qed.

  (* what [compile] gives for the inlined text *)
  Theorem compile_inlined R host host' h h' hu :
    parse host = Ok h -> parse host' = Ok h' ->
    inline_list (tr_names R) (tr_depth R) (aliases_of R) (upat_of h) = Some hu ->
    norm (upat_of h') = norm hu ->
    match compile R host with
    | inl b => exists b', compile R host' = inl b' /\ bnorm b' = bnorm (flatten unit b)
    | inr e => exists e', compile R host' = inr e' /\ exc_of_error e' = exc_of_error e
    end.
  Proof.
    intros P P' I N. unfold compile. rewrite P, P'. unfold bind_pat.
    set (BL := bind_list unit (tr_names R) (class_check R) (fun _ _ => tt)).
    assert (K : res_map bnorm (BL (tr_depth R) (aliases_of R) (upat_of h')) =
                res_map bnorm (res_map (flatten unit) (BL (tr_depth R) (aliases_of R) (upat_of h)))).
    { unfold BL. rewrite <- (bind_norm unit), N, (bind_norm unit).
      rewrite (inline_binds_without_aliases unit _ _ _ _ _ _ _ I (tr_depth R)).
      rewrite (bind_inline unit _ _ _ _ _ _ _ I). reflexivity. }
    destruct (BL (tr_depth R) (aliases_of R) (upat_of h)) as [e|b];
      destruct (BL (tr_depth R) (aliases_of R) (upat_of h')) as [e'|b']; simpl in K; try discriminate.
    - inversion K; subst. eexists; split; reflexivity.
    - injection K as E. exists b'. split; [reflexivity|exact E].
  Qed.

  (* C15 for the program *)
  Theorem whole_alias_inline R o host host' h h' hu dirs s :
    parse host = Ok h -> parse host' = Ok h' ->
    inline_list (tr_names R) (tr_depth R) (aliases_of R) (upat_of h) = Some hu ->
    norm (upat_of h') = norm hu ->
    (host = [] <-> host' = []) ->
    tempren_main upper lower R o host dirs s = tempren_main upper lower R o host' dirs s.
  Proof.
    intros P P' I N Em. pose proof (compile_inlined R host host' h h' hu P P' I N) as C.
    unfold tempren_main. rewrite (args_ok_text s host host' dirs Em).
    destruct (negb (args_ok s host' dirs)); [reflexivity|].
    destruct (no_gatherers o s dirs); [reflexivity|].
    destruct (compile R host) as [b|e].
    - destruct C as (b' & -> & E). rewrite (same_plan b b' o dirs s E). reflexivity.
    - destruct C as (e' & -> & _). reflexivity.
  Qed.
End WholeAlias.

(* ---------- example data (Properties/C15.v): the core library with two aliases ------------------------ *)
(*   Alias.N = a%Count()b     Alias.E = (the empty text)                                                  *)
Definition s_Alias : str := [65; 108; 105; 97; 115].
Definition ex_alias_rows : list row :=
  core_rows ++ [ ((s_Alias, [78], 20), KAlias [97; 37; 67; 111; 117; 110; 116; 40; 41; 98]);
                 ((s_Alias, [69], 21), KAlias []) ].
Definition ex_alias_reg : tagreg :=
  match tagreg_of_rows core_depth ex_alias_rows with Some R => R | None => core_reg end.
(* x%N()y%Alias.N()  and the same with the pattern written in place: xa%Count()bya%Count()b *)
Definition t_alias_host : str := [120; 37; 78; 40; 41; 121; 37; 65; 108; 105; 97; 115; 46; 78; 40; 41].
Definition t_alias_inlined : str :=
  [120; 97; 37; 67; 111; 117; 110; 116; 40; 41; 98; 121; 97; 37; 67; 111; 117; 110; 116; 40; 41; 98].
(* %E() *)
Definition t_alias_empty : str := [37; 69; 40; 41].
