(* A concrete tree, options and template texts for the non-vacuity examples of the whole-program   *)
(* theorems (Properties/C01.v, C09.v, C16.v, C17.v).  Model only - no proofs in this file.          *)
From Tempren Require Import Base.Str Py.PathLib FS.Model Pipe.Pipeline Pipe.FrontCompile.
From Tempren Require Import Whole.Library Whole.Render Whole.Gather Whole.Main.
Open Scope N_scope.

(*  in/            in/b.t  in/a.t  in/.h  in/s/  in/s/c  in/s/d.t   other/  other/z          *)
Definition ex_in : name := [105; 110].
Definition ex_tree : fs :=
  [ ([ex_in], NDir);
    ([ex_in; [98; 46; 116]], NFile 1);
    ([ex_in; [97; 46; 116]], NFile 2);
    ([ex_in; [46; 104]], NFile 3);
    ([ex_in; [115]], NDir);
    ([ex_in; [115]; [99]], NFile 4);
    ([ex_in; [115]; [100; 46; 116]], NFile 5);
    ([[111; 116; 104; 101; 114]], NDir);
    ([[111; 116; 104; 101; 114]; [122]], NFile 6) ].

Definition ex_dirs : list rpath := [[ex_in]].

Definition ex_options (m : mode) (recursive sort : bool) : options :=
  {| o_mode := m; o_strategy := Stop; o_dry := false; o_recursive := recursive; o_include_hidden := false;
     o_sort_name := sort; o_answers := []; o_fault := None; o_listing := fun l => l; o_cwd := [] |}.

(* the listing reversed: another order the operating system may hand out *)
Definition ex_options_rev (m : mode) (recursive sort : bool) : options :=
  {| o_mode := m; o_strategy := Stop; o_dry := false; o_recursive := recursive; o_include_hidden := true;
     o_sort_name := sort; o_answers := []; o_fault := None; o_listing := @rev pfile; o_cwd := [] |}.

Definition ex_main := tempren_main ascii_upper_str ascii_lower_str core_reg.

(* %Upper{%Base()}_%Count(start=3,step=2)%Ext() *)
Definition t_upper_count : str :=
  [37; 85; 112; 112; 101; 114; 123; 37; 66; 97; 115; 101; 40; 41; 125; 95; 37; 67; 111; 117; 110; 116; 40;
   115; 116; 97; 114; 116; 61; 51; 44; 115; 116; 101; 112; 61; 50; 41; 37; 69; 120; 116; 40; 41].
(* %Count(start=5,step=-2,width=3) *)
Definition t_count_down : str :=
  [37; 67; 111; 117; 110; 116; 40; 115; 116; 97; 114; 116; 61; 53; 44; 115; 116; 101; 112; 61; 45; 50; 44;
   119; 105; 100; 116; 104; 61; 51; 41].
(* %Count() *)
Definition t_count : str := [37; 67; 111; 117; 110; 116; 40; 41].
(* %Nme()   - no such tag *)
Definition t_unknown_tag : str := [37; 78; 109; 101; 40; 41].
(* %Upper() - the context is missing *)
Definition t_no_context : str := [37; 85; 112; 112; 101; 114; 40; 41].
(* %Name(   - does not parse *)
Definition t_open_paren : str := [37; 78; 97; 109; 101; 40].
(* x        - every file gets the same name *)
Definition t_x : str := [120].
(* %Base()|%Trim(2,right)|%Pad(5,'x',right)|%Upper()   - text tags with arguments, piped *)
Definition t_trim_pad : str :=
  [37; 66; 97; 115; 101; 40; 41; 124; 37; 84; 114; 105; 109; 40; 50; 44; 114; 105; 103; 104; 116; 41; 124; 37; 80; 97; 100; 40; 53; 44; 39; 120; 39; 44; 114; 105; 103; 104; 116; 41; 124; 37; 85; 112; 112; 101; 114; 40; 41].
