(* The CORE tag library of the whole-program model: a concrete instance of the abstract tag      *)
(* semantics of Tpl/Alias.v ([sem] / [tag_init]) and of the compiler's registry value            *)
(* ([tagreg] of Pipe/FrontCompile.v) for                                                         *)
(*   Core.Name  Core.Base  Core.Ext  Core.Dir   (tempren/tags/core.py; values: Py/PathLib.v)      *)
(*   Core.Count                                 (tempren/tags/core.py; state machine: Tags/Count.v) *)
(*   Text.Upper Text.Lower                      (tempren/tags/text.py: context.upper() / .lower()) *)
(*   Text.Trim Text.Pad Text.Strip Text.Collapse Text.SplitCase                                   *)
(*                                              (tempren/tags/text.py; functions: Tags/TextTags.v) *)
(* Every other tag is "not in the core library": it has no row in [core_rows], so a template     *)
(* that mentions it does not compile against [core_reg].                                         *)
(* The case maps are Section variables (str.upper / str.lower are Unicode tables, and not        *)
(* character-wise); [ascii_upper_str] / [ascii_lower_str] are the instances used for computation *)
(* (they agree with CPython on ASCII strings).                                                   *)
(* Model only - no proofs in this file.                                                          *)
From Tempren Require Import Base.Str Py.PathLib Py.Repr Tags.Count.
From Tempren Require Import Tpl.Registry Tpl.Signature Tpl.Alias.
From Tempren Require Import FS.Model Pipe.Pipeline Pipe.FrontCompile.
From Tempren Require Tags.TextTags.
Open Scope N_scope.

(* ---------- names ---------------------------------------------------------------------------- *)
Definition s_Core : str := [67; 111; 114; 101].
Definition s_Text : str := [84; 101; 120; 116].
Definition s_Name : str := [78; 97; 109; 101].
Definition s_Base : str := [66; 97; 115; 101].
Definition s_Ext : str := [69; 120; 116].
Definition s_Dir : str := [68; 105; 114].
Definition s_Count : str := [67; 111; 117; 110; 116].
Definition s_Upper : str := [85; 112; 112; 101; 114].
Definition s_Lower : str := [76; 111; 119; 101; 114].
Definition s_start : str := [115; 116; 97; 114; 116].
Definition s_step : str := [115; 116; 101; 112].
Definition s_width : str := [119; 105; 100; 116; 104].
Definition s_common : str := [99; 111; 109; 109; 111; 110].
Definition s_int : str := [105; 110; 116].
Definition s_bool : str := [98; 111; 111; 108].
Definition s_Trim : str := [84; 114; 105; 109].
Definition s_Pad : str := [80; 97; 100].
Definition s_Strip : str := [83; 116; 114; 105; 112].
Definition s_Collapse : str := [67; 111; 108; 108; 97; 112; 115; 101].
Definition s_SplitCase : str := [83; 112; 108; 105; 116; 67; 97; 115; 101].
Definition s_left : str := [108; 101; 102; 116].
Definition s_right : str := [114; 105; 103; 104; 116].
Definition s_character : str := [99; 104; 97; 114; 97; 99; 116; 101; 114].
Definition s_strip_characters : str := [115; 116; 114; 105; 112; 95; 99; 104; 97; 114; 97; 99; 116; 101; 114; 115].
Definition s_characters : str := [99; 104; 97; 114; 97; 99; 116; 101; 114; 115].
Definition s_separator : str := [115; 101; 112; 97; 114; 97; 116; 111; 114].
Definition s_str : str := [115; 116; 114].
Definition s_False : str := [70; 97; 108; 115; 101].
Definition s_space_repr : str := [39; 32; 39].        (* ' ' *)

(* factory ids *)
Definition fid_Name : fid := 0.
Definition fid_Base : fid := 1.
Definition fid_Ext : fid := 2.
Definition fid_Dir : fid := 3.
Definition fid_Count : fid := 4.
Definition fid_Upper : fid := 5.
Definition fid_Lower : fid := 6.
Definition fid_Trim : fid := 7.
Definition fid_Pad : fid := 8.
Definition fid_Strip : fid := 9.
Definition fid_Collapse : fid := 10.
Definition fid_SplitCase : fid := 11.

(* ---------- Count: configure(start: int = 0, step: int = 1, width: int = 0, common: bool = False) ---- *)

Fixpoint kw_find (k : str) (l : list (str * argval)) : option argval :=
  match l with
  | [] => None
  | (k', v) :: l' => if str_eqb k' k then Some v else kw_find k l'
  end.

(* the value bound to the i-th positional-or-keyword formal named k, if the call supplies one *)
Definition arg_at (i : nat) (k : str) (a : targs) : option argval :=
  match nth_error (a_pos a) i with
  | Some v => Some v
  | None => kw_find k (a_kw a)
  end.

(* an int argument; Python's bool is an int.  A str is outside the modelled argument family: the
   comparisons of configure raise TypeError on it (start, width) - refused here for all three *)
Definition arg_int (v : argval) : option Z :=
  match v with
  | AInt z => Some z
  | ABool b => Some (if b then 1 else 0)%Z
  | AStr _ => None
  end.

(* `if common:` *)
Definition arg_truthy (v : argval) : bool :=
  match v with
  | AInt z => negb (z =? 0)%Z
  | ABool b => b
  | AStr s => match s with [] => false | _ => true end
  end.

Definition int_arg (i : nat) (k : str) (dflt : Z) (a : targs) : option Z :=
  match arg_at i k a with
  | None => Some dflt
  | Some v => arg_int v
  end.

Definition count_cfg_of (a : targs) : option count_cfg :=
  match int_arg 0 s_start 0 a, int_arg 1 s_step 1 a, int_arg 2 s_width 0 a with
  | Some st, Some sp, Some w =>
    Some {| cc_start := st; cc_step := sp; cc_width := w;
            cc_common := match arg_at 3 s_common a with Some v => arg_truthy v | None => false end |}
  | _, _, _ => None
  end.

(* the verdict of configure's own body *)
Definition count_accepts (a : targs) : bool :=
  match count_cfg_of a with
  | Some c => count_configure_ok c
  | None => false
  end.

Definition count_sig : Signature.sig :=
  {| s_pos := [ {| p_name := s_start; p_ann := s_int; p_dflt := Some [48] |};
                {| p_name := s_step; p_ann := s_int; p_dflt := Some [49] |};
                {| p_name := s_width; p_ann := s_int; p_dflt := Some [48] |};
                {| p_name := s_common; p_ann := s_bool; p_dflt := Some [70; 97; 108; 115; 101] |} ];
     s_varpos := None; s_kwonly := []; s_varkw := None |}.


(* ---------- the text tags with arguments (tempren/tags/text.py) ---------------------------------------- *)
(* The template language supplies int, str and bool values and configure does not check types, so each    *)
(* formal is read the way the Python code uses the value:                                                 *)
(*   a flag (left, right)      by its truth value (`if self.left`, `left or right`);                      *)
(*   an int (width)            bool is an int; a str passes Trim's `width != 0` and fails in process      *)
(*                             (TypeError of the slice), it fails Pad's `width > 0` in configure;         *)
(*   a str (characters ...)    an int/bool fails where a str operation is applied to it: in configure for *)
(*                             Pad (len) and Collapse (re.escape), in process for Strip and - when there  *)
(*                             is a case boundary to fill - SplitCase.                                    *)
(* Any exception of configure is a ConfigurationError of the compiler ([accepts] = false); an exception   *)
(* of process leaves the pipeline as it is (ExOther).                                                     *)

Definition flag_arg (i : nat) (k : str) (a : targs) : bool :=
  match arg_at i k a with Some v => arg_truthy v | None => false end.

Definition flag_sig_param (k : str) : param := {| p_name := k; p_ann := s_bool; p_dflt := Some s_False |}.

(* Trim.configure(width: int, left: bool = False, right: bool = False) *)
Definition trim_sig : Signature.sig :=
  {| s_pos := [ {| p_name := s_width; p_ann := s_int; p_dflt := None |}; flag_sig_param s_left; flag_sig_param s_right ];
     s_varpos := None; s_kwonly := []; s_varkw := None |}.

(* `width != 0` *)
Definition arg_nonzero (v : argval) : bool :=
  match v with
  | AInt z => negb (z =? 0)%Z
  | ABool b => b
  | AStr _ => true
  end.

Definition trim_accepts (a : targs) : bool :=
  match arg_at 0 s_width a with
  | Some v => arg_nonzero v && negb (flag_arg 1 s_left a && flag_arg 2 s_right a)
              && (flag_arg 1 s_left a || flag_arg 2 s_right a)
  | None => false                       (* unreachable: the binding demands width *)
  end.

(* Pad.configure(width: int, character: str = ' ', left: bool = False, right: bool = False) *)
Definition pad_sig : Signature.sig :=
  {| s_pos := [ {| p_name := s_width; p_ann := s_int; p_dflt := None |};
                {| p_name := s_character; p_ann := s_str; p_dflt := Some s_space_repr |};
                flag_sig_param s_left; flag_sig_param s_right ];
     s_varpos := None; s_kwonly := []; s_varkw := None |}.

(* a str argument with default " "; None: the value supplied is not a str *)
Definition str_arg (i : nat) (k : str) (a : targs) : option str :=
  match arg_at i k a with
  | None => Some [32]
  | Some (AStr t) => Some t
  | Some _ => None
  end.

Definition pad_accepts (a : targs) : bool :=
  match arg_at 0 s_width a, str_arg 1 s_character a with
  | Some v, Some ch =>
    match arg_int v with
    | Some w => TextTags.pad_cfg_ok w ch (flag_arg 2 s_left a) (flag_arg 3 s_right a)
    | None => false                     (* str > 0: TypeError *)
    end
  | _, _ => false                       (* len(int): TypeError *)
  end.

(* Strip.configure(strip_characters: str = ' ', left: bool = False, right: bool = False) *)
Definition strip_sig : Signature.sig :=
  {| s_pos := [ {| p_name := s_strip_characters; p_ann := s_str; p_dflt := Some s_space_repr |};
                flag_sig_param s_left; flag_sig_param s_right ];
     s_varpos := None; s_kwonly := []; s_varkw := None |}.

(* Collapse.configure(characters: str = " ") *)
Definition collapse_sig : Signature.sig :=
  {| s_pos := [ {| p_name := s_characters; p_ann := s_str; p_dflt := Some s_space_repr |} ];
     s_varpos := None; s_kwonly := []; s_varkw := None |}.

(* re.compile of a character class: the empty class "[]" is not a regular expression; re.escape of an int fails *)
Definition collapse_accepts (a : targs) : bool :=
  match str_arg 0 s_characters a with
  | Some [] => false
  | Some _ => true
  | None => false
  end.

(* SplitCase.configure(separator: str = " "): `assert separator` *)
Definition splitcase_sig : Signature.sig :=
  {| s_pos := [ {| p_name := s_separator; p_ann := s_str; p_dflt := Some s_space_repr |} ];
     s_varpos := None; s_kwonly := []; s_varkw := None |}.

Definition splitcase_accepts (a : targs) : bool :=
  match arg_at 0 s_separator a with Some v => arg_truthy v | None => true end.

(* ---------- the registry rows --------------------------------------------------------------------- *)
(* require_context: None (optional) for the four path tags, False for Count, True for the text tags *)
Definition any_args (_ : targs) : bool := true.

Definition core_rows : list row :=
  [ ((s_Core, s_Name, fid_Name), KClass empty_sig None any_args);
    ((s_Core, s_Base, fid_Base), KClass empty_sig None any_args);
    ((s_Core, s_Ext, fid_Ext), KClass empty_sig None any_args);
    ((s_Core, s_Dir, fid_Dir), KClass empty_sig None any_args);
    ((s_Core, s_Count, fid_Count), KClass count_sig (Some false) count_accepts);
    ((s_Text, s_Upper, fid_Upper), KClass empty_sig (Some true) any_args);
    ((s_Text, s_Lower, fid_Lower), KClass empty_sig (Some true) any_args);
    ((s_Text, s_Trim, fid_Trim), KClass trim_sig (Some true) trim_accepts);
    ((s_Text, s_Pad, fid_Pad), KClass pad_sig (Some true) pad_accepts);
    ((s_Text, s_Strip, fid_Strip), KClass strip_sig (Some true) any_args);
    ((s_Text, s_Collapse, fid_Collapse), KClass collapse_sig (Some true) collapse_accepts);
    ((s_Text, s_SplitCase, fid_SplitCase), KClass splitcase_sig (Some true) splitcase_accepts) ].

Definition core_depth : nat := 20.

Definition core_reg : tagreg :=
  match tagreg_of_rows core_depth core_rows with
  | Some r => r
  | None => mkTagreg [] [] O          (* unreachable: Library facts prove the rows register *)
  end.

(* ---------- instance state and semantics ------------------------------------------------------------ *)

(* what one tag instance remembers between files: only Count has a state *)
Inductive tstate :=
| SNone
| SCount (c : count_cfg) (st : count_state).

Definition core_init (f : fid) (a : targs) : tstate :=
  if f =? fid_Count then
    match count_cfg_of a with
    | Some c => SCount c (count_init c)
    | None => SNone                    (* unreachable after a successful compile: configure refused *)
    end
  else SNone.

(* file.absolute_path.parent: the key of Count's per-directory counters *)
Definition file_dirkey (f : pfile) : dirkey := pf_dir f ++ removelast (pp_parts (pf_rel f)).

Definition count_value (o : count_out) : tout :=
  match o with
  | CInt v => OVal (VInt v)
  | CStr t => OVal (VStr t)
  | CRaise => ORaise Signature.ExOther           (* ValueError("Invalid counter value generated") *)
  end.

Definition ascii_upper_char (c : N) : N := if is_ascii_lower c then c - 32 else c.
Definition ascii_upper_str (s : str) : str := map ascii_upper_char s.
Definition ascii_lower_str (s : str) : str := Str.ascii_lower s.


(* process of the text tags with arguments, on a context *)
Definition text_sem (f : fid) (a : targs) (t : str) : tout :=
  if f =? fid_Trim then
    match arg_at 0 s_width a with
    | Some v =>
      match arg_int v with
      | Some w => OVal (VStr (TextTags.trim w (flag_arg 1 s_left a) t))
      | None => ORaise Signature.ExOther                   (* context[-"..":]: TypeError *)
      end
    | None => ORaise Signature.ExOther
    end
  else if f =? fid_Pad then
    match arg_at 0 s_width a, str_arg 1 s_character a with
    | Some v, Some ch =>
      match arg_int v with
      | Some w => OVal (VStr (TextTags.pad w (hd 32 ch) (flag_arg 2 s_left a) (flag_arg 3 s_right a) t))
      | None => ORaise Signature.ExOther
      end
    | _, _ => ORaise Signature.ExOther                     (* unreachable after a successful compile *)
    end
  else if f =? fid_Strip then
    match str_arg 0 s_strip_characters a with
    | Some set => OVal (VStr (TextTags.strip_tag set (flag_arg 1 s_left a) (flag_arg 2 s_right a) t))
    | None => ORaise Signature.ExOther                     (* context.strip(5): TypeError *)
    end
  else if f =? fid_Collapse then
    match str_arg 0 s_characters a with
    | Some set => OVal (VStr (TextTags.collapse set t))
    | None => ORaise Signature.ExOther                     (* unreachable after a successful compile *)
    end
  else if f =? fid_SplitCase then
    match str_arg 0 s_separator a with
    | Some sep => OVal (VStr (TextTags.split_case sep t))
    | None =>                                              (* str + int: TypeError, where a boundary is found *)
      if Nat.eqb (TextTags.boundaries t) 0 then OVal (VStr t) else ORaise Signature.ExOther
    end
  else ORaise Signature.ExOther.                           (* not in the core library *)

Section Sem.
  Variables upper lower : str -> str.      (* str.upper, str.lower *)

  (* process(file, context) of an instance of factory [f] in state [st] *)
  Definition core_sem (f : fid) (a : targs) (st : tstate) (fl : pfile) (ctx : option str) : tout * tstate :=
    if f =? fid_Name then (OVal (VStr (tag_name (pf_rel fl) ctx)), st)
    else if f =? fid_Base then (OVal (VStr (tag_base (pf_rel fl) ctx)), st)
    else if f =? fid_Ext then (OVal (VStr (tag_ext (pf_rel fl) ctx)), st)
    else if f =? fid_Dir then (OVal (VPath (pp_parent (tag_subject (pf_rel fl) ctx))), st)
    else if f =? fid_Count then
      match st with
      | SCount c cs => let '(o, cs') := count_process c cs (file_dirkey fl) in (count_value o, SCount c cs')
      | SNone => (ORaise Signature.ExOther, st)
      end
    else if f =? fid_Upper then
      match ctx with
      | Some t => (OVal (VStr (upper t)), st)
      | None => (ORaise Signature.ExOther, st)       (* assert context is not None - excluded by require_context *)
      end
    else if f =? fid_Lower then
      match ctx with
      | Some t => (OVal (VStr (lower t)), st)
      | None => (ORaise Signature.ExOther, st)
      end
    else
      match ctx with
      | Some t => (text_sem f a t, st)
      | None => (ORaise Signature.ExOther, st)
      end.
End Sem.
