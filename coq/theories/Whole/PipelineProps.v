(* Whole-program forms of the pipeline properties C04 (dry run touches nothing), C07 (unselected    *)
(* entries untouched), C06 (confinement), C05 (dry = real, name mode) and C03 (stop ends with a       *)
(* destination-exists error only on a real conflict): statements about [tempren_main] on a template   *)
(* TEXT, options, input directories and a tree.  The run-level theorems (Pipe/DryRun.v,               *)
(* Pipe/Unselected.v, Pipe/ConfinedOverride.v, Pipe/DryEqualsReal.v, Pipe/StrategyExact.v) are         *)
(* imported, not re-proved; this file derives their hypotheses about the plan for the plan the        *)
(* program builds itself: gather, order, render.                                                      *)
From Coq Require Import Permutation.
From Tempren Require Import Base.Str Py.PathLib Py.PathLibProofs.
From Tempren Require Import Tpl.Alias.
From Tempren Require Import FS.Model FS.Lemmas FS.PlainPaths FS.WfCheck.
From Tempren Require Import Pipe.Pipeline Pipe.Front Pipe.FrontCompile Pipe.Safety Pipe.PlanExact.
From Tempren Require Pipe.DryRun Pipe.Unselected Pipe.DryEqualsReal Pipe.ConfinedRun Pipe.ConfinedOverride
  Pipe.StrategyExact.
From Tempren Require Import Whole.Library Whole.Render Whole.Gather Whole.Main Whole.Facts Whole.Theorems
  Whole.CountWhole Whole.ExactWhole.
Open Scope N_scope.

(* ====================================================================================== *)
(* 0. the two ways [tempren_main] ends; the plan's files are gathered files                 *)
(* ====================================================================================== *)

(* the exceptions of the front end: argparse / ConfigurationError, ValueError, TemplateError *)
Definition front_exn (e : exn) : Prop := e = ExConfiguration \/ e = ExOther \/ e = ExTemplate.

Lemma front_exn_not_dest e : front_exn e -> e <> ExDestExists.
Proof. intros [->|[->| ->]]; discriminate. Qed.

Section Props.
  Variables upper lower : str -> str.

  (* either the front end refuses (nothing is run), or the run of the pipeline on the plan of the program *)
  Lemma tempren_main_cases R o text dirs s :
    (exists e, front_exn e /\ tempren_main upper lower R o text dirs s = failed e s) \/
    (exists b, compile R text = inl b /\
               tempren_main upper lower R o text dirs s =
               run (cfg_of_options o) (whole_plan upper lower b o dirs s) (o_cwd o) s).
  Proof.
    unfold tempren_main.
    destruct (negb (args_ok s text dirs)); [left; exists ExConfiguration; split; [left; reflexivity|reflexivity]|].
    destruct (no_gatherers o s dirs); [left; exists ExOther; split; [right; left; reflexivity|reflexivity]|].
    destruct (compile R text) as [b|e]; [|left; exists ExTemplate; split; [right; right; reflexivity|reflexivity]].
    destruct (wants_dirs (o_mode o) && o_sort_name o);
      [left; exists ExConfiguration; split; [left; reflexivity|reflexivity]|].
    destruct (o_sort_name o && negb (compiles R t_sort_name));
      [left; exists ExTemplate; split; [right; right; reflexivity|reflexivity]|].
    right. exists b. split; reflexivity.
  Qed.

  Lemma whole_plan_files b o dirs s : map fst (whole_plan upper lower b o dirs s) = processing_order o s dirs.
  Proof. apply render_all_files. Qed.

  Lemma whole_plan_gathered b o dirs s f r :
    permutes (o_listing o) -> In (f, r) (whole_plan upper lower b o dirs s) -> In f (gather_all o s dirs).
  Proof.
    intros P I. eapply Permutation_in; [symmetry; apply processing_order_perm; exact P|].
    rewrite <- (whole_plan_files b). apply in_map_iff. exists (f, r). split; [reflexivity|exact I].
  Qed.

  (* ====================================================================================== *)
  (* C04: a dry run touches nothing                                                           *)
  (* ====================================================================================== *)

  Theorem whole_dry_run_touches_nothing R o text dirs s :
    o_dry o = true ->
    let r := tempren_main upper lower R o text dirs s in
    r_calls r = [] /\ r_states r = [] /\ r_final r = s.
  Proof.
    intros D. cbv zeta.
    destruct (tempren_main_cases R o text dirs s) as [(e & _ & ->)|(b & _ & ->)].
    - cbn. repeat split; reflexivity.
    - destruct (DryRun.dry_run_touches_nothing (cfg_of_options o) (whole_plan upper lower b o dirs s) (o_cwd o) s D)
        as (A & B & C).
      repeat split; assumption.
  Qed.

  (* ====================================================================================== *)
  (* C07: unselected entries are untouched                                                    *)
  (* ====================================================================================== *)

  (* name and path mode: what is gathered are existing non-directories reached without links *)
  Lemma gather_all_files_ok o s dirs :
    tree_ok s -> o_mode o <> MDirectory -> Forall (name_file_ok s) (gather_all o s dirs).
  Proof.
    intros T M. unfold gather_all. apply Forall_forall. intros f I.
    apply in_flat_map in I as (d & Id & If).
    assert (Wd : wants_dirs (o_mode o) = false) by (destruct (o_mode o); [reflexivity|reflexivity|congruence]).
    destruct (chdir s d) as [p|] eqn:C.
    - rewrite (gather_input_some o s d p C) in If.
      assert (E : explicit_mode o = false) by (unfold explicit_mode; rewrite Wd; reflexivity).
      rewrite E in If.
      assert (G : Forall (name_file_ok s) (gather_fs s p (o_recursive o) (o_include_hidden o) (o_mode o))).
      { apply gather_fs_name_ok; [exact T|exact (chdir_found _ _ _ C)|exact Wd]. }
      rewrite Forall_forall in G. exact (G f If).
    - rewrite (gather_input_none o s d C) in If. destruct If.
  Qed.

  Lemma whole_plan_selected_ok_any b o dirs s :
    tree_ok s -> o_mode o <> MDirectory -> permutes (o_listing o) ->
    Unselected.selected_ok_any s (whole_plan upper lower b o dirs s).
  Proof.
    intros T M P. apply Forall_forall. intros [f r] I. cbn [fst].
    pose proof (gather_all_files_ok o s dirs T M) as G. rewrite Forall_forall in G.
    destruct (G f (whole_plan_gathered b o dirs s f r P I)) as (R0 & Cd & Dd & Sel & _).
    repeat split; assumption.
  Qed.

  Theorem whole_unselected_untouched R o text dirs s :
    tree_ok s -> o_mode o <> MDirectory -> no_override o -> permutes (o_listing o) ->
    forall k n, In (k, n) s -> (forall f, In f (gather_all o s dirs) -> src_key f <> k) ->
    let r := tempren_main upper lower R o text dirs s in
    forall s', In s' (r_final r :: s :: r_states r) -> lookup s' k = Some n.
  Proof.
    intros T M N P k n Hk Hu. cbv zeta. pose proof (tree_ok_WF _ T) as W.
    destruct (tempren_main_cases R o text dirs s) as [(e & _ & ->)|(b & _ & ->)].
    - cbn. intros s' [<-|[<-|[]]]; apply lookup_of_In; assumption.
    - apply Unselected.unselected_untouched_any_mode.
      + reflexivity.
      + exact W.
      + apply whole_plan_selected_ok_any; assumption.
      + exact N.
      + exact Hk.
      + intros f r I. apply Hu. exact (whole_plan_gathered b o dirs s f r P I).
  Qed.

  (* with override (the flag, or any answer at the prompt), name mode: additionally the entry is a directory or
     does not sit at the destination key of a rendered entry *)
  Theorem whole_unselected_untouched_override R o text dirs s :
    tree_ok s -> o_mode o = MName -> permutes (o_listing o) ->
    forall k n, In (k, n) s -> (forall f, In f (gather_all o s dirs) -> src_key f <> k) ->
    (is_dir_node n = true \/
     forall b f t, compile R text = inl b -> In (f, RText t) (whole_plan upper lower b o dirs s) -> dst_key f t <> k) ->
    let r := tempren_main upper lower R o text dirs s in
    forall s', In s' (r_final r :: s :: r_states r) -> lookup s' k = Some n.
  Proof.
    intros T M P k n Hk Hu Hd. cbv zeta. pose proof (tree_ok_WF _ T) as W.
    destruct (tempren_main_cases R o text dirs s) as [(e & _ & ->)|(b & C & ->)].
    - cbn. intros s' [<-|[<-|[]]]; apply lookup_of_In; assumption.
    - apply Unselected.unselected_untouched_override.
      + reflexivity.
      + exact W.
      + apply whole_plan_selected_ok_any; [exact T|rewrite M; discriminate|exact P].
      + cbn [c_mode cfg_of_options]. rewrite M. discriminate.
      + exact Hk.
      + intros f r I. apply Hu. exact (whole_plan_gathered b o dirs s f r P I).
      + destruct Hd as [Hd|Hd]; [left; exact Hd|right]. intros f t I. exact (Hd b f t C I).
  Qed.

  (* ====================================================================================== *)
  (* C06: confinement                                                                         *)
  (* ====================================================================================== *)

  (* the directory a gathered file is relative to: the real path of the input directory; in directory mode
     without -r (the input directories THEMSELVES are renamed) the real path of its parent *)
  Definition input_root (o : options) (s : fs) (d : rpath) : option rpath :=
    match chdir s d with
    | Some p =>
      if explicit_mode o then
        match d with
        | [] => None
        | _ => chdir s (removelast d)
        end
      else Some p
    | None => None
    end.

  Definition input_roots (o : options) (s : fs) (dirs : list rpath) : list rpath :=
    flat_map (fun d => match input_root o s d with Some p => [p] | None => [] end) dirs.

  Lemma gather_all_root o s dirs f :
    In f (gather_all o s dirs) -> exists d, In d dirs /\ input_root o s d = Some (pf_dir f).
  Proof.
    unfold gather_all. intros I. apply in_flat_map in I as (d & Id & If). exists d. split; [exact Id|].
    unfold input_root. destruct (chdir s d) as [p|] eqn:C.
    - rewrite (gather_input_some o s d p C) in If. destruct (explicit_mode o).
      + unfold gather_explicit in If. destruct d as [|x d]; [destruct If|].
        destruct (chdir s (removelast (x :: d))) as [q|]; [|destruct If].
        destruct If as [<-|[]]. reflexivity.
      + destruct (gather_fs_in _ _ _ _ _ _ If) as (rel & n & _ & _ & -> & _). reflexivity.
    - rewrite (gather_input_none o s d C) in If. destruct If.
  Qed.

  Lemma input_roots_in o s dirs d p : In d dirs -> input_root o s d = Some p -> In p (input_roots o s dirs).
  Proof.
    intros Id E. unfold input_roots. apply in_flat_map. exists d. split; [exact Id|]. rewrite E. left. reflexivity.
  Qed.

  Lemma input_root_real o s d p : tree_ok s -> input_root o s d = Some p -> chdir s p = Some p.
  Proof.
    intros T. unfold input_root. destruct (chdir s d) as [q|] eqn:C; [|discriminate].
    destruct (explicit_mode o).
    - destruct d as [|x d]; [discriminate|]. intros E. exact (chdir_twice _ _ _ T E).
    - intros E. inversion E; subst. exact (chdir_twice _ _ _ T C).
  Qed.

  Lemma whole_plan_root b o dirs s f r :
    permutes (o_listing o) -> In (f, r) (whole_plan upper lower b o dirs s) ->
    In (pf_dir f) (input_roots o s dirs) /\ (tree_ok s -> chdir s (pf_dir f) = Some (pf_dir f)).
  Proof.
    intros P I. destruct (gather_all_root o s dirs f (whole_plan_gathered b o dirs s f r P I)) as (d & Id & E).
    split; [exact (input_roots_in _ _ _ _ _ Id E)|]. intros T. exact (input_root_real _ _ _ _ T E).
  Qed.

  (* no root strictly below another root *)
  Definition roots_not_nested (D : list rpath) : Prop :=
    forall p p', In p D -> In p' D -> is_prefix_path p p' = true -> p = p'.

  (* no symbolic link at or below a root *)
  Definition no_links_below (D : list rpath) (s : fs) : Prop :=
    forall k i t p, In (k, NLink i t) s -> In p D -> is_prefix_path p k = false.

  Definition no_custom_in_path_mode (o : options) : Prop :=
    o_mode o = MPath -> o_strategy o = Manual -> Forall (fun a => parse_answer a <> ACustom) (o_answers o).

  Lemma whole_plan_static b o dirs s :
    tree_ok s -> permutes (o_listing o) ->
    roots_not_nested (input_roots o s dirs) -> no_links_below (input_roots o s dirs) s ->
    ConfinedRun.plan_static (whole_plan upper lower b o dirs s) s.
  Proof.
    intros T P NN NL. split; [|split].
    - intros f r I. exact (proj2 (whole_plan_root b o dirs s f r P I) T).
    - intros f r f' r' I I' Pf. apply NN; [exact (proj1 (whole_plan_root b o dirs s f r P I))
                                           |exact (proj1 (whole_plan_root b o dirs s f' r' P I'))|exact Pf].
    - intros k i t f r Ik I. exact (NL k i t _ Ik (proj1 (whole_plan_root b o dirs s f r P I))).
  Qed.

  Lemma failed_no_difference e s h k n :
    In h (r_final (failed e s) :: r_states (failed e s)) ->
    (In (k, n) h /\ ~ In (k, n) s) \/ (In (k, n) s /\ ~ In (k, n) h) -> False.
  Proof. cbn. intros [<-|[]] [[A B]|[A B]]; exact (B A). Qed.

  (* any strategy, any mode, dry or real, any fault, any template text; no symbolic link at or below a root *)
  Theorem whole_confined_static R o text dirs s :
    tree_ok s -> permutes (o_listing o) ->
    roots_not_nested (input_roots o s dirs) -> no_links_below (input_roots o s dirs) s ->
    no_custom_in_path_mode o ->
    let r := tempren_main upper lower R o text dirs s in
    forall h, In h (r_final r :: r_states r) -> forall k n,
      (In (k, n) h /\ ~ In (k, n) s) \/ (In (k, n) s /\ ~ In (k, n) h) ->
      exists p, In p (input_roots o s dirs) /\ is_prefix_path p k = true.
  Proof.
    intros T P NN NL NC. cbv zeta.
    destruct (tempren_main_cases R o text dirs s) as [(e & _ & ->)|(b & _ & ->)].
    - intros h Ih k n D. exfalso. exact (failed_no_difference e s h k n Ih D).
    - intros h Ih k n D.
      destruct (ConfinedOverride.run_confined_static_any_strategy (cfg_of_options o) (whole_plan upper lower b o dirs s)
                  (o_cwd o) s eq_refl (tree_ok_WF _ T) (whole_plan_static b o dirs s T P NN NL) NC h Ih k n D)
        as (f & r & I & Pf).
      exists (pf_dir f). split; [exact (proj1 (whole_plan_root b o dirs s f r P I))|exact Pf].
  Qed.

  (* the form with a hypothesis on the run instead of on the tree: no state of the run has moved a symbolic link *)
  Theorem whole_confined_same_links R o text dirs s :
    tree_ok s -> permutes (o_listing o) ->
    roots_not_nested (input_roots o s dirs) ->
    no_custom_in_path_mode o ->
    let r := tempren_main upper lower R o text dirs s in
    Forall (ConfinedRun.same_links s) (r_states r) ->
    forall h, In h (r_final r :: r_states r) -> forall k n,
      (In (k, n) h /\ ~ In (k, n) s) \/ (In (k, n) s /\ ~ In (k, n) h) ->
      exists p, In p (input_roots o s dirs) /\ is_prefix_path p k = true.
  Proof.
    intros T P NN NC. cbv zeta.
    destruct (tempren_main_cases R o text dirs s) as [(e & _ & ->)|(b & _ & ->)].
    - intros _ h Ih k n D. exfalso. exact (failed_no_difference e s h k n Ih D).
    - intros SL h Ih k n D.
      assert (H1 : forall f r, In (f, r) (whole_plan upper lower b o dirs s) -> chdir s (pf_dir f) = Some (pf_dir f))
        by (intros f r I; exact (proj2 (whole_plan_root b o dirs s f r P I) T)).
      assert (H2 : forall f r f' r', In (f, r) (whole_plan upper lower b o dirs s) ->
                     In (f', r') (whole_plan upper lower b o dirs s) ->
                     is_prefix_path (pf_dir f) (pf_dir f') = true -> pf_dir f = pf_dir f').
      { intros f r f' r' I I' Pf. apply NN; [exact (proj1 (whole_plan_root b o dirs s f r P I))
                                             |exact (proj1 (whole_plan_root b o dirs s f' r' P I'))|exact Pf]. }
      assert (X : exists f r, In (f, r) (whole_plan upper lower b o dirs s) /\ is_prefix_path (pf_dir f) k = true).
      { destruct Ih as [<-|Ih].
        - exact (ConfinedOverride.run_confined_any_strategy (cfg_of_options o) _ (o_cwd o) s eq_refl (tree_ok_WF _ T)
                   NC H1 H2 SL k n D).
        - exact (ConfinedOverride.every_state_confined_any_strategy (cfg_of_options o) _ (o_cwd o) s eq_refl
                   (tree_ok_WF _ T) NC H1 H2 SL h Ih k n D). }
      destruct X as (f & r & I & Pf).
      exists (pf_dir f). split; [exact (proj1 (whole_plan_root b o dirs s f r P I))|exact Pf].
  Qed.

  (* what a root is, spelled out *)
  Lemma input_root_spec o s d p :
    input_root o s d = Some p <->
      if explicit_mode o then chdir s d <> None /\ d <> [] /\ chdir s (removelast d) = Some p
      else chdir s d = Some p.
  Proof.
    unfold input_root. destruct (explicit_mode o).
    - destruct (chdir s d) as [q|] eqn:C.
      + destruct d as [|x d].
        * split; [discriminate|]. intros (_ & H & _). congruence.
        * split; [intros H; repeat split; [discriminate|discriminate|exact H]|]. intros (_ & _ & H). exact H.
      + split; [discriminate|]. intros (H & _). congruence.
    - destruct (chdir s d) as [q|] eqn:C; [tauto|]. split; discriminate.
  Qed.

  Lemma input_roots_spec o s dirs p :
    In p (input_roots o s dirs) <->
    exists d, In d dirs /\
      if explicit_mode o then chdir s d <> None /\ d <> [] /\ chdir s (removelast d) = Some p
      else chdir s d = Some p.
  Proof.
    unfold input_roots. rewrite in_flat_map. split.
    - intros (d & Id & I). exists d. split; [exact Id|]. apply input_root_spec.
      destruct (input_root o s d) as [q|]; [|destruct I]. destruct I as [<-|[]]. reflexivity.
    - intros (d & Id & H). exists d. split; [exact Id|]. apply input_root_spec in H. rewrite H. left. reflexivity.
  Qed.

  (* ====================================================================================== *)
  (* C05: dry = real, name mode, trees without symbolic links                                 *)
  (* ====================================================================================== *)

  Definition set_dry (o : options) (b : bool) : options :=
    {| o_mode := o_mode o; o_strategy := o_strategy o; o_dry := b; o_recursive := o_recursive o;
       o_include_hidden := o_include_hidden o; o_sort_name := o_sort_name o; o_answers := o_answers o;
       o_fault := o_fault o; o_listing := o_listing o; o_cwd := o_cwd o |}.

  Ltac set_dry_proj :=
    cbn [set_dry o_mode o_strategy o_dry o_recursive o_include_hidden o_sort_name o_answers o_fault o_listing o_cwd].

  Lemma gather_all_set_dry o x s dirs : gather_all (set_dry o x) s dirs = gather_all o s dirs.
  Proof. unfold gather_all, gather_input, explicit_mode. set_dry_proj. reflexivity. Qed.

  Lemma processing_order_set_dry o x s dirs : processing_order (set_dry o x) s dirs = processing_order o s dirs.
  Proof. unfold processing_order. rewrite gather_all_set_dry. unfold order_files. set_dry_proj. reflexivity. Qed.

  (* rendering (and gathering, ordering) does not look at --dry-run: both runs get the same plan *)
  Lemma whole_plan_dry_irrelevant b o dirs s x :
    whole_plan upper lower b (set_dry o x) dirs s = whole_plan upper lower b o dirs s.
  Proof. unfold whole_plan. rewrite processing_order_set_dry. reflexivity. Qed.

  Lemma no_gatherers_set_dry o x s dirs : no_gatherers (set_dry o x) s dirs = no_gatherers o s dirs.
  Proof. unfold no_gatherers, explicit_mode. set_dry_proj. reflexivity. Qed.

  Lemma cfg_of_set_dry o x : cfg_of_options (set_dry o x) = DryEqualsReal.cfg_set_dry (cfg_of_options o) x.
  Proof. unfold cfg_of_options, DryEqualsReal.cfg_set_dry. set_dry_proj. cbn [c_mode c_strategy c_answers c_fault c_var]. reflexivity. Qed.

  Lemma tempren_main_set_dry_cases R o text dirs s :
    (exists e, forall x, tempren_main upper lower R (set_dry o x) text dirs s = failed e s) \/
    (exists b, compile R text = inl b /\ forall x,
               tempren_main upper lower R (set_dry o x) text dirs s =
               run (DryEqualsReal.cfg_set_dry (cfg_of_options o) x) (whole_plan upper lower b o dirs s) (o_cwd o) s).
  Proof.
    assert (E : forall x, tempren_main upper lower R (set_dry o x) text dirs s =
      if negb (args_ok s text dirs) then failed ExConfiguration s
      else if no_gatherers o s dirs then failed ExOther s
      else match compile R text with
           | inr _ => failed ExTemplate s
           | inl b =>
             if wants_dirs (o_mode o) && o_sort_name o then failed ExConfiguration s
             else if o_sort_name o && negb (compiles R t_sort_name) then failed ExTemplate s
             else run (DryEqualsReal.cfg_set_dry (cfg_of_options o) x) (whole_plan upper lower b o dirs s) (o_cwd o) s
           end).
    { intros x. unfold tempren_main. rewrite no_gatherers_set_dry, cfg_of_set_dry.
      destruct (compile R text) as [b|e]; [|reflexivity]. rewrite whole_plan_dry_irrelevant. set_dry_proj. reflexivity. }
    destruct (negb (args_ok s text dirs)); [left; exists ExConfiguration; exact E|].
    destruct (no_gatherers o s dirs); [left; exists ExOther; exact E|].
    destruct (compile R text) as [b|e]; [|left; exists ExTemplate; exact E].
    destruct (wants_dirs (o_mode o) && o_sort_name o); [left; exists ExConfiguration; exact E|].
    destruct (o_sort_name o && negb (compiles R t_sort_name)); [left; exists ExTemplate; exact E|].
    right. exists b. split; [reflexivity|exact E].
  Qed.

  (* a tree without symbolic links *)
  Definition no_links (s : fs) : Prop := forall k i t, ~ In (k, NLink i t) s.

  Definition no_links_b (s : fs) : bool :=
    forallb (fun e => match snd e with NLink _ _ => false | _ => true end) s.

  Lemma no_links_b_sound s : no_links_b s = true -> no_links s.
  Proof.
    unfold no_links_b. intros H k i t I. rewrite forallb_forall in H. specialize (H _ I). discriminate.
  Qed.

  Lemma no_links_not_link s k : WF s -> no_links s -> not_link (lookup s k).
  Proof.
    intros W NL i t E. destruct k as [|x k]; [cbn in E; discriminate|].
    apply lookup_In in E; [|discriminate]. exact (NL _ _ _ E).
  Qed.

  Lemma gather_fs_plain s d r ih m :
    tree_ok s -> no_links s -> lookup s d = Some NDir -> wants_dirs m = false ->
    Forall (DryEqualsReal.plain_file s) (gather_fs s d r ih m).
  Proof.
    intros T NL L M. pose proof (tree_ok_WF _ T) as W. apply Forall_forall. intros f I.
    destruct (gather_fs_in _ _ _ _ _ _ I) as (rel & n & Ik & Hne & -> & _ & K).
    rewrite M in K. destruct (proj2 T _ _ Ik) as [Hlen Hgood].
    unfold DryEqualsReal.plain_file. cbn [pf_dir pf_rel rel_file pp_parts pp_root].
    split; [apply chdir_real; assumption|].
    split; [intros Id; apply (good_name_not_dotdot _ Hgood); apply in_or_app; left; exact Id|].
    split; [reflexivity|]. split; [exact Hne|].
    split; [intros Id; apply (good_name_not_dotdot _ Hgood); apply in_or_app; right; exact Id|].
    split; [|split].
    - intros q r0 E Hq Hr. apply lookup_of_In; [exact W|].
      destruct W as [_ CL]. destruct (CL _ _ Ik) as [_ PP]. apply PP.
      + destruct q; [congruence|]. destruct d; discriminate.
      + exists r0. split; [exact Hr|]. rewrite E, app_assoc. reflexivity.
    - destruct n as [i|i t|].
      + exists i. apply lookup_of_In; assumption.
      + exfalso. exact (NL _ _ _ Ik).
      + cbn [entry_is_dir] in K. discriminate.
    - rewrite <- app_length. exact Hlen.
  Qed.

  Lemma gather_all_plain o s dirs :
    tree_ok s -> no_links s -> o_mode o <> MDirectory ->
    Forall (DryEqualsReal.plain_file s) (gather_all o s dirs).
  Proof.
    intros T NL M. unfold gather_all. apply Forall_forall. intros f I.
    apply in_flat_map in I as (d & Id & If).
    assert (Wd : wants_dirs (o_mode o) = false) by (destruct (o_mode o); [reflexivity|reflexivity|congruence]).
    destruct (chdir s d) as [p|] eqn:C.
    - rewrite (gather_input_some o s d p C) in If.
      assert (E : explicit_mode o = false) by (unfold explicit_mode; rewrite Wd; reflexivity).
      rewrite E in If.
      pose proof (gather_fs_plain s p (o_recursive o) (o_include_hidden o) (o_mode o) T NL (chdir_found _ _ _ C) Wd) as G.
      rewrite Forall_forall in G. exact (G f If).
    - rewrite (gather_input_none o s d C) in If. destruct If.
  Qed.

  Lemma whole_plan_plain b o dirs s :
    tree_ok s -> no_links s -> o_mode o <> MDirectory -> permutes (o_listing o) ->
    DryEqualsReal.plain_plan s (whole_plan upper lower b o dirs s) /\
    DryEqualsReal.dest_not_link s (whole_plan upper lower b o dirs s).
  Proof.
    intros T NL M P. split.
    - apply Forall_forall. intros [f r] I. cbn [fst].
      pose proof (gather_all_plain o s dirs T NL M) as G. rewrite Forall_forall in G.
      exact (G f (whole_plan_gathered b o dirs s f r P I)).
    - apply Forall_forall. intros [f r] I. cbn [fst snd]. destruct r; try exact Logic.I.
      apply no_links_not_link; [exact (tree_ok_WF _ T)|exact NL].
  Qed.

  (* stop, ignore, or manual where no answer reads as "override" or as "custom path" *)
  Definition no_override_no_custom (o : options) : Prop :=
    match o_strategy o with
    | Stop | Ignore => True
    | Manual => Forall (fun a => parse_answer a <> AOverride /\ parse_answer a <> ACustom) (o_answers o)
    | Override => False
    end.

  Theorem whole_dry_equals_real R o text dirs s :
    tree_ok s -> no_links s ->
    o_mode o = MName -> o_fault o = None -> no_override_no_custom o -> permutes (o_listing o) ->
    let d := tempren_main upper lower R (set_dry o true) text dirs s in
    let r := tempren_main upper lower R (set_dry o false) text dirs s in
    r_status d = r_status r /\ r_report d = r_report r /\ r_prompts d = r_prompts r.
  Proof.
    intros T NL M F N P. cbv zeta.
    destruct (tempren_main_set_dry_cases R o text dirs s) as [(e & E)|(b & _ & E)]; rewrite (E true), (E false).
    - repeat split; reflexivity.
    - assert (Md : o_mode o <> MDirectory) by (rewrite M; discriminate).
      destruct (whole_plan_plain b o dirs s T NL Md P) as [PP DL].
      apply DryEqualsReal.dry_equals_real_name_mode; try assumption.
      + reflexivity.
      + exact (tree_ok_WF _ T).
  Qed.

  (* ====================================================================================== *)
  (* C03: stop ends with "destination exists" only on a real conflict                         *)
  (* ====================================================================================== *)

  Theorem whole_stop_only_on_conflict R o text dirs s :
    tree_ok s ->
    o_mode o = MName -> o_strategy o = Stop -> o_dry o = false -> o_fault o = None ->
    permutes (o_listing o) ->
    NoDup (map src_key (gather_all o s dirs)) ->
    (forall b, compile R text = inl b -> Forall renders_valid_name (whole_plan upper lower b o dirs s)) ->
    let r := tempren_main upper lower R o text dirs s in
    r_error r = Some ExDestExists ->
    exists b, compile R text = inl b /\
    exists f t, In (f, RText t) (whole_plan upper lower b o dirs s) /\ In f (gather_all o s dirs) /\
      dst_key f t <> src_key f /\
      (lookup s (dst_key f t) <> None \/
       exists f' t', In (f', RText t') (whole_plan upper lower b o dirs s) /\ In f' (gather_all o s dirs) /\
                     src_key f' <> src_key f /\ dst_key f' t' = dst_key f t).
  Proof.
    intros T M St Dr Fl P ND V. cbv zeta.
    destruct (tempren_main_cases R o text dirs s) as [(e & Fe & ->)|(b & C & ->)].
    - cbn. intros E. inversion E; subst. exfalso. exact (front_exn_not_dest _ Fe eq_refl).
    - intros E. exists b. split; [exact C|].
      destruct (StrategyExact.stop_only_on_conflict_thm (cfg_of_options o) (whole_plan upper lower b o dirs s) (o_cwd o) s
                  M St Dr Fl eq_refl (tree_ok_WF _ T)
                  (whole_plan_selected_ok upper lower b o dirs s T M P ND (V b C)) E)
        as (f & t & I & Ne & H).
      exists f, t. split; [exact I|]. split; [exact (whole_plan_gathered b o dirs s f _ P I)|].
      split; [exact Ne|]. destruct H as [H|(f' & t' & I' & Ns & Ed)]; [left; exact H|right].
      exists f', t'. split; [exact I'|]. split; [exact (whole_plan_gathered b o dirs s f' _ P I')|].
      split; assumption.
  Qed.

  (* that error is exit status 1 *)
  Lemma whole_dest_error_status R o text dirs s :
    let r := tempren_main upper lower R o text dirs s in
    r_error r = Some ExDestExists -> r_status r = 1%Z.
  Proof.
    cbv zeta. destruct (tempren_main_cases R o text dirs s) as [(e & Fe & ->)|(b & C & ->)].
    - cbn. intros E. inversion E; subst. exfalso. exact (front_exn_not_dest _ Fe eq_refl).
    - unfold run. destruct (first_pass _ _ _ _ _) as [[[w1 cwd1] bl] [e1|]].
      + cbn [r_error r_status]. intros E. inversion E; subst. reflexivity.
      + destruct (second_pass _ _ _ _) as [[w2 cwd2] [e2|]]; cbn [r_error r_status]; intros E; inversion E; subst.
        reflexivity.
  Qed.
End Props.

(* ====================================================================================== *)
(* checkers for the hypotheses (used by the examples of the property files)                 *)
(* ====================================================================================== *)

Lemma permutes_id : permutes (fun l => l).
Proof. intros l. apply Permutation_refl. Qed.

Lemma permutes_rev : permutes (@rev pfile).
Proof. intros l. apply Permutation_rev. Qed.

Definition unselected_b (o : options) (s : fs) (dirs : list rpath) (k : rpath) : bool :=
  forallb (fun f => negb (rpath_eqb (src_key f) k)) (gather_all o s dirs).

Lemma unselected_b_sound o s dirs k :
  unselected_b o s dirs k = true -> forall f, In f (gather_all o s dirs) -> src_key f <> k.
Proof.
  unfold unselected_b. intros H f I E. rewrite forallb_forall in H. specialize (H f I).
  apply negb_true_iff in H. apply rpath_eqb_neq in H. exact (H E).
Qed.

Definition roots_not_nested_b (D : list rpath) : bool :=
  forallb (fun p => forallb (fun p' => negb (is_prefix_path p p') || rpath_eqb p p') D) D.

Lemma roots_not_nested_b_sound D : roots_not_nested_b D = true -> roots_not_nested D.
Proof.
  unfold roots_not_nested_b. intros H p p' I I' P. rewrite forallb_forall in H. specialize (H p I).
  rewrite forallb_forall in H. specialize (H p' I'). rewrite P in H. cbn [negb orb] in H.
  apply rpath_eqb_eq. exact H.
Qed.

Definition no_links_below_b (D : list rpath) (s : fs) : bool :=
  forallb (fun e => match snd e with
                    | NLink _ _ => forallb (fun p => negb (is_prefix_path p (fst e))) D
                    | _ => true
                    end) s.

Lemma no_links_below_b_sound D s : no_links_below_b D s = true -> no_links_below D s.
Proof.
  unfold no_links_below_b. intros H k i t p Ik Ip. rewrite forallb_forall in H. specialize (H _ Ik).
  cbn [fst snd] in H. rewrite forallb_forall in H. specialize (H p Ip). apply negb_true_iff in H. exact H.
Qed.

(* the hypotheses of the whole-program theorems, unfolded *)
Lemma confined_hypotheses_spec D s :
  (roots_not_nested D <-> forall p p', In p D -> In p' D -> is_prefix_path p p' = true -> p = p') /\
  (no_links_below D s <-> forall k i t p, In (k, NLink i t) s -> In p D -> is_prefix_path p k = false) /\
  (roots_not_nested_b D = true -> roots_not_nested D) /\
  (no_links_below_b D s = true -> no_links_below D s).
Proof.
  split; [reflexivity|]. split; [reflexivity|].
  split; [exact (roots_not_nested_b_sound D)|exact (no_links_below_b_sound D s)].
Qed.

Lemma dry_equals_real_hypotheses_spec o s :
  (no_links s <-> forall k i t, ~ In (k, NLink i t) s) /\
  (no_links_b s = true -> no_links s) /\
  (tree_ok_b s = true -> tree_ok s) /\
  (no_override_no_custom o <->
   match o_strategy o with
   | Stop | Ignore => True
   | Manual => Forall (fun a => parse_answer a <> AOverride /\ parse_answer a <> ACustom) (o_answers o)
   | Override => False
   end) /\
  o_dry (set_dry o true) = true /\ o_dry (set_dry o false) = false.
Proof.
  split; [reflexivity|]. split; [exact (no_links_b_sound s)|]. split; [exact (tree_ok_b_sound s)|].
  split; [reflexivity|]. split; reflexivity.
Qed.
