(* Facts about the pieces of the whole-program model: trees with ordinary names, what the gatherers *)
(* return, that ordering only permutes, and how a template without state renders.                  *)
From Coq Require Import Permutation.
From Tempren Require Import Base.Str Py.PathLib Py.PathLibProofs Py.Repr Py.Sort Py.SortProofs.
From Tempren Require Import Tpl.Alias.
From Tempren Require Import FS.Model FS.Lemmas FS.PlainPaths FS.WfCheck.
From Tempren Require Import Pipe.Pipeline Pipe.FrontCompile.
From Tempren Require Import Whole.Library Whole.Render Whole.Gather Whole.Main.
Open Scope N_scope.

(* ====================================================================================== *)
(* 1. trees with ordinary names                                                             *)
(* ====================================================================================== *)

(* a directory entry name: non-empty, no '/', neither "." nor ".." *)
Definition good_name (c : name) : Prop := good_part c /\ c <> dotdot.

(* a well-formed tree (FS/Lemmas.v [WF]: unique keys, every parent a directory) whose keys are made of
   ordinary names and are shorter than the path-walk bound of the model (PATH_MAX / ELOOP stand-in) *)
Definition tree_ok (s : fs) : Prop :=
  WF s /\ forall k n, In (k, n) s -> (length k < walk_fuel)%nat /\ forall c, In c k -> good_name c.

Definition good_name_b (c : name) : bool :=
  keep_part c && negb (has_slash c) && negb (name_eqb c dotdot).

Definition tree_ok_b (s : fs) : bool :=
  wf_b s && forallb (fun e => Nat.ltb (length (fst e)) walk_fuel && forallb good_name_b (fst e)) s.

Lemma good_name_b_sound c : good_name_b c = true -> good_name c.
Proof.
  unfold good_name_b. intros H. apply andb_true_iff in H as [H H3]. apply andb_true_iff in H as [H1 H2].
  split; [split; [exact H1|]|].
  - destruct (has_slash c); [discriminate|reflexivity].
  - intros E. subst c. rewrite dotdot_refl in H3. discriminate.
Qed.

Theorem tree_ok_b_sound s : tree_ok_b s = true -> tree_ok s.
Proof.
  unfold tree_ok_b. intros H. apply andb_true_iff in H as [H1 H2]. split; [apply wf_b_sound; exact H1|].
  intros k n I. rewrite forallb_forall in H2. specialize (H2 _ I). cbn [fst] in H2.
  apply andb_true_iff in H2 as [L G]. split; [apply Nat.ltb_lt; exact L|].
  intros c Ic. rewrite forallb_forall in G. apply good_name_b_sound. exact (G c Ic).
Qed.

Lemma tree_ok_WF s : tree_ok s -> WF s.
Proof. intros [W _]. exact W. Qed.

Lemma good_name_not_dotdot k : (forall c, In c k -> good_name c) -> ~ In dotdot k.
Proof. intros H I. destruct (H _ I) as [_ N]. apply N. reflexivity. Qed.

(* a directory of such a tree, named by its key, is where chdir arrives *)
Lemma chdir_real s p : tree_ok s -> lookup s p = Some NDir -> chdir s p = Some p.
Proof.
  intros [W B] L. unfold chdir.
  rewrite (resolve_dirs s p true).
  - reflexivity.
  - destruct p as [|x p]; [exact walk_fuel_pos|].
    apply lookup_In in L; [|discriminate]. exact (proj1 (B _ _ L)).
  - destruct p as [|x p]; [intros []|].
    apply lookup_In in L; [|discriminate]. apply good_name_not_dotdot. exact (proj2 (B _ _ L)).
  - apply dirpath_of_lookup; assumption.
Qed.

Lemma chdir_found s d p : chdir s d = Some p -> lookup s p = Some NDir.
Proof.
  unfold chdir. destruct (resolve s [] {| up_abs := true; up_comps := d |} true) as [q n| |] eqn:R; try discriminate.
  destruct n; try discriminate. intros E. inversion E; subst. exact (resolve_found _ _ _ _ _ _ R).
Qed.

Lemma chdir_twice s d p : tree_ok s -> chdir s d = Some p -> chdir s p = Some p.
Proof. intros T C. apply chdir_real; [exact T|exact (chdir_found _ _ _ C)]. Qed.

Lemma chdir_is_dir s d : input_is_dir s d = is_dir s [] (abs_path d).
Proof.
  unfold input_is_dir, chdir, is_dir, abs_path.
  destruct (resolve s [] {| up_abs := true; up_comps := d |} true) as [q n| |]; try reflexivity.
  destruct n; reflexivity.
Qed.

Lemma chdir_exists s d p : chdir s d = Some p -> exists_ s [] (abs_path d) = true.
Proof.
  unfold chdir, exists_, abs_path.
  destruct (resolve s [] {| up_abs := true; up_comps := d |} true) as [q n| |]; try discriminate. reflexivity.
Qed.

(* ====================================================================================== *)
(* 2. what the gatherers return                                                             *)
(* ====================================================================================== *)

(* a gathered file can be processed: its input directory can be entered, its relative path is normal *)
Definition file_ok (s : fs) (f : pfile) : Prop :=
  (exists cwd1, chdir s (pf_dir f) = Some cwd1) /\ normal_rel (pf_rel f).

Lemma good_name_part c : good_name c -> good_part c.
Proof. intros [G _]. exact G. Qed.

Lemma gather_fs_in s d r ih m f :
  In f (gather_fs s d r ih m) ->
  exists rel n, In (d ++ rel, n) s /\ rel <> [] /\ f = rel_file d rel /\
                wanted r ih rel = true /\ entry_is_dir s (d ++ rel) n = wants_dirs m.
Proof.
  unfold gather_fs. intros I. apply in_flat_map in I as ([k n] & Ik & If).
  unfold gather_entry in If. cbn [fst snd] in If. unfold rel_under in If.
  destruct (is_prefix_path d k) eqn:P; [|destruct If].
  apply is_prefix_path_spec in P as [rel E]. subst k. rewrite skipn_app_exact in If.
  destruct rel as [|c rel]; [destruct If|].
  destruct (wanted r ih (c :: rel)) eqn:Wd; [|destruct If]. cbn [andb] in If.
  destruct (Bool.eqb (entry_is_dir s (d ++ c :: rel) n) (wants_dirs m)) eqn:K; [|destruct If].
  destruct If as [<-|[]]. exists (c :: rel), n. repeat split; try assumption; try discriminate.
  apply Bool.eqb_prop. exact K.
Qed.

Lemma gather_fs_ok s d r ih m :
  tree_ok s -> lookup s d = Some NDir -> Forall (file_ok s) (gather_fs s d r ih m).
Proof.
  intros T L. apply Forall_forall. intros f I.
  destruct (gather_fs_in _ _ _ _ _ _ I) as (rel & n & Ik & Hne & -> & _).
  split.
  - exists d. cbn [pf_dir rel_file]. apply chdir_real; assumption.
  - cbn [pf_rel rel_file]. split; [reflexivity|]. split; [exact Hne|].
    intros x Ix. cbn [pp_parts] in Ix. apply good_name_part.
    apply (proj2 (proj2 T _ _ Ik)). apply in_or_app. right. exact Ix.
Qed.

Lemma gather_explicit_ok s d :
  tree_ok s -> d <> [] -> lookup s d = Some NDir -> Forall (file_ok s) (gather_explicit s d).
Proof.
  intros T Hne L. pose proof (tree_ok_WF _ T) as W.
  assert (Lp : lookup s (removelast d) = Some NDir).
  { apply dirpath_self. apply dirpath_removelast. apply dirpath_of_lookup; assumption. }
  unfold gather_explicit. destruct d as [|x d]; [congruence|].
  rewrite (chdir_real _ _ T Lp). constructor; [|constructor].
  split.
  - exists (removelast (x :: d)). cbn [pf_dir rel_file]. apply chdir_real; assumption.
  - cbn [pf_rel rel_file]. split; [reflexivity|]. split; [discriminate|].
    intros c [<-|[]]. apply good_name_part.
    apply lookup_In in L; [|discriminate].
    apply (proj2 (proj2 T _ _ L)). apply last_In. discriminate.
Qed.

Lemma gather_input_some o s d p :
  chdir s d = Some p ->
  gather_input o s d =
    if explicit_mode o then gather_explicit s d
    else gather_fs s p (o_recursive o) (o_include_hidden o) (o_mode o).
Proof. intros C. unfold gather_input. rewrite C. reflexivity. Qed.

Lemma gather_input_none o s d : chdir s d = None -> gather_input o s d = [].
Proof. intros C. unfold gather_input. rewrite C. reflexivity. Qed.

Lemma gather_all_ok o s dirs :
  tree_ok s ->
  (explicit_mode o = true -> Forall (fun d => d <> [] /\ lookup s d = Some NDir) dirs) ->
  Forall (file_ok s) (gather_all o s dirs).
Proof.
  intros T X. unfold gather_all. apply Forall_forall. intros f I.
  apply in_flat_map in I as (d & Id & If).
  destruct (chdir s d) as [p|] eqn:C.
  - rewrite (gather_input_some o s d p C) in If.
    destruct (explicit_mode o) eqn:E.
    + specialize (X eq_refl). rewrite Forall_forall in X. destruct (X d Id) as [Hne L].
      pose proof (gather_explicit_ok s d T Hne L) as G. rewrite Forall_forall in G. exact (G f If).
    + pose proof (gather_fs_ok s p (o_recursive o) (o_include_hidden o) (o_mode o) T (chdir_found _ _ _ C)) as G.
      rewrite Forall_forall in G. exact (G f If).
  - rewrite (gather_input_none o s d C) in If. destruct If.
Qed.

(* ====================================================================================== *)
(* 3. ordering only permutes                                                                *)
(* ====================================================================================== *)

Definition permutes (g : list pfile -> list pfile) : Prop := forall l, Permutation l (g l).

Lemma order_files_perm o l : Permutation l (order_files o l).
Proof.
  unfold order_files. destruct (o_mode o).
  - destruct (o_sort_name o); [symmetry; apply sort_by_perm|reflexivity].
  - destruct (o_sort_name o); [symmetry; apply sort_by_perm|reflexivity].
  - symmetry. apply sort_by_perm.
Qed.

Lemma processing_order_perm o s dirs :
  permutes (o_listing o) -> Permutation (gather_all o s dirs) (processing_order o s dirs).
Proof.
  intros P. unfold processing_order. etransitivity; [apply P|apply order_files_perm].
Qed.

Lemma processing_order_ok o s dirs :
  tree_ok s -> permutes (o_listing o) ->
  (explicit_mode o = true -> Forall (fun d => d <> [] /\ lookup s d = Some NDir) dirs) ->
  Forall (file_ok s) (processing_order o s dirs).
Proof.
  intros T P X. eapply Permutation_Forall; [apply processing_order_perm; exact P|].
  apply gather_all_ok; assumption.
Qed.

(* ====================================================================================== *)
(* 4. rendering                                                                             *)
(* ====================================================================================== *)

Lemma to_rendered_text t : (forall r, t <> 47 :: r) -> to_rendered (inr t) = RText t.
Proof.
  intros H. destruct t as [|c t]; [reflexivity|].
  unfold to_rendered. destruct (N.eq_dec c 47) as [->|Hc]; [exfalso; exact (H t eq_refl)|].
  destruct c as [|p]; [reflexivity|].
  do 6 (destruct p as [p|p|]; try reflexivity). exfalso. apply Hc. reflexivity.
Qed.

Section Stateless.
  Variables upper lower : str -> str.

  (* a bound template that renders without changing (no instance has a state that moves) *)
  Lemma render_all_stateless (b : bpat tstate) (txt : pfile -> Signature.exc + str) :
    (forall f, render_one upper lower f b = (txt f, b)) ->
    forall files, render_all upper lower b files = map (fun f => (f, to_rendered (txt f))) files.
  Proof.
    intros H files. induction files as [|f rest IH]; [reflexivity|].
    cbn [render_all map]. rewrite H, IH. reflexivity.
  Qed.
End Stateless.
