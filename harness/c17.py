"""C17 — Name, Base, Ext and Dir decompose every path losslessly."""
import itertools
import os
import re
from pathlib import Path, PurePosixPath

import common
from common import q_list, q_str
import impl
import cli_driver
from sandbox import Sandbox
from c18 import CtxTag, reg

ALPHA = [".", "a", "b", " ", "/", "é", "%", "{", "|"]
MASK = 0xFFFFFFFFFFFFFFFF


def mix(h, x):
    return (h * 1000003 + x + 1) & MASK


def mix_str(h, s):
    h = mix(h, 1114112 + len(s))
    for c in s:
        h = mix(h, ord(c))
    return h


def strings_upto(n):
    for L in range(n + 1):
        for t in itertools.product(ALPHA, repeat=L):
            yield "".join(t)


def path_summary(h, s):
    p = PurePosixPath(s)
    h = mix_str(h, str(p))
    h = mix_str(h, p.name)
    h = mix_str(h, p.stem)
    h = mix_str(h, p.suffix)
    h = mix_str(h, str(p.parent))
    return mix(h, len(p.root))


def parse_N(out):
    m = re.search(r"=\s*(\d+)\s*:\s*N", out)
    return int(m.group(1)) if m else None


def run(chk):
    rng = chk.rng
    alpha_q = q_list([str(ord(c)) for c in ALPHA])
    n = 5 if chk.tier == "quick" else 6
    stats = {"alphabet": ALPHA, "max_len": n}

    # ---- 1. pathlib slice vs model, every string over ALPHA up to length n, by prefix shards
    plen = 1 if n <= 5 else 2
    prefixes = ["".join(t) for t in itertools.product(ALPHA, repeat=plen)]
    shards, expect = [], []
    # strings shorter than the prefix length
    short = [s for s in strings_upto(plen - 1)]
    cases = []
    for s in short + [" .", "..", "...", "a.", ".a", "a..b", "a.b.c", "/", "//", "///", "//a", "///a", "a//b/", "./a", "a/.", "a/..", "../a"]:
        p = PurePosixPath(s)
        cases.append("(%s, (%s, %s, %s, %s, %s))" % tuple(q_str(x) for x in (s, str(p), p.name, p.stem, p.suffix, str(p.parent))))
    mism, errs = common.run_model_cases(["Py.PathLib", "Corr.PathCorr"], "path_case", "path_case_ok", cases)
    for e in errs:
        chk.proof_failures.append({"what": "coqc path_case_ok", "log": e["output"]})
    for m in mism:
        chk.corr_fail("Corr.PathCorr.path_case_ok (Py.PathLib vs pathlib)", {"case": cases[m]})
    for pre in prefixes:
        h = 0
        for s in strings_upto(n - plen):
            h = path_summary(h, pre + s)
            chk.coverage["evaluations"] += 1
        expect.append(h)
        shards.append("From Tempren Require Import Base.Str Py.PathLib Corr.PathCorr.\n"
                      "Eval vm_compute in (path_digest_prefix %s %d%%nat %s)." % (alpha_q, n - plen, q_str(pre)))
    # tags with context through the real compiled templates (CtxTag supplies the context)
    nt = 4 if chk.tier == "quick" else 5
    with impl.quiet_streams():
        pats = [impl.compile_template("%%Core.%s(){%%Verif.Ctx()}" % t, reg()) for t in ("Name", "Base", "Ext", "Dir")]
    f = impl.mkfile("/vroot/in", "d/f.x")
    tag_expect = []
    for pre in ALPHA:
        h = 0
        for s in strings_upto(nt - 1):
            c = pre + s
            CtxTag.value = c
            vals = [p.process(f) for p in pats]
            if vals[1] + vals[2] != vals[0]:
                chk.oracle_fail("Base{c} + Ext{c} != Name{c}: %r" % (vals,), {"context": c})
            for v in vals:
                h = mix_str(h, v)
            chk.coverage["evaluations"] += 1
        tag_expect.append(h)
        shards.append("From Tempren Require Import Base.Str Py.PathLib Corr.PathCorr.\n"
                      "Eval vm_compute in (tag_digest_prefix %s %d%%nat %s)." % (alpha_q, nt - 1, q_str(pre)))
    # with_name
    wn, wm = (3, 2)
    h = 0
    for ps in strings_upto(wn):
        p = PurePosixPath(ps)
        for nm in strings_upto(wm):
            try:
                q = p.with_name(nm)
                h = mix_str(mix(h, 1), str(q))
            except ValueError:
                h = mix(h, 0)
            chk.coverage["evaluations"] += 1
    shards.append("From Tempren Require Import Base.Str Py.PathLib Corr.PathCorr.\n"
                  "Eval vm_compute in (with_name_digest %s %d%%nat %d%%nat)." % (alpha_q, wn, wm))
    results = common.coq_eval_shards(shards, timeout=1500)
    names = ["path_digest_prefix %r" % p for p in prefixes] + ["tag_digest_prefix %r" % p for p in ALPHA] + ["with_name_digest"]
    for nm, (rc, out), exp in zip(names, results, expect + tag_expect + [h]):
        got = parse_N(out) if rc == 0 else None
        if got is None:
            chk.proof_failures.append({"what": "coqc " + nm, "log": out[-1500:]})
        elif got != exp:
            chk.corr_fail("Corr.PathCorr.%s (Py.PathLib vs pathlib, exhaustive over the alphabet)" % nm,
                          {"alphabet": ALPHA, "python_digest": exp, "coq_digest": got})
    chk.distinct.update(("exh", nm) .__repr__().encode() for nm in names)
    chk.notes["exhaustive_strings"] = {"pathlib_upto": n, "tags_upto": nt, "with_name": [wn, wm]}
    chk.coverage["exhaustive"] = False

    # ---- 2. the no-op templates through the CLI, all three modes
    n_trees = 40 if chk.tier == "quick" else 600
    name_pool = ["~", "~x", "~$report.docx", "~root", "a~", "$HOME", "${x}", "a", "a.txt", ".hidden", "trail.", "a.b.c", "...", "..x", "sp ace.t x", "é.ñ", "100%", "{x}", "a|b", "x\\y",
                 "'q'", "\"d\"", "-dash", "tab\tname", "a.tar.gz", ".a.b", "%Name()", "UP.TXT", "noext", "x.", "  ", "$(x)", "*",
                 # names that are not in a Unicode normal form / have compatibility look-alikes: any
                 # normalisation, case folding or re-encoding between rendering and comparing shows here
                 "e\u0301.txt", "\u2126hm", "\u212bng.\u212b", "\ufb01le", "I\u0307.x", "\u1e9e", "a\u0308\u0323", "\uff21.\uff54xt"]
    runs = 0
    # deep and long: every component an ordinary name, the relative path several hundred bytes long; and names at the
    # component limit (255 bytes)
    long_dirs = ["/".join("level-%d-%s" % (k, "x" * 30) for k in range(depth)) for depth in (7, 8, 12)]
    fixed_specs = [
        [("in/" + d, "d", None) for d in long_dirs] + [("in/" + d + "/file.name.txt", "f", "c") for d in long_dirs]
        + [("in/" + "n" * 251 + ".txt", "f", "c"), ("in/" + "é" * 127 + "x", "f", "c"), ("in/" + "d" * 255, "d", None)],
    ]
    for t in range(n_trees + len(fixed_specs)):
        spec = list(fixed_specs[t - n_trees]) if t >= n_trees else []
        dirs = [""]
        for _ in range(rng.randrange(0, 4) if t < n_trees else 0):
            parent = rng.choice(dirs)
            dn = rng.choice(name_pool)
            d = os.path.join(parent, dn) if parent else dn
            if d not in dirs:
                dirs.append(d)
                spec.append((os.path.join("in", d), "d", None))
        used = set(dirs)
        for _ in range(rng.randrange(1, 8) if t < n_trees else 0):
            parent = rng.choice(dirs)
            fn = rng.choice(name_pool)
            p = os.path.join(parent, fn) if parent else fn
            if p in used:
                continue
            used.add(p)
            if rng.random() < 0.15:
                # never "." or an ancestor as target: recursive gathering follows directory links and would run away (not this property)
                spec.append((os.path.join("in", p), "l", rng.choice(["nowhere", "a", "a.txt"])))
            else:
                spec.append((os.path.join("in", p), "f", "content of " + p))
        for mode, tmpl in (("-n", "%Base()%Ext()"), ("-n", "%Name()"), ("-d", "%Name()"), ("-d", "%Base()%Ext()"),
                           ("-p", "%Dir()/%Name()")):
            with Sandbox() as root:
                os.mkdir(os.path.join(root, "in"))
                cli_driver.build_tree(root, spec)
                before = cli_driver.strict_snapshot(root)
                argv = [mode, "-r", "-ih", tmpl, os.path.join(root, "in")]
                res = cli_driver.run_cli(argv, root, root=root)
                after = cli_driver.strict_snapshot(root)
                case = {"tree": spec, "argv": argv[:-1] + ["<root>/in"]}
                runs += 1
                chk.count((tuple(map(tuple, spec)), mode, tmpl))
                calls = [c for c in res.tracer.calls]
                if res.status != 0 or calls or res.report() or before != after:
                    chk.oracle_fail("no-op template is not a no-op: status %r, calls %r, report %r, tree changed %r; stderr %r" % (
                        res.status, calls[:3], res.report()[:3], before != after, res.stderr[-300:]), case)
                if runs <= 2:
                    chk.sample(dict(case, status=res.status, calls=len(calls)))
    stats["cli_runs"] = runs
    # whole-program model against the real command line (the no-op templates are among the generated ones), no plan injection
    import whole
    import random as _random
    whole.whole_stream(chk, _random.Random(chk.seed * 7919 + 17), 120 if chk.tier == "quick" else 5000, stats)
    chk.coverage["rule"] = (
        "pathlib name/stem/suffix/parent/str/with_name vs the Coq model on EVERY string over %r up to length %d (rolling digests, "
        "sharded by prefix); the real Name/Base/Ext/Dir tags with every such context up to length %d; the three no-op templates "
        "through the CLI on generated trees (odd names at all depths, symlinks) in name, directory and path mode; distinct by "
        "(tree, mode, template) for CLI runs, one unit per exhaustive shard" % (ALPHA, n, nt))
    chk.coverage["input_distribution"] = stats
    chk.coverage["trusted_base"] = common.BASE_TRUSTED + [
        "modelled, not verified: pathlib.PurePosixPath parsing/name/suffix/stem/parent/with_name/str (CPython 3.12), compared exhaustively on short strings"]
