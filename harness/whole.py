"""Whole-program correspondence: the real CLI (tempren.cli.main, real gatherers, real sorter, real
template compiler and core-library tags - NO plan injection) against the model
coq/theories/Whole/Main.v [tempren_main] evaluated by vm_compute on the same tree
(comparator: coq/theories/Corr/WholeCorr.v [whole_case_ok]).

    whole_stream(chk, rng, n, stats)

generates n cases: a tree (files, directories, a few hidden names, now and then a dangling symbolic link or
one to a file; 1-2 input directories), a template over the core library (Name/Base/Ext/Dir/Upper/Lower/Count
and Trim/Pad/Strip/Collapse/SplitCase with arguments, literals, contexts, pipes; now and then one that does not
compile or whose argument has an unexpected type), options (mode, -r, -ih,
stop/ignore, dry-run; `-s %Name()` always in name and path mode, so the processing order is determined;
directory mode has no sorter option - its order is the listing order, which the harness writes into the tree
it hands to the model), and compares exit status, final tree, traced calls and report lines.
All names are ASCII (the case maps of the model instance are the ASCII ones) and pairwise different in the
whole tree (no ties for the name sorter)."""
import json
import os

import common
from common import q_Z, q_bool, q_list, q_nat, q_str, q_strs
import pipe
from cli_driver import run_cli, snapshot
from sandbox import Sandbox

IMPORTS = ["Py.PathLib", "FS.Model", "Pipe.Pipeline", "Corr.PipeCorr", "Corr.WholeCorr"]
NAME = "Corr.WholeCorr.whole_case_ok (Whole.Main.tempren_main vs tempren.cli.main, no plan injection)"

STEMS = ["a", "b", "c", "Readme", "IMG_1", "img_2", "x", "data", "Zed", "k9", "a b", "note", "Mixed.Case", "q", "w0"]
EXTS = ["", "", ".txt", ".TXT", ".dat", ".tar.gz", ".jpg", ".JPG", ".c"]
DIRS = ["sub", "Dir2", "deep", "m", "n.d"]


def gen_tree(rng):
    """(spec, inputs): spec = [(relpath, kind, payload)] as pipe.materialise takes it."""
    inputs = [rng.choice(["in", "in", "d/in"])]
    if rng.random() < 0.4:
        inputs.append("in2")
    used = set()

    def fresh_name(hidden_ok=True):
        for _ in range(50):
            nm = rng.choice(STEMS) + rng.choice(EXTS)
            if hidden_ok and rng.random() < 0.15:
                nm = "." + nm
            if nm not in used and nm.lower() not in {u.lower() for u in used}:
                used.add(nm)
                return nm
        nm = "u%d" % len(used)
        used.add(nm)
        return nm

    spec = [("out", "d", None), ("out/keep.txt", "f", "keep")]
    used.update(["out", "keep.txt", "in", "in2", "d"])
    cid = [0]

    def content():
        cid[0] += 1
        return "c%d" % cid[0]

    def fill(d, depth):
        files = []
        for _ in range(rng.randrange(1, 6) if depth == 0 else rng.randrange(0, 4)):
            nm = fresh_name()
            r = rng.random()
            p = d + "/" + nm
            if r < 0.08:
                spec.append((p, "l", "nowhere-" + nm))            # dangling link: an entry to rename
            elif r < 0.14 and files:
                spec.append((p, "l", os.path.basename(rng.choice(files))))       # link to a sibling file
            else:
                spec.append((p, "f", content()))
                files.append(p)
        if depth < 2:
            for _ in range(rng.choice([0, 1, 1, 2]) if depth == 0 else rng.choice([0, 0, 1])):
                nm = rng.choice(DIRS)
                if rng.random() < 0.15:
                    nm = "." + nm
                if nm in used:
                    continue
                used.add(nm)
                spec.append((d + "/" + nm, "d", None))
                fill(d + "/" + nm, depth + 1)

    for d in inputs:
        spec.append((d, "d", None))
        fill(d, 0)
    return spec, inputs


LITS = ["x", "_", "-", "n", ".bak", "v2", " ", "A", ".", "0"]


def gen_count(rng):
    args = []
    if rng.random() < 0.6:
        args.append("start=%d" % rng.choice([0, 1, 3, 10, 99]))
    if rng.random() < 0.5:
        args.append("step=%d" % rng.choice([1, 2, 5, -1, -2, 10]))
    if rng.random() < 0.5:
        args.append("width=%d" % rng.choice([0, 1, 2, 3, 5]))
    if rng.random() < 0.3:
        args.append("common=%s" % rng.choice(["True", "False"]))
    if args and rng.random() < 0.25:                    # positional spelling of a prefix of the arguments
        vals = {"start": "0", "step": "1", "width": "0", "common": "False"}
        for a in args:
            k, v = a.split("=")
            vals[k] = v
        n = rng.randrange(1, 5)
        return "%Count(" + ",".join([vals[k] for k in ["start", "step", "width", "common"][:n]]) + ")"
    return "%Count(" + ",".join(args) + ")"


def quote(s, rng):
    """a str value as a template argument (the documented escapes)"""
    q = rng.choice("'\"") if rng.random() < 0.3 else "'"
    return q + s.replace("\\", "\\\\").replace(q, "\\" + q) + q


SETS = [" ", " ", "-", "_-", " -_", ".", "ab", "a-c", "^a", "x", "", "0"]


def gen_flags(rng, both_ok=True):
    l, r = rng.choice([(True, False), (False, True), (True, False), (False, True), (True, True), (False, False)])
    out = []
    if l:
        out.append(rng.choice(["left", "left", "left=True", "left=1"]))
    elif rng.random() < 0.1:
        out.append(rng.choice(["left=False", "left=0", "left=''"]))
    if r:
        out.append(rng.choice(["right", "right", "right=True", "right='y'"]))
    elif rng.random() < 0.1:
        out.append("right=False")
    return out


def gen_text_args(rng, tag):
    """argument text of a Text tag with arguments (ASCII only); now and then a value of an unexpected type"""
    odd = rng.random() < 0.06
    if tag == "Trim":
        w = rng.choice([1, 2, 3, 5, 8, 100, -1, -2, -5, -100, 0])
        ws = rng.choice(["'2'", "True", "False"]) if odd else str(w)
        return ", ".join([ws if rng.random() < 0.5 else "width=" + ws] + gen_flags(rng))
    if tag == "Pad":
        w = rng.choice([1, 2, 3, 4, 5, 6, 7, 10, 11, 20, 0, -3])
        ws = rng.choice(["'4'", "True"]) if odd else str(w)
        ch = rng.choice([" ", "0", "*", "_", "-", ".", "x", "ab", ""])
        parts = [ws]
        if not (ch == " " and rng.random() < 0.5):
            cs = rng.choice(["5", "True"]) if (odd and rng.random() < 0.5) else quote(ch, rng)
            parts.append(cs if rng.random() < 0.3 else "character=" + cs)
            if not parts[-1].startswith("character=") and rng.random() < 0.3:
                return ", ".join(parts + rng.choice([["True"], ["True", "True"], ["False", "True"], ["0", "1"]]))
        return ", ".join(parts + gen_flags(rng))
    if tag == "Strip":
        st = rng.choice(SETS)
        parts = []
        if not (st == " " and rng.random() < 0.5):
            ss = rng.choice(["5", "True"]) if odd else quote(st, rng)
            parts.append(ss if rng.random() < 0.6 else "strip_characters=" + ss)
        fl = gen_flags(rng)
        if parts and parts[0].startswith("strip_characters=") and rng.random() < 0.5:
            return ", ".join(fl + parts) if all("=" in f for f in fl) else ", ".join(parts + fl)
        return ", ".join(parts + fl)
    if tag == "Collapse":
        st = rng.choice(SETS)
        if st == " " and rng.random() < 0.5:
            return ""
        ss = rng.choice(["5", "False"]) if odd else quote(st, rng)
        return ss if rng.random() < 0.6 else "characters=" + ss
    sep = rng.choice([" ", "_", "-", ".", "ab", "", "x"])
    if sep == " " and rng.random() < 0.5:
        return ""
    ss = rng.choice(["5", "0", "True", "False"]) if odd else quote(sep, rng)
    return ss if rng.random() < 0.6 else "separator=" + ss


def gen_text_tag(rng, depth):
    tag = rng.choice(["Trim", "Pad", "Strip", "Collapse", "SplitCase"])
    q = rng.choice(["", "", "Text."])
    call = "%" + q + tag + "(" + gen_text_args(rng, tag) + ")"
    if depth >= 2:
        return call + "{" + rng.choice(["%Name()", "%Base()", " %Name() ", "a  b%Base()", "--%Base()__"]) + "}"
    if rng.random() < 0.3:                               # pipe spelling
        return gen_seq(rng, depth + 1, 2) + "|" + call
    return call + "{" + gen_seq(rng, depth + 1, 3) + "}"


def gen_piece(rng, depth):
    r = rng.random()
    if r < 0.22:
        return rng.choice(LITS)
    if r < 0.62:
        tag = rng.choice(["Name", "Base", "Ext", "Base", "Name"])
        q = rng.choice(["", "", "Core."])
        if depth < 2 and rng.random() < 0.15:
            return "%" + q + tag + "(){" + gen_seq(rng, depth + 1, 2) + "}"
        return "%" + q + tag + "()"
    if r < 0.70:
        return "%Dir()"
    if r < 0.82:
        return gen_count(rng)
    if r >= 0.91:
        return gen_text_tag(rng, depth)
    tag = rng.choice(["Upper", "Lower"])
    q = rng.choice(["", "", "Text."])
    if depth >= 2:
        return "%" + q + tag + "(){%Name()}"
    if rng.random() < 0.35:                              # pipe spelling
        return gen_seq(rng, depth + 1, 2) + "|%" + q + tag + "()"
    return "%" + q + tag + "(){" + gen_seq(rng, depth + 1, 3) + "}"


def gen_seq(rng, depth, maxlen):
    return "".join(gen_piece(rng, depth) for _ in range(rng.randrange(1, maxlen + 1)))


FIXED = ["%Name()", "%Base()%Ext()", "%Dir()/%Name()", "%Count()", "%Upper(){%Base()}%Ext()",
         "%Count(width=3)%Ext()", "%Dir()/%Count(start=1)_%Name()", "new/%Name()", "%Lower(){%Name()}",
         "%Name()|%Upper()", "%Count(step=-1,start=1)%Ext()", "%Base()%Count(common=True)%Ext()",
         "%Trim(3,right){%Base()}%Ext()", "%Trim(-1,left){%Base()}%Ext()", "%Pad(8,'0',left){%Base()}%Ext()",
         "%Pad(9,'*',left,right){%Base()}%Ext()", "%Strip('ab',left){%Base()}%Ext()", "%Strip(){ %Name() }",
         "%Collapse(){a  %Name()   b}", "%Collapse('_-'){%Base()__--x}%Ext()", "%SplitCase(){%Base()}%Ext()",
         "%SplitCase('_'){%Base()}|%Lower()", "%Base()|%Trim(2,right)|%Pad(5,'x',right)|%Upper()",
         "%Trim('2',left){%Name()}", "%Strip(5){%Name()}", "%SplitCase(7){%Name()}"]
BROKEN = ["%Nme()", "%Upper()", "%Name(", "%Name()}", "%Count(1,2,3,4,5)", "%Count(step=0)", "%Count(start=-1)",
          "%Count(){x}", "%Text.Name()", "%Count(bogus=1)", "%Upper{%Nme()}", "%Count(width=-2)",
          "%Trim(0,left){%Name()}", "%Trim(2){%Name()}", "%Trim(2,left,right){%Name()}", "%Trim(2,left)", "%Trim(left){x}",
          "%Pad(3){%Name()}", "%Pad(0,left){%Name()}", "%Pad(3,'ab',left){%Name()}", "%Pad(3,'',right){%Name()}",
          "%Pad(3,5,left){%Name()}", "%Pad('3',left){%Name()}", "%Collapse(''){%Name()}", "%Collapse(5){%Name()}",
          "%SplitCase(''){%Name()}", "%SplitCase(0){%Name()}", "%Strip(1,2,3,4){%Name()}", "%Core.Trim(1,left){x}",
          "%Strip()", "%Collapse(chars='x'){%Name()}"]


def gen_template(rng, mode):
    r = rng.random()
    if r < 0.2:
        return rng.choice(FIXED)
    if r < 0.27:
        return rng.choice(BROKEN)
    t = gen_seq(rng, 0, 4)
    if mode == "path" and rng.random() < 0.6:
        t = rng.choice(["%Dir()/", "%Dir()/", "moved/", "%Dir()/sub2/"]) + t
    if t.startswith("/") or t.startswith("-"):
        t = "x" + t
    return t


def gen_case(rng):
    spec, inputs = gen_tree(rng)
    # everything lives one level below the sandbox root: the model's root is the sandbox root, and a generated ".." next to
    # an input directory (directory mode without -r renames the input directories themselves) must not leave what is modelled
    spec = [("w", "d", None)] + [("w/" + p, k, pl) for p, k, pl in spec]
    inputs = ["w/" + d for d in inputs]
    mode = rng.choice(["name", "name", "path", "directory"])
    tpl = gen_template(rng, mode)
    sort = (mode != "directory") or rng.random() < 0.05
    return {"tree": spec, "inputs": inputs, "mode": mode, "template": tpl,
            "strategy": rng.choice(["stop", "stop", "ignore"]), "dry": rng.random() < 0.15,
            "recursive": rng.random() < 0.6, "hidden": rng.random() < 0.3, "sort": sort, "answers": []}


def argv_of(c):
    argv = [{"name": "-n", "path": "-p", "directory": "-d"}[c["mode"]],
            {"stop": "-cs", "ignore": "-ci", "override": "-co", "manual": "-cm"}[c["strategy"]]]
    if c["dry"]:
        argv.append("-dr")
    if c["recursive"]:
        argv.append("-r")
    if c["hidden"]:
        argv.append("-ih")
    if c["sort"]:
        argv += ["-s", "%Name()"]
    return argv + ["--", c["template"]] + c["inputs"]


def listing_order(root):
    """sandbox-relative paths of all entries, depth first in the order os.listdir hands them out"""
    out = []

    def walk(d, rel):
        for nm in os.listdir(d):
            p = os.path.join(d, nm)
            r = nm if rel == "" else rel + "/" + nm
            out.append(r)
            if os.path.isdir(p) and not os.path.islink(p):
                walk(p, r)
    walk(root, "")
    return out


def run_real(c):
    with Sandbox() as root:
        pipe.materialise(root, c["tree"])
        snap0, ids = pipe.id_map(root)
        order = listing_order(root)
        res = run_cli(argv_of(c), root, stdin_text="".join(a + "\n" for a in c["answers"]), root=root, snapshots=False)
        final = snapshot(root, with_times=False)
        tr = res.tracer
        calls = []
        for k in tr.calls:
            kind = {"rename": "CRename", "mkdir": "CMkdir", "move": "CMove"}.get(k["name"], "X_" + k["name"])
            calls.append((kind, {"ok": "COk", "fault": "CFault"}.get(k["outcome"], "CErr")))
        return {"status": res.status, "exception": res.exception, "initial": pipe.canon(snap0, ids, root),
                "order": order, "final": pipe.canon(final, ids, root), "calls": calls,
                "report": [(a.replace(root, ""), b.replace(root, ""), o) for a, b, o in res.report()],
                "prompts": min(res.prompts, len(c["answers"])), "inner": list(tr.inner),
                "stdout": res.stdout[-600:], "stderr": res.stderr[-600:]}


def q_fs_ordered(c, order):
    keys = [k for k in order if k in c] + sorted(k for k in c if k not in set(order))
    return q_list(["(%s, %s)" % (pipe.q_rpath(k), pipe.q_node(c[k])) for k in keys], "rpath * node")


def q_whole_case(c, obs):
    return ("{| wc_mode := %s; wc_strategy := %s; wc_dry := %s; wc_recursive := %s; wc_hidden := %s; wc_sort := %s; "
            "wc_answers := %s; wc_template := %s; wc_dirs := %s; wc_tree := %s; wc_obs := %s |}") % (
        {"name": "MName", "path": "MPath", "directory": "MDirectory"}[c["mode"]],
        {"stop": "Stop", "ignore": "Ignore", "override": "Override", "manual": "Manual"}[c["strategy"]],
        q_bool(c["dry"]), q_bool(c["recursive"]), q_bool(c["hidden"]), q_bool(c["sort"]),
        q_list([q_str(a) for a in c["answers"]], "str"), q_str(c["template"]),
        q_list([pipe.q_rpath(d) for d in c["inputs"]], "rpath"),
        q_fs_ordered(obs["initial"], obs["order"]), pipe.q_obs(obs))


def slim_obs(o):
    return {k: o[k] for k in ("status", "exception", "calls", "report", "stderr")}


def whole_stream(chk, rng, n, stats):
    cases, obss = [], []
    for _ in range(n):
        c = gen_case(rng)
        o = run_real(c)
        cases.append(c)
        obss.append(o)
        chk.count(("whole", json.dumps(c, sort_keys=True)), nontrivial=len(o["calls"]) > 0)
        stats["whole_runs"] = stats.get("whole_runs", 0) + 1
        key = "whole_status_%s" % o["status"]
        stats[key] = stats.get(key, 0) + 1
        stats["whole_renames"] = stats.get("whole_renames", 0) + len(o["report"])
        stats["whole_mode_" + c["mode"]] = stats.get("whole_mode_" + c["mode"], 0) + 1
    terms, idx = [], []
    for i, (c, o) in enumerate(zip(cases, obss)):
        if pipe.modelable(o) and o["status"] is not None and o["status"] >= 0:
            terms.append(q_whole_case(c, o))
            idx.append(i)
    stats["whole_excluded"] = stats.get("whole_excluded", 0) + len(cases) - len(terms)
    mism, errs = common.run_model_cases(IMPORTS, "whole_case", "whole_case_ok", terms, shard_size=60)
    for e in errs:
        chk.proof_failures.append({"what": "coqc on generated cases (%s)" % NAME, "log": e["output"]})
    for m in mism[:20]:
        i = idx[m]
        rc, out = common.coq_eval_term(IMPORTS, "(whole_check %s, whole_model %s)" % (terms[m], terms[m]))
        chk.corr_fail(NAME, {"case": cases[i], "argv": argv_of(cases[i])}, model=out[-3000:], impl=slim_obs(obss[i]))
    for m in mism[20:]:
        chk.corr_fail(NAME, {"case": cases[idx[m]], "argv": argv_of(cases[idx[m]])})
    stats["whole_compared"] = stats.get("whole_compared", 0) + len(terms)
    stats["whole_mismatches"] = stats.get("whole_mismatches", 0) + len(mism)
    return len(mism), len(errs)
