"""C03 — each conflict strategy does what its flag documents."""
import itertools
import json
import os
import re

import common
from common import q_list, q_str
import pipe
import impl  # noqa: F401
import tempren.cli as tcli
from tempren.pipeline import ConflictResolutionStrategy

ANSWER_RE = re.compile(r"destination path '(.*)' already exists")


def oracle(chk, scn, obs, stats):
    init, fin = obs["initial"], obs["final"]
    if scn["dry"] or scn["fault"] is not None or not pipe.modelable(obs):
        return
    an = pipe.analyse(scn, init)
    if an is None or an["nested"]:
        stats["not_clean"] += 1
        return
    stats["clean"] += 1
    conf = pipe.conflicts(scn, init, an)
    case = {"scenario": pipe.slim(scn), "status": obs["status"], "report": obs["report"], "stderr": obs["stderr"][-300:]}
    st = scn["strategy"]
    ids_f = {v[1]: p for p, v in fin.items() if v[0] != "d"}
    if st == "stop":
        if obs["status"] == 1 and "already exists" in obs["stderr"]:
            m = ANSWER_RE.search(obs["stderr"])
            named = m.group(1) if m else None
            culprits = [(s, d) for (s, d), c in conf.items() if c]
            if not culprits:
                chk.oracle_fail("stop: status 1 (%s) although no destination existed before, none is shared and none is nested"
                                % obs["stderr"].strip()[-120:], case)
                return
            ok_named = named is not None and any(d.endswith(named) or named.endswith(d.split("/")[-1]) for _, d in an["moves"])
            if not ok_named:
                chk.oracle_fail("stop: the error does not name a generated destination: %r" % named, case)
                return
            stats["stop_conflicts"] += 1
        elif obs["status"] not in (0, 1):
            kind_clash = any(d in init and (init[d][0] == "d") != (init[s][0] == "d") for s, d in an["moves"])
            if not kind_clash:
                chk.oracle_fail("stop: unexpected status %s on a clean plan: %s" % (obs["status"], obs["stderr"].strip()[-160:]), case)
                return
    elif st == "ignore":
        if obs["status"] != 0:
            chk.oracle_fail("ignore: exit status %s (%s) on a plan without invalid or escaping destinations"
                            % (obs["status"], obs["stderr"].strip()[-160:]), case)
            return
        for (s, d), c in conf.items():
            src_id = init[s][1] if init[s][0] != "d" else None
            if scn["mode"] == "directory":
                continue
            at_dst = fin.get(d, (None,))[:2] == init[s][:2]
            at_src = fin.get(s, (None,))[:2] == init[s][:2]
            if not c and not at_dst:
                chk.oracle_fail("ignore: %r has a free destination %r but was not renamed" % (s, d), case)
                return
            if at_src and not c:
                chk.oracle_fail("ignore: %r was left at its original path although its destination %r was free" % (s, d), case)
                return
        stats["ignore_ok"] += 1
    elif st == "override":
        if any(d in init and init[d][0] == "d" for _, d in an["moves"]) or scn["mode"] == "directory":
            stats["override_excluded_directories"] += 1
            return
        if scn["mode"] == "path" and any(c and (d not in init) for (s, d), c in conf.items()):
            return          # nested destinations / beneath a file: an OS error, not an occupied destination
        if obs["status"] != 0:
            chk.oracle_fail("override: exit status %s (%s)" % (obs["status"], obs["stderr"].strip()[-160:]), case)
            return
        srcs = {s for s, _ in an["moves"]} | set(an["stays"])
        dsts = [d for _, d in an["moves"]]
        for s, d in an["moves"]:
            if d in init and d not in srcs and dsts.count(d) == 1:
                if fin.get(d, (None,))[:2] != init[s][:2]:
                    # F33 (recorded): the source of this move is itself the destination of another selected file; under
                    # override the deferred renames are forced last-deferred-first, so the source can be overwritten
                    # before it has moved
                    chk.oracle_fail("override: destination %r was occupied by an unselected file but does not hold the content of %r afterwards" % (d, s), case,
                                    finding="F33" if s in dsts else None)
                    return
                stats["override_replaced"] += 1


def manual_equals_flag(chk, rng, scn, stats):
    """answer by answer, manual resolution behaves like the flag: the same scenario with the manual
    strategy and the answer spelled in any accepted way"""
    flag = scn["strategy"]
    if flag not in ("stop", "ignore", "override") or scn["dry"]:
        return
    word = {"stop": "stop", "ignore": "ignore", "override": "override"}[flag]
    spellings = [word[:k] for k in range(1, len(word) + 1)]
    if flag == "ignore":
        spellings.append("")
    sp = rng.choice(spellings)
    sp = "".join(ch.upper() if rng.random() < 0.4 else ch for ch in sp)
    garbage = rng.choice([[], ["zz"], ["x", "stopp"], ["?"]])
    base = pipe.run_impl(scn, keep_snapshots=False)
    n = max(1, len(scn["plan"]))
    s2 = dict(scn)
    s2["strategy"] = "manual"
    s2["answers"] = (garbage + [sp]) * n
    man = pipe.run_impl(s2, keep_snapshots=False)
    stats["manual_vs_flag"] += 1
    if (base["status"], pipe.strip_hash(base["final"]), base["report"]) != (man["status"], pipe.strip_hash(man["final"]), man["report"]):
        chk.oracle_fail("manual resolution with answer %r (after %r) differs from --conflict-%s: status %s vs %s, report %r vs %r"
                        % (sp, garbage, flag, man["status"], base["status"], man["report"][:4], base["report"][:4]),
                        {"scenario": pipe.slim(scn), "manual_answers": s2["answers"][:8]})
    return s2, man


def prompt_table(chk, quick):
    """cli_prompt_conflict_resolver vs Pipe.Pipeline.parse_answer on every string up to length 3 (4) over the
    letters of the option words + blank + X, and on every prefix / letter-case variant of the four words"""
    import builtins
    from pathlib import Path
    alpha = "stopignrevdcumah X"
    words = ["stop", "ignore", "override", "custom path"]
    cands = {""}
    for n in range(1, 4 if quick else 5):
        for t in itertools.product(alpha, repeat=n):
            cands.add("".join(t))
    for w in words:
        for k in range(1, len(w) + 1):
            p = w[:k]
            cands.update({p, p.upper(), p.capitalize(), p.swapcase(), p + "x", " " + p, p + " "})
    cands = sorted(cands)
    real_input = builtins.input
    obs = []
    import logging
    lg = logging.getLogger("CLI"); old = lg.level; lg.setLevel(logging.CRITICAL + 1)
    try:
        for c in cands:
            lines = iter([c, "THE/PATH", "i"])
            builtins.input = lambda prompt="": next(lines)
            r = tcli.cli_prompt_conflict_resolver(Path("a"), Path("b"))
            if isinstance(r, Path):
                o = "ACustom" if str(r) == "THE/PATH" else "AInvalid"
            else:
                # an invalid first answer re-prompts: the second scripted line is "THE/PATH" -> invalid again, third "i" -> ignore;
                # detect re-prompting by how many lines were consumed
                used = 3 - len(list(lines))
                o = {ConflictResolutionStrategy.ignore: "AIgnore", ConflictResolutionStrategy.stop: "AStop",
                     ConflictResolutionStrategy.override: "AOverride"}[r] if used == 1 else "AInvalid"
            obs.append(o)
    finally:
        builtins.input = real_input
        lg.setLevel(old)
    cases = ["(%s, %s)" % (q_str(c), o) for c, o in zip(cands, obs)]
    prelude = ("Definition answer_eqb (a b : answer) : bool := match a, b with AIgnore, AIgnore | AStop, AStop | AOverride, AOverride "
               "| ACustom, ACustom | AInvalid, AInvalid => true | _, _ => false end.")
    mism, errs = common.run_model_cases(["Py.PathLib", "FS.Model", "Pipe.Pipeline"], "str * answer",
                                        "(fun x => answer_eqb (parse_answer (fst x)) (snd x))", cases, shard_size=4000, prelude=prelude)
    for e in errs:
        chk.proof_failures.append({"what": "coqc on generated cases (parse_answer table)", "log": e["output"]})
    for m in mism[:20]:
        chk.corr_fail("Pipe.Pipeline.parse_answer vs tempren.cli.cli_prompt_conflict_resolver", {"answer": cands[m], "impl": obs[m]})
    # the property's own reading, independent of the model
    for c, o in zip(cands, obs):
        l = c.lower()
        exp = "AIgnore" if (l == "" or "ignore".startswith(l)) else "AStop" if "stop".startswith(l) else \
            "AOverride" if "override".startswith(l) else "ACustom" if "custom path".startswith(l) else "AInvalid"
        if o != exp:
            chk.oracle_fail("prompt answer %r is read as %s, documented reading %s" % (c, o, exp), {"scenario": {"mode": "-", "strategy": "manual", "answers": [c], "plan": []}})
            break
    return len(cands)


def run(chk):
    rng = chk.rng
    quick = chk.tier == "quick"
    n_scn = 1000 if quick else 40000
    stats = {"clean": 0, "not_clean": 0, "stop_conflicts": 0, "ignore_ok": 0, "override_replaced": 0,
             "override_excluded_directories": 0, "manual_vs_flag": 0}
    scns, obss = [], []
    cdir = os.path.join(common.VERIF, "corpus", "C03")
    if os.path.isdir(cdir):
        for f in sorted(os.listdir(cdir)):
            if f.endswith(".json"):
                s = json.load(open(os.path.join(cdir, f)))
                s["plan"] = [dict(e, r=tuple(e["r"])) for e in s["plan"]]
                s["tree"] = [tuple(x) for x in s["tree"]]
                scns.append(s)
    for i in range(n_scn):
        scns.append(pipe.gen_scenario(rng, dry=False, strategy=rng.choice(["stop", "ignore", "override", "manual"]), big=(i % 6 == 0)))
    small = []
    for st in ("stop", "ignore", "override"):
        small += list(pipe.exhaustive_plans(2, strategy=st)) + list(pipe.exhaustive_plans(2, strategy=st, roots=2))
        if not quick:
            small += list(pipe.exhaustive_plans(3, strategy=st))
    stats["exhaustive_small_scope"] = len(small)
    scns += small
    extra_s, extra_o = [], []
    for i, s in enumerate(scns):
        o = pipe.run_impl(s, keep_snapshots=False)
        oracle(chk, s, o, stats)
        chk.count((json.dumps(pipe.slim(s), sort_keys=True, default=str),), nontrivial=len(o["calls"]) > 0)
        obss.append(o)
        if i % 4 == 0:
            r = manual_equals_flag(chk, rng, s, stats)
            if r:
                extra_s.append(r[0]); extra_o.append(r[1])
    excluded = pipe.check_cases(chk, scns + extra_s, obss + extra_o)
    n_table = prompt_table(chk, quick)
    chk.coverage["evaluations"] += n_table
    for s, o in list(zip(scns, obss))[:3]:
        chk.sample({"mode": s["mode"], "strategy": s["strategy"], "answers": s["answers"], "plan": [(e["dir"], e["rel"], e["r"]) for e in s["plan"]][:4],
                    "status": o["status"], "report": o["report"][:3]})
    # the whole-program model (Whole/*.v), on which this property's whole-program theorems rest, against the real command line
    import whole as _whole
    import random as _random
    _ws = {}
    _whole.whole_stream(chk, _random.Random(chk.seed * 7919 + 3), 60 if chk.tier == "quick" else 2500, _ws)
    chk.notes["whole_program_tie"] = _ws
    chk.coverage["rule"] = (
        "generated trees x injected plans mixing free, duplicated, pre-existing, chained and cyclic destinations x mode x strategy x scripted "
        "answers through the real tempren.cli.main(); on plans of the clean family (no raising/invalid/escaping entries, no symlink on a "
        "path involved, counted) the four clauses are evaluated from an independent reading of the plan: stop exits 1 naming a generated "
        "destination only if some destination existed/is shared/nested; ignore exits 0, renames every file with a free destination, leaves only "
        "conflicting ones; override exits 0 and an occupied unselected destination holds the source afterwards (existing directories excluded); "
        "every fourth scenario is re-run with the manual strategy and the flag's answer in a random accepted spelling (prefix, letter case, after garbage) "
        "and must behave identically; the prompt parser is compared exhaustively on %d answer strings with the model and with the documented reading" % n_table)
    d = pipe.stats_of(scns + extra_s, obss + extra_o)
    d.update(stats)
    chk.coverage["input_distribution"] = d
    chk.coverage["excluded_from_model_comparison"] = excluded
    chk.coverage["trusted_base"] = common.BASE_TRUSTED + ["modelled, not verified: input(), str.lower() on the ASCII answers, pathlib/os primitives, rename(2) (FS/Model.v)"]
    chk.assumptions += ["override: destinations that are existing directories are excluded, as the property states"]


def replay(chk, obj):
    rc = 0
    stats = {"clean": 0, "not_clean": 0, "stop_conflicts": 0, "ignore_ok": 0, "override_replaced": 0,
             "override_excluded_directories": 0, "manual_vs_flag": 0}
    for f in obj.get("failures", [])[:5]:
        scn = f["case"]["scenario"]
        if not scn.get("plan"):
            print("prompt case:", f["what"]); rc = 1; continue
        scn["plan"] = [dict(e, r=tuple(e["r"])) for e in scn["plan"]]
        scn["tree"] = [tuple(x) for x in scn["tree"]]
        obs = pipe.run_impl(scn, keep_snapshots=False)
        print("scenario:", json.dumps(pipe.slim(scn), default=str)[:1200])
        print("status", obs["status"], "report", obs["report"], obs["stderr"][-200:])
        n = len(chk.oracle_failures)
        oracle(chk, scn, obs, stats)
        print("oracle:", "VIOLATED: " + chk.oracle_failures[-1]["what"] if len(chk.oracle_failures) > n else "holds (strategy clause); manual-vs-flag cases need the full check")
        rc |= int(len(chk.oracle_failures) > n)
    return rc
