"""C19 — hash tags equal the standard digests of the whole file."""
import hashlib
import os
import zlib

import common
from common import q_N, q_list, q_str
import impl
import refhash
from sandbox import Sandbox


def lcg_bytes(seed, n):
    out = bytearray()
    x = seed
    for _ in range(n):
        x = (x * 75 + 74) & 0xFFFF
        out.append(x >> 8)
    return bytes(out)


def mix(h, x):
    return (h * 1000003 + x + 1) & 0xFFFFFFFFFFFFFFFF


class ReadRecorder:
    """Wraps the file object the tag opens; records every read(n) and what it returned."""
    def __init__(self, f, log):
        self.f, self.log = f, log

    def read(self, n=-1):
        data = self.f.read(n)
        self.log.append((n, len(data)))
        return data

    def __enter__(self):
        self.f.__enter__()
        return self

    def __exit__(self, *a):
        return self.f.__exit__(*a)

    def __getattr__(self, name):
        return getattr(self.f, name)


def run(chk):
    rng = chk.rng
    import tempren.tags.hash as H
    chunk = int(H.CHUNK_SIZE)
    stats = {"chunk_size": chunk, "lengths": [], "leading_zero_crc": 0, "large_files": [], "modes_seen": {}}

    # --- 1. bit-level CRC model vs zlib.crc32: random vectors, explicit cases
    n_vec = 1500 if chk.tier == "quick" else 20000
    cases, metas = [], []
    for i in range(n_vec):
        ln = rng.choice([0, 1, 2, 3, 4, 7, 8, 9, 16, 31, 64]) if rng.random() < 0.8 else rng.randrange(0, 200)
        data = bytes(rng.randrange(256) for _ in range(ln))
        start = rng.choice([0, 0, 1, 0xFFFFFFFF, 0x80000000, rng.randrange(2 ** 32)])
        r = zlib.crc32(data, start)
        cases.append("(%s, %d, %d)" % (q_str(data), start, r))
        metas.append({"data": data.hex(), "start": start, "zlib": r})
        chk.count(("crc", data, start))
    chk.sample({"zlib.crc32": metas[0]})
    mism, errs = common.run_model_cases(["Tags.Hash", "Corr.HashCorr"], "crc_case", "crc_case_ok", cases)
    for e in errs:
        chk.proof_failures.append({"what": "coqc on generated cases (crc_case_ok)", "log": e["output"]})
    for m in mism:
        chk.corr_fail("Corr.HashCorr.crc_case_ok (Tags.Hash.crc32 vs zlib.crc32)", metas[m])

    # exhaustive: every 1-byte and 2-byte string, compared through a rolling digest
    h1 = 0
    for a in range(256):
        h1 = mix(h1, zlib.crc32(bytes([a])))
    h2 = 0
    for a in range(256):
        for b in range(256):
            h2 = mix(h2, zlib.crc32(bytes([a, b])))
    rc, out = common.coq_eval_term(["Tags.Hash", "Corr.HashCorr"], "(crc_digest_1, crc_digest_2)", timeout=600)
    import re
    m = re.search(r"\(\s*(\d+)\s*,\s*(\d+)\s*\)", out)
    chk.coverage["evaluations"] += 256 + 65536
    chk.distinct.add(b"exh1"); chk.distinct.add(b"exh2")
    if rc != 0 or not m:
        chk.proof_failures.append({"what": "coqc crc_digest", "log": out[-2000:]})
    elif (int(m.group(1)), int(m.group(2))) != (h1, h2):
        chk.corr_fail("Corr.HashCorr.crc_digest_{1,2} (all 1- and 2-byte strings vs zlib.crc32)",
                      {"python": [h1, h2], "coq": [int(m.group(1)), int(m.group(2))]})
    chk.notes["exhaustive_crc_1_2_byte_strings"] = True

    # --- 2. the five tags on real files
    mults = 2 if chk.tier == "quick" else 4
    lengths = [0, 1, 2, 13]
    for k in range(1, mults + 1):
        lengths += [k * chunk + d for d in (-2, -1, 0, 1, 2)]
    if chk.tier == "thorough":
        lengths += [rng.randrange(0, 3 * chunk) for _ in range(40)]
    tags = ["Md5", "Sha1", "Sha224", "Sha256", "Crc32"]
    std = {"Md5": lambda d: hashlib.md5(d).hexdigest(), "Sha1": lambda d: hashlib.sha1(d).hexdigest(),
           "Sha224": lambda d: hashlib.sha224(d).hexdigest(), "Sha256": lambda d: hashlib.sha256(d).hexdigest(),
           "Crc32": lambda d: "%08x" % zlib.crc32(d)}
    ref = {"Md5": refhash.md5, "Sha1": refhash.sha1, "Sha224": refhash.sha224, "Sha256": refhash.sha256}
    pats = {}
    with impl.quiet_streams():
        for t in tags:
            pats[t] = impl.compile_template("%" + t + "()")
    tag_cases, tag_metas = [], []
    with Sandbox() as root:
        d = os.path.join(root, "in")
        os.mkdir(d)

        def check_file(name, data, seed, in_model, via_link=False):
            p = os.path.join(d, name)
            if via_link:
                # the entry is a symbolic link to the file: "the content of the file" is what the link leads to
                p = os.path.join(d, "target-of-" + name)
                os.symlink(os.path.basename(p), os.path.join(d, name))
                stats["via_link"] = stats.get("via_link", 0) + 1
            with open(p, "wb") as fh:
                fh.write(data)
            os.chmod(p, 0o444 if len(data) % 2 else 0o644)
            st0 = os.lstat(p)
            f = impl.mkfile(d, name)
            for t in tags:
                log = []
                real_open = open
                H.open = lambda path, mode="r", *a, **k: ReadRecorder(real_open(path, mode, *a, **k), log)
                stats["modes_seen"].setdefault(t, set())
                try:
                    got = pats[t].process(f)
                finally:
                    del H.open
                case = {"tag": t, "length": len(data), "seed": seed, "file": name, "via_symlink": via_link}
                chk.count(("tag", t, len(data), seed, via_link))
                if got != std[t](data):
                    chk.oracle_fail("%%%s() rendered %r, standard digest of the whole file is %r" % (t, got, std[t](data)), case)
                if t in ref and len(data) <= 70000 and got != ref[t](data):
                    chk.oracle_fail("%%%s() rendered %r, independent reference gives %r" % (t, got, ref[t](data)), case)
                if t == "Crc32" and in_model:
                    reads = [r for (_, r) in log if r > 0]
                    tag_cases.append("(%d, %d, %d, %s, %s)" % (
                        seed, len(data), chunk, q_str(got if isinstance(got, str) else repr(got)),
                        q_list(["%d%%nat" % r for r in reads], "nat")))
                    tag_metas.append(dict(case, rendered=got, reads=log[:8]))
                    if got.startswith("0"):
                        stats["leading_zero_crc"] += 1
            st1 = os.lstat(p)
            if (st0.st_mtime_ns, st0.st_size, st0.st_mode, st0.st_ino) != (st1.st_mtime_ns, st1.st_size, st1.st_mode, st1.st_ino) \
                    or open(p, "rb").read() != data:
                chk.oracle_fail("file modified by a hash tag", {"file": name, "length": len(data)})
            os.chmod(p, 0o644)
            os.unlink(p)
            if via_link:
                os.unlink(os.path.join(d, name))

        for i, ln in enumerate(lengths):
            seed = rng.randrange(65536)
            check_file("f%d.bin" % i, lcg_bytes(seed, ln), seed, True)
            stats["lengths"].append(ln)
        # order effects: the same tag instances see an empty file AFTER non-empty ones, equal contents twice in a row,
        # and files reached through a symbolic link (whose own lstat size is the length of the target string)
        seq = [5, 0, 0, 3, 0, chunk + 1, 0, 1, 1]
        for i, ln in enumerate(seq):
            seed = rng.randrange(65536)
            check_file("s%d.bin" % i, lcg_bytes(seed, ln), seed, True)
        for i, ln in enumerate([0, 1, 7, 40, 200, chunk - 1, chunk + 3, 0]):
            seed = rng.randrange(65536)
            check_file("l%d.bin" % i, lcg_bytes(seed, ln), seed, True, via_link=True)
        stats["order_sequence"] = seq
        # contents whose CRC has leading zeros (searched), short so that the model evaluates them too
        found = 0
        seed = rng.randrange(65536)
        tries = 0
        while found < (3 if chk.tier == "quick" else 12) and tries < 200000:
            tries += 1
            seed = (seed + 1) % 65536
            ln = 1 + (tries % 40)
            data = lcg_bytes(seed, ln)
            if zlib.crc32(data) < 0x01000000:
                check_file("z%d.bin" % found, data, seed, True)
                found += 1
        stats["leading_zero_searched"] = found
        # equal relative names in two input directories, different contents, same tag instances (a digest remembered
        # per relative path or per name shows here)
        d2 = os.path.join(root, "other", "in")
        os.makedirs(d2)
        for i, (l1, l2) in enumerate([(10, 11), (0, 5), (chunk, chunk), (300, 300)]):
            nm = "same%d.bin" % i
            for dd, ln, sd in ((d, l1, 1000 + i), (d2, l2, 2000 + i)):
                data = lcg_bytes(sd, ln)
                with open(os.path.join(dd, nm), "wb") as fh:
                    fh.write(data)
            for dd, ln, sd in ((d, l1, 1000 + i), (d2, l2, 2000 + i), (d, l1, 1000 + i)):
                data = lcg_bytes(sd, ln)
                f = impl.mkfile(dd, nm)
                for t in tags:
                    got = pats[t].process(f)
                    chk.count(("tag-two-roots", t, i, dd == d))
                    if got != std[t](data):
                        chk.oracle_fail("%%%s() rendered %r for %s, the digest of ITS content is %r (a file of the same relative name exists in another input directory)"
                                        % (t, got, os.path.join(os.path.basename(os.path.dirname(dd)), nm), std[t](data)),
                                        {"tag": t, "file": nm, "two_roots": True, "lengths": [l1, l2]})
            os.unlink(os.path.join(d, nm)); os.unlink(os.path.join(d2, nm))
        stats["two_roots_same_name"] = 4
        # names that differ in Unicode normal form only are different files: each is hashed for ITS content
        twins = [("re\u0301sume\u0301.dat", "r\u00e9sum\u00e9.dat"), ("A\u030angstro\u0308m", "\u00c5ngstr\u00f6m"), ("\u2126.bin", "\u03a9.bin")]
        for i, (n1, n2) in enumerate(twins):
            for nm, sd, ln in ((n1, 3000 + i, 20 + i), (n2, 4000 + i, 33 + i)):
                with open(os.path.join(d, nm), "wb") as fh:
                    fh.write(lcg_bytes(sd, ln))
            for nm, sd, ln in ((n1, 3000 + i, 20 + i), (n2, 4000 + i, 33 + i)):
                data = lcg_bytes(sd, ln)
                f = impl.mkfile(d, nm)
                for t in tags:
                    try:
                        got = pats[t].process(f)
                    except Exception as e:      # noqa: BLE001
                        got = "%s: %s" % (type(e).__name__, e)
                    chk.count(("tag-unicode-twin", t, i, nm == n1))
                    if got != std[t](data):
                        chk.oracle_fail("%%%s() rendered %r for a file whose name is %r, the digest of its content is %r (a file whose name is the other normal form exists next to it)"
                                        % (t, got, nm, std[t](data)), {"tag": t, "file": nm, "length": ln})
            os.unlink(os.path.join(d, n1)); os.unlink(os.path.join(d, n2))
        stats["unicode_twin_names"] = len(twins)
        # large files: implementation vs one-shot only
        for size in ([1 << 20, (1 << 20) + 1, (1 << 20) + 4097 + 65536] if chk.tier == "quick" else [1 << 20, (1 << 20) + 1, (1 << 21) + 70001, (1 << 24) + 1]):
            seed = rng.randrange(65536)
            data = (lcg_bytes(seed, 65536) * (size // 65536 + 1))[:size]
            check_file("big%d.bin" % size, data, seed, False)
            stats["large_files"].append(size)
    # a digest is TEXT also where it enters a filter or sort expression: contents whose CRC-32 consists of decimal digits only
    import cli_driver
    found = []
    sd = rng.randrange(65536)
    for k in range(4000):
        data = lcg_bytes((sd + k) % 65536, 1 + k % 30)
        hx = "%08x" % zlib.crc32(data)
        if hx.isdigit() and hx[0] != "0":
            found.append((data, hx))
            if len(found) == 2:
                break
    for data, hx in found:
        with Sandbox() as root:
            d = os.path.join(root, "in")
            os.mkdir(d)
            with open(os.path.join(d, "dec.bin"), "wb") as fh:
                fh.write(data)
            with open(os.path.join(d, "other.bin"), "wb") as fh:
                fh.write(data + b"!")
            res = cli_driver.run_cli(["-ft", "%%Crc32() == '%s' and %%Md5() == '%s'" % (hx, hashlib.md5(data).hexdigest()), "--", "hit_%Name()", d],
                                     root, root=root, snapshots=False, trace=False)
            names = sorted(os.listdir(d))
        chk.count(("crc-in-expression", hx))
        stats["decimal_crc_in_expression"] = stats.get("decimal_crc_in_expression", 0) + 1
        if res.status != 0 or names != ["hit_dec.bin", "other.bin"]:
            chk.oracle_fail("a file whose CRC-32 is %s (decimal digits only) compared with that text in a filter expression: status %s, names %r" % (
                hx, res.status, names), {"tag": "Crc32", "digest": hx, "length": len(data), "stderr": res.stderr[-200:]})
    chk.sample({"crc32_tag_case": tag_metas[0] if tag_metas else None})
    mism, errs = common.run_model_cases(["Tags.Hash", "Corr.HashCorr"], "tag_case", "tag_case_ok", tag_cases,
                                        shard_size=2, timeout=900)
    for e in errs:
        chk.proof_failures.append({"what": "coqc on generated cases (tag_case_ok)", "log": e["output"]})
    for m in mism:
        chk.corr_fail("Corr.HashCorr.tag_case_ok (Crc32Tag: read loop chunk lengths + %08x text vs model)", tag_metas[m])

    stats["modes_seen"] = {}
    chk.coverage["rule"] = (
        "zlib.crc32 vs the bit-level Coq CRC on random (data, start) vectors and exhaustively on all 1-/2-byte strings; "
        "the five real tags through compiled templates on files of length 0,1,2,13 and every length within +-2 of k*CHUNK_SIZE "
        "(CHUNK_SIZE read from the module), contents with leading-zero CRCs, and large files, against one-shot hashlib/zlib and "
        "an independent pure-Python MD5/SHA implementation; for Crc32 also against the Coq model (read sizes observed by "
        "wrapping open()); distinct by (kind, content/length, start)")
    chk.coverage["input_distribution"] = stats
    chk.coverage["trusted_base"] = common.BASE_TRUSTED + [
        "assumed as hypothesis of C19_streaming: hashlib's update(a);update(b) == update(a+b) (MD5/SHA cores are not modelled)",
        "modelled, not verified: BufferedReader.read(n) on a regular file returns min(n, remaining) bytes; zlib.crc32 (bit-level model, compared)"]
    chk.assumptions += ["MD5/SHA-1/SHA-224/SHA-256 compression functions are outside the model; the tags are compared with hashlib one-shot and an independent implementation on the generated files only"]
