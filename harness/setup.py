"""MANIFEST.setup_cmd: full .vo build of the Coq development (no -vos), offline."""
import os
import sys
sys.path.insert(0, os.path.dirname(os.path.abspath(__file__)))
import common

ok, log = common.coq_build()
print(log[-6000:])
bad = common.hygiene()
if bad:
    print("HYGIENE:", bad)
sys.exit(0 if ok and not bad else 1)
