"""MANIFEST.setup_cmd: full .vo build of the Coq development (no -vos), offline."""
import os
import sys
sys.path.insert(0, os.path.dirname(os.path.abspath(__file__)))
import common

# scratch directories left behind by runs of these checks that were killed from outside (older than six hours)
import shutil
import time
_root = common.scratch_root()
for _n in os.listdir(_root):
    if _n.startswith("verif-"):
        _p = os.path.join(_root, _n)
        try:
            if os.path.isdir(_p) and time.time() - os.lstat(_p).st_mtime > 6 * 3600:
                shutil.rmtree(_p, ignore_errors=True)
        except OSError:
            pass

ok, log = common.coq_build()
print(log[-6000:])
bad = common.hygiene()
if bad:
    print("HYGIENE:", bad)
sys.exit(0 if ok and not bad else 1)
