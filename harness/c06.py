"""C06 — renames stay inside the input directory and respect the mode."""
import json
import os

import common
import pipe


def custom_path_possible(scn):
    if scn["strategy"] != "manual":
        return False
    for a in scn["answers"]:
        l = a.lower()
        if l and "custom path".startswith(l) and not "ignore".startswith(l) and not "stop".startswith(l) and not "override".startswith(l):
            return True
    return False


def inside(path, d):
    return path == d or path.startswith(d + "/")


def lexical_escape(scn, e, init):
    """True if the destination certainly resolves outside the input directory: decided lexically,
    only when no symbolic link is involved in any component (else None = not decided here)."""
    kind, val = e["r"]
    if kind == "raise" or scn["mode"] != "path":
        return None
    base = e["dir"].split("/")
    if kind == "abs":
        parts = [c for c in val.split("/") if c not in ("", ".")]
        cur = []
    else:
        if val.startswith("/"):
            return True
        parts = [c for c in val.split("/") if c not in ("", ".")]
        cur = list(base)
    for c in parts:
        if c == "..":
            if cur:
                cur.pop()
        else:
            cur.append(c)
        p = "/".join(cur)
        if p in init and init[p][0] == "l":
            return None
    for i in range(1, len(base) + 1):
        p = "/".join(base[:i])
        if p in init and init[p][0] == "l":
            return None
    return not (cur[: len(base)] == base)


def oracle(chk, scn, obs, stats):
    case = {"scenario": pipe.slim(scn), "status": obs["status"], "calls": obs["raw_calls"]}
    init, fin = obs["initial"], obs["final"]
    # (a) every call changes only paths inside the input directory of the file being processed (= its cwd)
    if not custom_path_possible(scn) and pipe.modelable(obs):
        prev = init
        for i, (snap, call) in enumerate(zip(obs["snapshots"], obs["raw_calls"])):
            cwd = call[2].replace("ROOT/", "").replace("ROOT", "")
            changed = [p for p in set(prev) | set(snap) if prev.get(p) != snap.get(p)]
            bad = [p for p in changed if not inside(p, cwd)]
            if bad:
                chk.oracle_fail("call %d (%s %r in %s) changed entries outside that input directory: %r"
                                % (i, call[0], call[1], call[2], sorted(bad)[:4]), case)
                return
            prev = snap
        stats["confined_calls"] += len(obs["raw_calls"])
    # (e) a destination that lexically escapes is refused with status 1 (unless the run ended earlier for another reason)
    for e in scn["plan"]:
        esc = lexical_escape(scn, e, init)
        if esc:
            stats["escaping_destinations"] += 1
            if obs["status"] == 0:
                chk.oracle_fail("destination %r of %s/%s resolves outside the input directory but the run exited 0"
                                % (e["r"], e["dir"], e["rel"]), case)
                return
    ids_i = {v[1]: p for p, v in init.items() if v[0] != "d"}
    ids_f = {v[1]: p for p, v in fin.items() if v[0] != "d"}
    if scn["mode"] == "name":
        # (b) a file never changes its parent directory
        # (also under override: an overwritten entry disappears, but nothing ever changes its parent)
        for i, p in ids_i.items():
            q = ids_f.get(i)
            if q is not None and os.path.dirname(q) != os.path.dirname(p):
                chk.oracle_fail("name mode moved %r to another directory: %r" % (p, q), case)
                return
        # (c) an empty name or one containing a separator is refused
        for e in scn["plan"]:
            kind, val = e["r"]
            if kind == "abs" or (kind == "text" and (val == "" or "/" in val)):
                stats["invalid_names"] += 1
                if obs["status"] == 0:
                    chk.oracle_fail("generated name %r for %s/%s is empty or contains a separator but the run exited 0"
                                    % (val, e["dir"], e["rel"]), case)
                    return
    if scn["mode"] == "directory":
        # (d) only directories are renamed: every non-directory keeps its name and its parent directory (by inode)
        di = dict(obs["dirs_initial"]); df = dict(obs["dirs_final"])
        di[""] = df[""] = obs["root_ino"]
        overriding = scn["strategy"] == "override" or any(pipe.is_override_answer(a) for a in scn["answers"])
        for i, p in ids_i.items():
            if init[p][0] == "l" and pipe.link_leads_to_dir(scn["tree"], p):
                continue            # a link that leads to a directory is a directory to the gatherers
            q = ids_f.get(i)
            if q is None:
                if not overriding:
                    chk.oracle_fail("directory mode lost the non-directory %r" % p, case)
                    return
                continue
            if os.path.basename(p) != os.path.basename(q) or di.get(os.path.dirname(p)) != df.get(os.path.dirname(q)):
                chk.oracle_fail("directory mode changed the name or parent of the non-directory %r (now %r)" % (p, q), case)
                return


def real_stream(chk, rng, n, stats):
    """Real gatherers and real templates (no plan injection): directories and plain files mixed on the command
    line, every mode; the mode clause is judged on what the run did: directory mode renames directories only,
    name mode keeps every parent, nothing outside the input directories changes."""
    from cli_driver import run_cli, snapshot, build_tree
    from sandbox import Sandbox
    for _ in range(n):
        spec, inputs = pipe.gen_tree(rng)
        mode = rng.choice(["directory", "directory", "name", "path"])
        tpl = {"directory": rng.choice(["%Upper{%Name()}", "x%Name()", "%Name()_d"]),
               "name": rng.choice(["%Upper{%Name()}", "x%Name()", "%Base()_n%Ext()"]),
               "path": rng.choice(["%Dir()/x%Name()", "moved/%Name()", "%Dir()/s/%Name()"])}[mode]
        def leads_up(p, k, pl):
            if k != "l":
                return False
            tgt = pl.replace("ROOT/", "").replace("ROOT", "") if pl.startswith("ROOT") else os.path.normpath(os.path.join(os.path.dirname(p), pl))
            return tgt in ("", ".") or inside(os.path.dirname(p), tgt) or tgt.startswith("..")
        spec = [t for t in spec if not leads_up(*t)]       # a link to an ancestor makes --recursive gathering run away (not this property)
        if rng.random() < 0.35:
            # F32's situation, made frequent: a link below an input directory that leads to the directory 'out' outside it
            d = rng.choice(inputs)
            nm = rng.choice(["zl", "a", "1", "k"])
            if not any(p == d + "/" + nm for p, _, _ in spec):
                spec.append((d + "/" + nm, "l", rng.choice(["ROOT/out", "../" * (d.count("/") + 1) + "out"])))
                if mode == "path" and rng.random() < 0.6:
                    tpl = "moved/%Name()"      # the destination lies inside: only the test on the source's real directory can refuse
        forced = []
        if rng.random() < 0.3:
            # an entry named on the command line that is itself a symbolic link to a file (or directory) OUTSIDE: the link is
            # the entry, its own directory the input directory
            d = rng.choice(inputs)
            nm = rng.choice(["xl", "el", "0l"])
            if not any(p == d + "/" + nm for p, _, _ in spec):
                up = "../" * (d.count("/") + 1)
                spec.append((d + "/" + nm, "l", rng.choice(["ROOT/out/keep.txt", up + "out/keep.txt", up + "out"])))
                forced.append(d + "/" + nm)
        dotdot_input = None
        if rng.random() < 0.15 and not any(p.split("/")[0] in ("lk2",) for p, _, _ in spec):
            # an input directory named through a symbolic link followed by "..": the kernel goes to the parent of the link's
            # TARGET (out/zone here), a lexical reading would end at the bystander directory of the same name next to the link
            spec += [("out/nest", "d", None), ("out/zone", "d", None), ("out/zone/u.txt", "f", "U"), ("out/zone/v", "f", "V"), ("out/zone/dd", "d", None),
                     ("lk2", "l", "out/nest"), ("zone", "d", None), ("zone/w.txt", "f", "W"), ("zone/dd", "d", None)]      # "zone": a bystander
            dotdot_input = "lk2/../zone"
        with Sandbox() as root:
            pipe.materialise(root, spec)
            snap0, ids = pipe.id_map(root)
            init = pipe.canon(snap0, ids, root)
            args = list(forced) + ([dotdot_input] if dotdot_input else [])
            stats["real_stream_dotdot_through_link_input"] = stats.get("real_stream_dotdot_through_link_input", 0) + (1 if dotdot_input else 0)
            stats["real_stream_explicit_outward_link"] = stats.get("real_stream_explicit_outward_link", 0) + len(forced)
            for d in inputs:
                if forced and rng.random() < 0.5:
                    continue
                args.append(d)
                ents = [p for p, v in init.items() if p.startswith(d + "/") and p.count("/") == d.count("/") + 1]
                rng.shuffle(ents)
                args += ents[: rng.randrange(0, 3)]          # plain files / links / sub-directories named explicitly too
            rng.shuffle(args)
            argv = [{"name": "-n", "path": "-p", "directory": "-d"}[mode]]
            if rng.random() < 0.6:
                argv.append("-r")
            if rng.random() < 0.5:
                argv.append("-ih")
            argv.append(rng.choice(["-cs", "-ci"]))
            argv += ["--", tpl] + args
            # symlinks among the arguments that lead to a directory, with their resolved path (relative to the sandbox root)
            link_dirs = {}
            for a in args:
                full = os.path.join(root, a)
                if os.path.isdir(full) and (os.path.islink(full) or ".." in a.split("/")):
                    link_dirs[a] = os.path.relpath(os.path.realpath(full), root)
            # the directory an explicitly named entry lives in, as the kernel resolves it (the entry's own name is kept)
            parent_real = {}
            for a in args:
                pr = os.path.relpath(os.path.realpath(os.path.join(root, os.path.dirname(a))), root)
                parent_real[a] = "" if pr == "." else pr
            # symbolic links that lead to a directory count as directories (the gatherers follow links)
            dirlinks = {rel: os.path.relpath(os.path.realpath(os.path.join(root, rel)), root)
                        for rel, v in init.items() if v[0] == "l" and os.path.isdir(os.path.join(root, rel))}
            root0 = root
            res = run_cli(argv, root, root=root, snapshots=False)
            fin = pipe.canon(snapshot(root, with_times=False), ids, root)
            dirs0 = {rel: v[1] for rel, v in snap0.items() if v[0] == "dir"}
            dirs1 = {rel: v[1] for rel, v in snapshot(root, with_times=False).items() if v[0] == "dir"}
            root_ino = os.lstat(root).st_ino
        stats["real_stream_runs"] = stats.get("real_stream_runs", 0) + 1
        chk.count(("real", mode, tuple(argv[:-len(args)]), tuple(args), json.dumps(spec, default=str)), nontrivial=bool(res.tracer.calls))
        case = {"scenario": {"mode": mode, "strategy": "real gatherers", "answers": [], "plan": [], "tree": spec, "argv": argv}, "status": res.status,
                "calls": [(c["name"], c["args"]) for c in res.tracer.calls][:6]}
        ids_i = {v[1]: p for p, v in init.items() if v[0] != "d"}
        ids_f = {v[1]: p for p, v in fin.items() if v[0] != "d"}
        # the input directory of every designated entry, as the property reads the command line: a directory argument is
        # an input directory (resolved: it may be a symlink), except in directory mode without --recursive where the
        # directory itself is the entry and its PARENT the input directory; a non-directory argument has its parent
        ins = []
        for a in args:
            full = os.path.join(root, a)
            kind = init.get(a, ("?",))[0]
            target_is_dir = kind == "d" or (a in link_dirs)
            if target_is_dir and not (mode == "directory" and "-r" not in argv):
                ins.append(link_dirs.get(a, a))
            else:
                ins.append(parent_real.get(a, os.path.dirname(a)))
        # the situation of F32 (fixed): path mode + --recursive + a symbolic link below an input directory that leads to a
        # directory outside it -- recursive gathering descends the link and the pipeline has to refuse the files behind it
        outward = [l for l, tgt in dirlinks.items() if any(inside(l, dd) for dd in ins)
                   and not any(dd in ("", ".") or inside(tgt, dd) for dd in ins)]
        if outward and mode == "path" and "-r" in argv:
            stats["real_stream_outward_link_path_recursive"] = stats.get("real_stream_outward_link_path_recursive", 0) + 1
            if res.status == 1:
                stats["real_stream_outward_link_status_1"] = stats.get("real_stream_outward_link_status_1", 0) + 1
            if tpl == "moved/%Name()":
                stats["real_stream_outward_link_destination_inside"] = stats.get("real_stream_outward_link_destination_inside", 0) + 1
            if " lives in " in (res.stderr or "") + (res.stdout or "") and \
                    "which is outside of the input directory" in (res.stderr or "") + (res.stdout or ""):       # F32's message (F34's says "lies in")
                stats["real_stream_source_outside_refused"] = stats.get("real_stream_source_outside_refused", 0) + 1
        for p in set(init) | set(fin):
            if init.get(p) != fin.get(p) and not any(d in ("", ".") or inside(p, d) for d in ins):
                chk.oracle_fail("the run changed %r, which is outside every input directory" % p, case)
                break
        else:
            if mode == "directory":
                dirs0[""] = dirs1[""] = root_ino
                for i, p in ids_i.items():
                    if p in dirlinks:
                        continue
                    q = ids_f.get(i)
                    if q is None or os.path.basename(p) != os.path.basename(q) or dirs0.get(os.path.dirname(p)) != dirs1.get(os.path.dirname(q)):
                        chk.oracle_fail("directory mode changed the name or parent of the non-directory %r (now %r)" % (p, q), case)
                        break
            elif mode == "name":
                for i, p in ids_i.items():
                    q = ids_f.get(i)
                    if q is not None and os.path.dirname(q) != os.path.dirname(p):
                        chk.oracle_fail("name mode moved %r to another directory: %r" % (p, q), case)
                        break


def spelling_grammar(max_comps):
    """Every destination spelled with up to max_comps components from {.., ., sub, in2, link (-> ../in2), inl (-> sub),
    missing}, relative and absolute (inside the sandbox), for one file in path mode: the grammar of ways to leave — or
    not leave — the input directory."""
    import itertools
    comps = ["..", ".", "sub", "in2", "link", "inl", "zz"]
    tree = [("out", "d", None), ("in2", "d", None), ("in2/z", "f", "Z"), ("in2/a", "f", "other"), ("in", "d", None), ("in/a", "f", "A"),
            ("in/sub", "d", None), ("in/sub/s", "f", "S"), ("in/link", "l", "../in2"), ("in/inl", "l", "sub")]
    for n in range(1, max_comps + 1):
        for t in itertools.product(comps, repeat=n):
            for leaf in ("t", None):
                if leaf is None and n == 1:
                    continue
                rel = "/".join(t + ((leaf,) if leaf else ()))
                for kind in ("text", "abs"):
                    val = rel if kind == "text" else "in/" + rel
                    yield {"tree": list(tree), "inputs": ["in"], "mode": "path", "strategy": "stop", "dry": False, "answers": [], "fault": None,
                           "plan": [{"dir": "in", "spelled": "in", "rel": "a", "r": (kind, val)}], "variant": pipe.FIXED_VARIANT}


def run(chk):
    rng = chk.rng
    quick = chk.tier == "quick"
    n_scn = 1000 if quick else 40000
    stats = {"confined_calls": 0, "escaping_destinations": 0, "invalid_names": 0,
             "real_stream_outward_link_path_recursive": 0, "real_stream_outward_link_status_1": 0,
             "real_stream_outward_link_destination_inside": 0,
             "real_stream_source_outside_refused": 0}
    scns = []
    cdir = os.path.join(common.VERIF, "corpus", "C06")
    if os.path.isdir(cdir):
        for f in sorted(os.listdir(cdir)):
            if f.endswith(".json"):
                s = json.load(open(os.path.join(cdir, f)))
                s["plan"] = [dict(e, r=tuple(e["r"])) for e in s["plan"]]
                s["tree"] = [tuple(x) for x in s["tree"]]
                scns.append(s)
    for i in range(n_scn):
        mode = rng.choice(["name", "path", "path", "path", "directory"])
        scns.append(pipe.gen_scenario(rng, mode=mode, big=(i % 6 == 0)))
    grammar = list(spelling_grammar(2 if quick else 4))
    if not quick and len(grammar) > 12000:
        rng.shuffle(grammar)
        grammar = grammar[:12000]
    stats["spelling_grammar_cases"] = len(grammar)
    scns += grammar
    obss = []
    for s in scns:
        o = pipe.run_impl(s)
        oracle(chk, s, o, stats)
        chk.count((json.dumps(pipe.slim(s), sort_keys=True, default=str),), nontrivial=len(o["calls"]) > 0 or o["status"] == 1)
        obss.append(o)
    excluded = pipe.check_cases(chk, scns, obss)
    real_stream(chk, rng, 150 if quick else 5000, stats)
    nprim = pipe.check_fs_primitives(chk, 300 if quick else 4000)
    chk.coverage["evaluations"] += nprim
    for s, o in list(zip(scns, obss))[:3]:
        chk.sample({"mode": s["mode"], "strategy": s["strategy"], "plan": [(e["dir"], e["rel"], e["r"]) for e in s["plan"]][:4],
                    "status": o["status"], "calls": o["raw_calls"][:3]})
    # the whole-program model (Whole/*.v), on which this property's whole-program theorems rest, against the real command line
    import whole as _whole
    import random as _random
    _ws = {}
    _whole.whole_stream(chk, _random.Random(chk.seed * 7919 + 6), 60 if chk.tier == "quick" else 2500, _ws)
    chk.notes["whole_program_tie"] = _ws
    chk.coverage["rule"] = (
        "generated trees with a look-alike sibling 'in2' of the input directory 'in', a decoy directory 'out', links leading outside, "
        "the input directory reachable through a symlink, 1-3 input roots; injected plans whose destinations include '..' chains, "
        "absolute paths inside and outside, './x', 'x/../y', 'a//b', 'new/..', '', '.', names with separators; all modes, strategies, "
        "dry-run; through the real tempren.cli.main() with a snapshot after every filesystem call: every call may change only entries "
        "inside the input directory it was issued for; escaping destinations and invalid names end with a non-zero status; name mode "
        "keeps every parent; directory mode keeps (name, parent inode) of every non-directory; a real-gatherer stream (no plan injection) "
        "whose trees often carry a link below an input directory that leads to the directory 'out' outside it (path mode with -r descends "
        "it: nothing outside any input directory may change, counted in real_stream_*); plus %d filesystem-primitive cases" % nprim)
    d = pipe.stats_of(scns, obss)
    d.update(stats)
    chk.coverage["input_distribution"] = d
    chk.coverage["excluded_from_model_comparison"] = excluded
    chk.coverage["trusted_base"] = common.BASE_TRUSTED + [
        "modelled, not verified: os.path.realpath (Path.resolve), pathlib joins/is_relative_to, Linux path resolution"]
    chk.assumptions += ["a custom path typed at the manual prompt is user input, not a generated path: scenarios that may use one are excluded from clause (a)"]


def replay(chk, obj):
    rc = 0
    stats = {"confined_calls": 0, "escaping_destinations": 0, "invalid_names": 0}
    for f in obj.get("failures", [])[:5]:
        scn = f["case"]["scenario"]
        scn["plan"] = [dict(e, r=tuple(e["r"])) for e in scn["plan"]]
        scn["tree"] = [tuple(x) for x in scn["tree"]]
        obs = pipe.run_impl(scn)
        print("scenario:", json.dumps(pipe.slim(scn), default=str)[:1200])
        print("status", obs["status"], "calls", obs["raw_calls"], obs["stderr"][-200:])
        n = len(chk.oracle_failures)
        oracle(chk, scn, obs, stats)
        print("oracle:", "VIOLATED: " + chk.oracle_failures[-1]["what"] if len(chk.oracle_failures) > n else "holds")
        rc |= int(len(chk.oracle_failures) > n)
    return rc
