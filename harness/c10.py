"""C10 — templates mean what they say: text and arguments arrive verbatim.

Implementation under test: tempren.template.parser.TemplateParser.parse (and tempren.cli.main()
for rendered names).  Streams:
  A  random / exhaustive well-formed trees, printed by a Python mirror of the MODEL's printer in a
     random style -> real parser -> the tree must come back (the statement of C10_roundtrip on the
     implementation); inside Coq the model's own [print] must equal the mirror's text and the
     model's [parse] must return the tree (rt_case_ok);
  B  lexeme sequences (exhaustive short ones + random) and mutated templates: accept/reject, tree
     and first lexer-error position of the real parser vs the model's [parse] (parse_case_ok);
     oracle: a text on which the real lexer reported 'token recognition error' (seen by an
     ADDITIONAL observer) must be rejected, and an accepted text has as many tree leaves as the
     real lexer produced content tokens (nothing dropped);
  C  raw text through tempren.cli.main(): the file's new name is the text.
"""
import json
import os

import common
import impl
import tplgen
from common import q_str
from tplgen import (gen_pat, gen_style, print_pat, norm, q_pat, q_style, real_parse_many, q_parse_case)

IMPORTS = ["Tpl.Ast", "Tpl.Lexer", "Tpl.Visitor", "Tpl.Printer", "Corr.TplCorr"]
DEFAULT_STYLE = {"dq": False, "lower": False, "flag": False, "order": 0, "parens": True, "ws": ""}


# --------------------------------------------------------------------------- oracles

def tree_counts(p):
    n = {"text": 0, "id": 0, "val_plus_flag": 0, "name": 0}
    for e in p:
        if e[0] == "raw":
            n["text"] += 1
        else:
            n["id"] += 1 + (1 if e[1] is not None else 0)
            n["val_plus_flag"] += len(e[3]) + len(e[4])
            n["name"] += len(e[4])
            if e[5] is not None:
                sub = tree_counts(e[5])
                for k in n:
                    n[k] += sub[k]
    return n


def nothing_dropped(counts, tree):
    """every TEXT / TAG_ID / value / ARG_NAME token of the real lexer has its leaf in the tree
    (a bare ARG_NAME is a flag: one name token, one keyword with the value True)"""
    a, b = counts, tree_counts(tree)
    if a["text"] != b["text"]:
        return "%d TEXT tokens but %d raw-text nodes" % (a["text"], b["text"])
    if a["id"] != b["id"]:
        return "%d TAG_ID tokens but %d names" % (a["id"], b["id"])
    if a["name"] != b["name"]:
        return "%d ARG_NAME tokens but %d keyword arguments" % (a["name"], b["name"])
    flags = b["val_plus_flag"] - a["val"]
    if flags < 0 or flags > a["name"]:
        return "%d value tokens but %d argument values" % (a["val"], b["val_plus_flag"])
    return None


def judge_roundtrip(chk, tree, sty, text, r, stream):
    case = {"stream": stream, "text": text, "style": sty, "tree": tplgen.jsonable(tree)}
    if r[0] != "acc":
        chk.oracle_fail("a printed well-formed tree is not accepted: %s %s" % (r[2], r[3]), case)
        return False
    if norm(r[1]) != norm(tree):
        case["parsed"] = tplgen.jsonable(r[1])
        chk.oracle_fail("parse(print t) differs from t", case)
        return False
    return True


def judge_any(chk, text, r, stream):
    """oracle for an arbitrary text"""
    case = {"stream": stream, "text": text}
    if r[0] == "crash":
        chk.notes.setdefault("non_template_exceptions", {}).setdefault(r[2], 0)
        chk.notes["non_template_exceptions"][r[2]] += 1
        return
    if r[0] == "acc":
        if r[2] is not None:
            chk.oracle_fail("accepted although the lexer did not recognise the character at index %d "
                            "(it was silently dropped)" % r[2], dict(case, parsed=tplgen.jsonable(r[1])))
            return
        why = nothing_dropped(r[3], r[1])
        if why:
            chk.oracle_fail("accepted but something the lexer recognised is not in the tree: " + why,
                            dict(case, parsed=tplgen.jsonable(r[1])))
            return
        # an accepted tree, printed canonically, is read back as itself (idempotence)


# --------------------------------------------------------------------------- streams

ESC_ALPHABET = ["a", "\\", "{", "}", "|", "'", '"']


def escape_interplay_trees(maxlen):
    """every string over { a \\ { } | ' " } up to maxlen (not ending in a backslash) as raw text,
    as a positional string argument and as a keyword string argument"""
    import itertools
    for n in range(1, maxlen + 1):
        for t in itertools.product(ESC_ALPHABET, repeat=n):
            s = "".join(t)
            if s.endswith("\\"):
                continue
            yield [("raw", s)]
            yield [("tag", None, "T", [("s", s)], [], None)]
            yield [("tag", None, "T", [], [("k", ("s", s))], [("raw", s)])]


def run_roundtrip(chk, items, stream, stats):
    """items: list of (tree, style).  Returns (rt cases, parse cases, metas)."""
    texts = [print_pat(sty, tree) for tree, sty in items]
    results = real_parse_many(texts)
    rt, pc, m_rt, m_pc = [], [], [], []
    for (tree, sty), text, r in zip(items, texts, results):
        assert tplgen.wf_pat(tree), tree
        judge_roundtrip(chk, tree, sty, text, r, stream)
        chk.count(("rt", text))
        stats["roundtrip_trees"] += 1
        stats["tree_nodes"] += tplgen.tree_size(tree)
        stats["max_depth"] = max(stats["max_depth"], tplgen.tree_depth(tree))
        rt.append("(%s, %s, %s)" % (q_style(sty), q_pat(tree), q_str(text)))
        m_rt.append({"stream": stream, "text": text, "style": sty, "tree": tplgen.jsonable(tree)})
        pc.append(q_parse_case(text, r))
        m_pc.append({"stream": stream, "text": text, "impl": list(r[:1]) + [str(x)[:300] for x in r[1:]]})
    return rt, pc, m_rt, m_pc


def run_mixed_styles(chk, rng, n, stats):
    """Two trees printed in two DIFFERENT styles (in particular different quote marks, boolean spellings, blanks) and
    concatenated into one template: what a value means must not depend on what was written before it in the same text."""
    texts, expects, metas = [], [], []
    for i in range(n):
        t1, t2 = gen_pat(rng, 1 + i % 3), gen_pat(rng, 1 + (i // 3) % 3)
        s1 = gen_style(rng)
        s2 = dict(gen_style(rng), dq=not s1["dq"])
        if i % 2:
            # make sure the second half really contains strings with both quote marks and backslashes
            t2 = t2 + [("tag", None, "T", [("s", rng.choice(["a'b", 'a"b', "\\x", "6\" nail", "it's", "\\'", '\\"', "{|}"]))], [], None)]
        text = print_pat(s1, t1) + print_pat(s2, t2)
        both = list(t1) + list(t2)
        merged = []
        for e in both:
            if merged and merged[-1][0] == "raw" and e[0] == "raw":
                merged[-1] = ("raw", merged[-1][1] + e[1])
            else:
                merged.append(e)
        texts.append(text); expects.append(merged); metas.append({"styles": [s1, s2]})
    results = real_parse_many(texts)
    for text, exp, r, m in zip(texts, expects, results, metas):
        chk.count(("mixed", text))
        stats["mixed_style_texts"] = stats.get("mixed_style_texts", 0) + 1
        if r[0] != "acc" or norm(r[1]) != norm(exp):
            chk.oracle_fail("two well-formed templates written in different styles and concatenated do not parse to the concatenated tree: "
                            "got %s" % (str(r[:2])[:300],), {"stream": "mixed-styles", "text": text, "tree": tplgen.jsonable(exp), "styles": m["styles"]})
    return run_texts(chk, texts, "mixed-styles", stats)


def long_numerals(chk, stats):
    """Integers of any magnitude: up to the interpreter's conversion limit (4300 digits) the value arrives exactly; beyond it the
    template is refused as a template error (never accepted with another value)."""
    from tempren.template.parser import TemplateParser
    from tempren.template.exceptions import TemplateError
    import impl
    for digits, sign in [(4299, ""), (4300, "-"), (4300, ""), (4301, ""), (4301, "-"), (5001, "-"), (12000, "-"), (6000, "")]:
        lit = sign + "".join(str((7 * k + 3) % 10 or 1) for k in range(digits))
        text = "%T(" + lit + ", k=" + lit + ")"
        try:
            with impl.quiet_streams():
                pat = TemplateParser().parse(text)
            tag = pat.sub_elements[0]
            got = ("acc", tag.args[0], tag.kwargs.get("k"))
        except TemplateError:
            got = ("rej",)
        except Exception as e:      # noqa: BLE001
            got = ("crash", type(e).__name__)
        chk.count(("long-numeral", digits, sign))
        stats["long_numerals"] = stats.get("long_numerals", 0) + 1
        ok = (got == ("rej",)) if digits > 4300 else (got[0] == "acc" and got[1] == int(lit) and got[2] == int(lit))
        if not ok:
            chk.oracle_fail("an integer argument of %d digits (%s): %s" % (digits, "negative" if sign else "positive",
                            "accepted with a different value" if got[0] == "acc" else str(got)), {"stream": "long-numerals", "digits": digits, "sign": sign})


def run_shared_parser(chk, rng, texts, stats):
    """What a text means must not depend on which texts the same parser / compiler object has seen before (the command line
    parses the name, filter and sort templates with ONE compiler): a sample of texts — accepted ones, rejected ones and ones
    with unrecognisable characters, interleaved — is parsed by one shared TemplateParser in sequence and each result is compared
    with the result of a fresh parser on the same text."""
    import impl
    from tempren.template.parser import TemplateParser
    from tempren.template.exceptions import TemplateError
    sample = list(texts)
    rng.shuffle(sample)
    sample = sample[:1200]
    fresh = real_parse_many(sample)
    shared = TemplateParser()
    bad = 0
    with impl.quiet_streams():
        for t, fr in zip(sample, fresh):
            try:
                got = ("acc", tplgen.canon(shared.parse(t)))
            except TemplateError as e:
                got = ("rej", type(e).__name__)
            except Exception as e:      # noqa: BLE001
                got = ("crash", type(e).__name__)
            want = ("acc", fr[1]) if fr[0] == "acc" else (fr[0], fr[2])
            chk.count(("shared-parser", t))
            if got != want and bad < 5:
                bad += 1
                chk.oracle_fail("a parser object that has parsed other templates before answers differently from a fresh one: %r vs %r"
                                % (str(got)[:160], str(want)[:160]), {"stream": "shared-parser", "text": t})
    stats["shared_parser_texts"] = len(sample)


def run_texts(chk, texts, stream, stats):
    results = real_parse_many(texts)
    pc, m_pc = [], []
    for text, r in zip(texts, results):
        judge_any(chk, text, r, stream)
        chk.count(("txt", text))
        stats["texts"] += 1
        if r[0] == "acc":
            stats["accepted"] += 1
        elif r[0] == "rej" and r[1] is not None:
            stats["rejected_with_lexer_error"] += 1
        elif r[0] == "rej":
            stats["rejected_syntax"] += 1
        if r[0] == "crash":
            continue
        pc.append(q_parse_case(text, r))
        m_pc.append({"stream": stream, "text": text, "impl": list(r[:1]) + [str(x)[:300] for x in r[1:]]})
    return pc, m_pc


def insert_unrecognisable(rng, text):
    bad = rng.choice([" ", "é", "#", "-", "+", "/", "\\", "\x0b", "*", "~", " ", "$", "@", ":"])
    i = rng.randrange(len(text) + 1)
    return text[:i] + bad + text[i:]


def cli_names(chk, rng, n, stats):
    """raw text (and strings handed to a tag) through tempren.cli.main(): the new file name"""
    import cli_driver
    from sandbox import Sandbox
    name_chars = list("ab xyzAZ09_-.,;()=!#&+@[]^~'{}|{}|") + ["é", "漢", "\\"]
    for i in range(n):
        kind = rng.randrange(5)
        s = "".join(rng.choice(name_chars) for _ in range(rng.randrange(1, 10)))
        if s.endswith("\\") or s.strip(" .") == "":
            continue          # (blanks at either end of the name are text like any other)
        if kind == 1 and s[0] == "\\":
            continue          # the one-character string '\\' ends in a backslash: outside the property's domain (and F31's family)
        if kind == 0:
            tree, expect = [("raw", s)], s
        elif kind == 1:
            pad = rng.randrange(0, 4)
            tree = [("tag", None, "Pad", [("i", len(s) + pad), ("s", s[0])], [("left", ("b", True))],
                     [("raw", s[1:])])] if len(s) > 1 else [("raw", s)]
            expect = s[0] * (pad + 1) + s[1:] if len(s) > 1 else s
        elif kind == 2:
            tree = [("raw", s), ("tag", None, "Strip", [("s", s)], [], [("raw", s + "x" + s)])]
            stripped = (s + "x" + s).strip(s)
            expect = s + stripped
        elif kind == 4:
            # named arguments whose VALUE is falsy (an empty string, 0, false) are values like any other
            tree = [("raw", s), ("tag", None, "Strip", [], [("strip_characters", ("s", "")), ("left", ("b", False))], [("raw", " " + s + " ")]),
                    ("tag", None, "Count", [], [("start", ("i", 0)), ("width", ("i", 0)), ("common", ("b", False))], None)]
            expect = s + " " + s + " " + "0"
        else:
            # an EMPTY context is a context: the nesting written in the template is the nesting the tag sees
            tree = [("raw", s), ("tag", None, "Upper", [], [], []), ("tag", None, "Pad", [("i", 3), ("s", "0")], [("left", ("b", True))], [])]
            expect = s + "000"
        if "/" in expect or "\x00" in expect or len(expect.encode("utf-8", "replace")) > 200 or expect in (".", ".."):
            continue
        sty = gen_style(rng)
        text = print_pat(sty, tree)
        if text[0] in "-@":
            continue          # argv conventions of the command line (option / @file), not template syntax
        with Sandbox() as root:
            os.mkdir(os.path.join(root, "in"))
            open(os.path.join(root, "in", "f0"), "w").close()
            res = cli_driver.run_cli([text, os.path.join(root, "in")], root, root=root, snapshots=False)
            names = sorted(os.listdir(os.path.join(root, "in")))
        case = {"stream": "cli", "text": text, "expect_name": expect, "status": res.status, "names": names,
                "stderr": res.stderr[-300:]}
        chk.count(("cli", text))
        stats["cli_runs"] += 1
        if res.status != 0 or names != [expect]:
            if expect == "f0" and names == ["f0"]:
                continue
            chk.oracle_fail("rendered name differs from what the template says", case)


# --------------------------------------------------------------------------- run

def run(chk):
    rng = chk.rng
    thorough = chk.tier == "thorough"
    stats = {"roundtrip_trees": 0, "tree_nodes": 0, "max_depth": 0, "texts": 0, "accepted": 0,
             "rejected_with_lexer_error": 0, "rejected_syntax": 0, "cli_runs": 0, "corpus": 0}
    rt, pc, m_rt, m_pc = [], [], [], []

    def add(res):
        if len(res) == 4:
            rt.extend(res[0]); pc.extend(res[1]); m_rt.extend(res[2]); m_pc.extend(res[3])
        else:
            pc.extend(res[0]); m_pc.extend(res[1])

    # corpus first
    cdir = os.path.join(common.VERIF, "corpus", "C10")
    ctexts, ctrees = [], []
    if os.path.isdir(cdir):
        for f in sorted(os.listdir(cdir)):
            if f.endswith(".json"):
                obj = json.load(open(os.path.join(cdir, f)))
                for c in obj.get("cases", []):
                    stats["corpus"] += 1
                    if "tree" in c:
                        ctrees.append((tplgen.from_json(c["tree"]), c.get("style", DEFAULT_STYLE)))
                    else:
                        ctexts.append(c["text"])
    if ctrees:
        add(run_roundtrip(chk, ctrees, "corpus", stats))
    if ctexts:
        add(run_texts(chk, ctexts, "corpus", stats))

    # A: round trip
    n_rt = 30000 if thorough else 3000
    items = []
    for i in range(n_rt):
        depth = 1 + (i % 5)
        items.append((gen_pat(rng, depth), gen_style(rng)))
    add(run_roundtrip(chk, items, "random-trees", stats))
    # wide and long: many sibling tags with contexts at one level (depth stays small), long pipe-free sequences, and the
    # same tag spelling repeated many times -- state carried from tag to tag inside one parse shows only here
    wide = []
    for i in range(60 if thorough else 12):
        n_sib = [33, 40, 64, 100, 150][i % 5]
        base = [tplgen.gen_tag(rng, 1) for _ in range(5)]
        sibs = []
        for j in range(n_sib):
            t = base[j % 5] if i % 2 else tplgen.gen_tag(rng, rng.choice([1, 1, 2]))
            if t[5] is None:
                t = (t[0], t[1], t[2], t[3], t[4], [("raw", "c%d" % j)])
            sibs.append(t)
            if j % 7 == 3:
                sibs.append(("raw", "_%d_" % j))
        wide.append((sibs, gen_style(rng)))
    add(run_roundtrip(chk, wide, "wide-trees", stats))
    esc = [(t, {"dq": k % 2 == 1, "lower": False, "flag": False, "order": 0, "parens": True, "ws": ""})
           for k, t in enumerate(escape_interplay_trees(4 if thorough else 3))]
    esc = esc + [(t, dict(s, dq=not s["dq"])) for t, s in esc]
    add(run_roundtrip(chk, esc, "escape-interplay", stats))
    if thorough:
        small = list(tplgen.small_trees(3))
        stats["exhaustive_small_trees_le3_nodes"] = len(small)
        four = [t for t in tplgen.small_trees(4) if tplgen.tree_size(t) == 4]
        stats["small_trees_4_nodes_total"] = len(four)
        four = rng.sample(four, min(len(four), 30000))
        stats["small_trees_4_nodes_sampled"] = len(four)
        small += four
        add(run_roundtrip(chk, [(t, gen_style(rng)) for t in small], "small-trees", stats))
        one = [([("raw", s)], DEFAULT_STYLE) for s in tplgen.small_texts(3)]
        add(run_roundtrip(chk, one, "small-texts", stats))

    add(run_mixed_styles(chk, rng, 6000 if thorough else 800, stats))

    # B: arbitrary texts
    seqs = list(tplgen.all_lexeme_sequences(4 if thorough else 3))
    stats["exhaustive_lexeme_sequences"] = len(seqs)
    n_rand = 100000 if thorough else 8000
    seqs += [tplgen.random_lexeme_sequence(rng, 4, 9) for _ in range(n_rand)]
    add(run_texts(chk, seqs, "lexeme-sequences", stats))
    base = [print_pat(gen_style(rng), gen_pat(rng, 1 + i % 4)) for i in range(15000 if thorough else 3000)]
    muts = [tplgen.mutate(rng, t, rng.randrange(1, 3)) for t in base]
    add(run_texts(chk, muts, "mutated-templates", stats))
    bad = [insert_unrecognisable(rng, t) for t in base if t]
    add(run_texts(chk, bad, "unrecognisable-characters", stats))
    run_shared_parser(chk, rng, base[:500] + muts[:500] + bad[:500] + seqs[:300], stats)
    long_numerals(chk, stats)

    # shapes the visitor must refuse (F17, F18): a piped tag with its own context, a repeated keyword
    shapes = []
    for i in range(3000 if thorough else 300):
        sty = gen_style(rng)
        x = print_pat(sty, gen_pat(rng, 1 + i % 3))
        k = tplgen.gen_id(rng)
        if k in tplgen.BOOL_WORDS:
            k = "k"
        v1, v2 = tplgen.tok_of_val(sty, tplgen.gen_value(rng)), tplgen.tok_of_val(sty, tplgen.gen_value(rng))
        kind = rng.randrange(4)
        if kind == 0:
            shapes.append(x + "|%" + tplgen.gen_id(rng) + rng.choice(["", "()", "(1)"]) + "{" + rng.choice(["", "c", "%I()"]) + "}")
        elif kind == 1:
            shapes.append(x + "|%A()|%B(){" + rng.choice(["", "c"]) + "}|%C()")
        elif kind == 2:
            shapes.append(x + "%T(" + k + "=" + v1 + sty["ws"] + "," + rng.choice(["", "1,", "z=2,"]) + k + "=" + v2 + ")")
        else:
            shapes.append("%T(" + k + ", " + rng.choice(["", "'s',"]) + k + rng.choice(["", "=" + v2]) + "){" + x + "}")
    add(run_texts(chk, shapes, "refused-shapes", stats))

    # C: rendered names
    cli_names(chk, rng, 400 if thorough else 60, stats)

    # correspondence inside Coq
    mism, errs = common.run_model_cases(IMPORTS, "rt_case", "rt_case_ok", rt, shard_size=1500)
    for e in errs:
        chk.proof_failures.append({"what": "coqc on generated cases (rt_case_ok)", "log": e["output"]})
    for m in mism:
        chk.corr_fail("Corr.TplCorr.rt_case_ok (Tpl.Printer.print = harness mirror, Tpl.Visitor.parse returns the tree)", m_rt[m])
    mism, errs = common.run_model_cases(IMPORTS, "parse_case", "parse_case_ok", pc, shard_size=3000)
    for e in errs:
        chk.proof_failures.append({"what": "coqc on generated cases (parse_case_ok)", "log": e["output"]})
    for m in mism:
        chk.corr_fail("Corr.TplCorr.parse_case_ok (Tpl.Visitor.parse vs tempren.template.parser.TemplateParser.parse)", m_pc[m])
    stats["coq_cases"] = len(rt) + len(pc)

    for m in (m_rt[:2] + m_pc[-3:]):
        chk.sample({k: (v if not isinstance(v, str) else v[:120]) for k, v in m.items() if k != "tree"})
    chk.coverage["rule"] = (
        "A: well-formed trees (random depth 1-5, all strings over {a \\ { } | ' \"} up to length %d as text / positional / keyword "
        "string in both quote marks%s) printed by a mirror of the model's printer in random styles, parsed by the real "
        "TemplateParser.parse and compared with the original; the same cases evaluated in Coq (model print = mirror text, model "
        "parse = tree). B: every concatenation of up to %d of %d representative lexemes, random longer ones, 1-2 character "
        "mutations of printed templates, printed templates with one unrecognisable character inserted: real parser (tree / "
        "rejection / first lexer-error index via an additional observer) vs the model's parse in Coq. C: raw text and string "
        "arguments through tempren.cli.main(), new file name compared. distinct by text"
        % (4 if thorough else 3, ", every tree of <= 3 nodes and a 30 000 sample of the 4-node trees over a 12-character alphabet with every metacharacter" if thorough else "",
           4 if thorough else 3, len(tplgen.LEXEMES)))
    chk.coverage["input_distribution"] = stats
    chk.coverage["trusted_base"] = common.BASE_TRUSTED + [
        "modelled, not verified: the ANTLR runtime and the generated TagTemplateLexer/TagTemplateParser (replaced in the model by a "
        "hand-written three-mode maximal-munch lexer and a recursive-descent parser for the valid alternatives), CPython int() on "
        "-?[0-9]+, str.lower, re.sub in unescape",
        "harness/tplgen.py: generators, the Python mirror of Tpl/Printer.v (compared with the model's own print inside Coq on "
        "every round-trip case), the lexer observer (a subclass bound to tempren.template.parser.TagTemplateLexer)"]
    chk.assumptions += [
        "integers are written with fewer than 4300 digits (CPython's int/str conversion limit raises ValueError beyond it)",
        "a TAB, LF or CR in raw text is grammar-defined skipped whitespace and a '%' always starts a tag: both are outside the "
        "character domain of the round trip, as are raw texts and strings ending in a backslash (property quantifier)"]


# --------------------------------------------------------------------------- replay

def replay(chk, obj):
    rc = 0
    cases = [f["case"] for f in obj.get("failures", [])] + [c["case"] for c in obj.get("broken_correspondence", [])]
    for case in cases[:20]:
        text = case.get("text")
        if text is None:
            continue
        r = real_parse_many([text])[0]
        print("text            :", repr(text))
        print("implementation  :", r)
        crc, out = common.coq_eval_term(IMPORTS, "parse %s" % q_str(text))
        print("model parse     :", out.replace("\n", " ")[:600])
        if "tree" in case:
            tree = tplgen.from_json(case["tree"])
            ok = r[0] == "acc" and norm(r[1]) == norm(tree)
            print("oracle          : parse(print t) == t is", ok)
            rc |= 0 if ok else 1
        else:
            bad = (r[0] == "acc" and (r[2] is not None or nothing_dropped(r[3], r[1])))
            print("oracle          :", "FAILS (accepted with dropped input)" if bad else "holds")
            rc |= 1 if bad else 0
    return rc
