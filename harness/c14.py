"""C14 - file-derived values enter filter/sort expressions as data, never as code."""
import glob
import json
import os
import re
import warnings
warnings.filterwarnings("ignore", category=SyntaxWarning)
from pathlib import Path, PosixPath, PurePath

import common
from common import q_Z, q_bool, q_list, q_str
import impl
import cli_driver
from sandbox import Sandbox
from tempren.primitives import CategoryName, Tag
from tempren.exceptions import MissingMetadataError
from tempren.evaluation import evaluate_expression
from tempren.template.ast import RawText, TagInstance

IMPORTS = ["Py.PathLib", "Py.Repr", "Py.Literal", "Tpl.RenderExpr", "Corr.ReprCorr"]
MAXCP = 0x10FFFF
MASK = 0xFFFFFFFFFFFFFFFF
F20_TAGS = {"gpx.starttime", "gpx.endtime", "audio.comment"}
TEST_DATA = os.path.join(impl.REPO, "tests", "test_data")


# =========================================================================== Python mirror of Py/Repr.v
# (line by line; compared with CPython's repr for EVERY code point, so that the Coq model, which is
#  compared on a stratified sample and through range digests, is known to agree everywhere)

def m_hexd(d):
    return 48 + d if d < 10 else 87 + d


def m_hex2(c):
    return [m_hexd(c // 16 % 16), m_hexd(c % 16)]


def m_hex4(c):
    return [m_hexd(c // 4096 % 16), m_hexd(c // 256 % 16), m_hexd(c // 16 % 16), m_hexd(c % 16)]


def m_hex8(c):
    return [m_hexd(c // 268435456 % 16), m_hexd(c // 16777216 % 16), m_hexd(c // 1048576 % 16),
            m_hexd(c // 65536 % 16)] + m_hex4(c)


def m_repr_char(q, c, printable):
    if c == q or c == 92:
        return [92, c]
    if c == 9:
        return [92, 116]
    if c == 10:
        return [92, 110]
    if c == 13:
        return [92, 114]
    if c < 32 or c == 127:
        return [92, 120] + m_hex2(c)
    if c < 127:
        return [c]
    if printable(c):
        return [c]
    if c <= 255:
        return [92, 120] + m_hex2(c)
    if c <= 65535:
        return [92, 117] + m_hex4(c)
    return [92, 85] + m_hex8(c)


def m_repr_quote(s):
    return 34 if (39 in s and 34 not in s) else 39


def m_repr_str(s, printable):
    q = m_repr_quote(s)
    out = [q]
    for c in s:
        out += m_repr_char(q, c, printable)
    return out + [q]


def cpy_printable(c):
    return chr(c).isprintable()


def mix(h, x):
    return (h * 1000003 + x + 1) & MASK


def mix_str(h, pts):
    h = mix(h, 1114112 + len(pts))
    for c in pts:
        h = mix(h, c)
    return h


def printable_ranges(lo=0x80, hi=MAXCP + 1):
    """closed ranges of CPython-printable code points in [lo, hi)"""
    out, start = [], None
    for c in range(lo, hi):
        if chr(c).isprintable():
            if start is None:
                start = c
        elif start is not None:
            out.append((start, c - 1)); start = None
    if start is not None:
        out.append((start, hi - 1))
    return out


def q_ranges(rs):
    return q_list(["(%d,%d)" % r for r in rs], "N * N")


def str_ranges(s):
    pts = sorted({ord(ch) for ch in s if ord(ch) >= 0x80 and ch.isprintable()})
    return [(c, c) for c in pts]


# =========================================================================== values

def q_path(p):
    root = len(p.root)
    parts = [x for x in p.parts if x != p.root] if p.root else list(p.parts)
    return "{| pp_root := %d%%nat; pp_parts := %s |}" % (root, q_list([q_str(x) for x in parts], "str"))


def modelled(v):
    return v is None or type(v) in (str, int, bool) or type(v) is PosixPath


def q_value(v):
    if v is None:
        return "VNone"
    if type(v) is bool:
        return "(VBool %s)" % q_bool(v)
    if type(v) is int:
        return "(VInt %s)" % q_Z(v)
    if type(v) is str:
        return "(VStr %s)" % q_str(v)
    if isinstance(v, PurePath):
        return "(VPath %s)" % q_path(v)
    raise TypeError(type(v))


def value_ranges(v):
    if type(v) is str:
        return str_ranges(v)
    if isinstance(v, PurePath):
        return str_ranges(str(v))
    return []


def jval(v):
    """JSON-able description of a value (for replay files)"""
    if isinstance(v, PurePath):
        return {"path": str(v)}
    return v


def unjval(j):
    if isinstance(j, dict):
        return PosixPath(j["path"])
    return j


HOSTILE = [
    "'", '"', "'\"", "\\", "\\'", "\\\\'", "\\\"", "\n", "\r", "\r\n", "\t", "\0", "\x7f", "\x1b[0m", "\x1f", "\x0c",
    "a'b", 'a"b', "it's \"q\"", "__import__('os').system('touch CANARY')",
    "' + __import__('os').system('touch CANARY') + '", '" + __import__("os").system("touch CANARY") + "',
    "\\' + str(open('CANARY','w')) + \\'", "'); open('CANARY','w'); ('", "{0}", "%s", "%(x)s", "{__import__('os')}",
    "\u200b", "\u202e", "\xa0", "\xad", "\x80", "\x85", "\xff", "\u00e9", "\u00df", "\u0301", "\u65e5\u672c\u8a9e", "\U0001F600", "\ud800",
    "\udcff", "\udfff", "\U000e0001", "\ufeff", "\u2028", "\u2029", "\U0010ffff", "\uffff", "\U00010000", "\u0378",
    "()", ")", "(", "#", "None", "True", "1", "-1", "PosixPath('x')", "lambda: 0", "''", "'''", '"""', " ", "", "\\x41",
    "\\n", "\\u0041", "\\N{BULLET}", "x" * 40, "\\\n",
]
CLASSES = [(0, 32), (32, 127), (127, 161), (0xA0, 0x300), (0x300, 0x3000), (0xD7F0, 0xE010), (0xFFF0, 0x10010),
           (0xE0000, 0xE0080), (0x10FFF0, 0x110000), (0, 0x110000)]


def gen_str(rng):
    n = rng.choice([0, 1, 1, 2, 2, 3, 5])
    out = []
    for _ in range(n):
        r = rng.random()
        if r < 0.55:
            out.append(rng.choice(HOSTILE))
        elif r < 0.8:
            lo, hi = rng.choice(CLASSES)
            out.append("".join(chr(rng.randrange(lo, hi)) for _ in range(rng.randrange(1, 5))))
        else:
            out.append("".join(rng.choice("ab'\"\\ \n") for _ in range(rng.randrange(1, 6))))
    return "".join(out)


def gen_path(rng):
    parts = []
    for _ in range(rng.randrange(0, 4)):
        s = gen_str(rng).replace("\0", "0")
        parts.append(rng.choice(["a", "..", "b.c", ".", "", s, s, "sub dir", "\u00e9"]))
    text = "/".join(parts)
    if rng.random() < 0.2:
        text = rng.choice(["/", "//", "///"]) + text
    return PosixPath(text)


def gen_value(rng):
    r = rng.random()
    if r < 0.55:
        return gen_str(rng)
    if r < 0.75:
        return rng.choice([0, 1, -1, 7, 10, -10, 255, 10**6, -10**9, 2**64, -2**70 + 3, 10**40 + 1,
                           rng.randrange(-1000, 1000), rng.randrange(-10**30, 10**30)])
    if r < 0.82:
        return rng.choice([True, False])
    if r < 0.86:
        return None
    return gen_path(rng)


# =========================================================================== harness tags

class _VTag(Tag):
    require_context = None


class EchoTag(_VTag):
    def process(self, file, context):
        return context


class LenTag(_VTag):
    def process(self, file, context):
        return -1 if context is None else len(context)


class AsPathTag(_VTag):
    def process(self, file, context):
        return Path(context if context is not None else "")


class MissingTag(_VTag):
    def process(self, file, context):
        raise MissingMetadataError()


class IsEmptyTag(_VTag):
    def process(self, file, context):
        return None if context is None else context == ""


class ValTag(_VTag):
    table = []

    def configure(self, k: int = 0):
        self.k = k

    def process(self, file, context):
        return ValTag.table[self.k]


TAG_IDS = {EchoTag: 0, LenTag: 1, AsPathTag: 2, MissingTag: 3, IsEmptyTag: 4}
_reg = None


def reg():
    global _reg
    if _reg is None:
        _reg = impl.registry()
        cat = _reg.register_category(CategoryName("Verif"))
        for cls in (EchoTag, LenTag, AsPathTag, MissingTag, IsEmptyTag, ValTag):
            cat.register_tag_class(cls)
    return _reg


def tag_id(tag):
    if isinstance(tag, ValTag):
        return 5 + tag.k
    return TAG_IDS[type(tag)]


def q_pat(seq):
    out = "PNil"
    for el in reversed(seq.sub_elements):
        out = "(PCons %s %s)" % (q_pel(el), out)
    return out


def q_pel(el):
    if isinstance(el, RawText):
        return "(PRaw %s)" % q_str(el.text)
    assert isinstance(el, TagInstance), type(el)
    has = el.context is not None
    return "(PTag %d%%nat %s %s)" % (tag_id(el.tag), q_bool(has), q_pat(el.context) if has else "PNil")


TOP_RAW = [" == ", " + ", ", ", " < ", "(", ")", " and ", "len(", "[0]", " ", "1", "x", "'lit'", '"s"', " in ", "not ", "-",
           " if ", " else ", "[", "]", ".name", "str(", " * 2", "'", '"', "#", "0", "f", "r", "\"'"]
IN_RAW = ["a", " ", ".", "-", "\u00e9", "'", '"', "/", "x.y", "()", "__import__('os')", "\u202e", "\U0001F600", "1", "None",
          "a/b", "..", "'''", "\\\\", "#", ", "]


def gen_tag_text(rng, depth, nvals):
    r = rng.random()
    if r < 0.45 or depth <= 0:
        return "%%Verif.Val(%d)" % rng.randrange(nvals)
    if r < 0.5:
        return "%Verif.Missing()"
    name = rng.choice(["Echo", "Echo", "Len", "AsPath", "IsEmpty"])
    if rng.random() < 0.08:
        return "%%Verif.%s()" % name
    inner = []
    for _ in range(rng.randrange(0, 4)):
        if rng.random() < 0.5:
            inner.append(rng.choice(IN_RAW))
        else:
            inner.append(gen_tag_text(rng, depth - 1, nvals))
    return "%%Verif.%s(){%s}" % (name, "".join(inner))


# =========================================================================== literals read by CPython

_EVAL_LOCALS = {"PosixPath": PosixPath}


def py_eval(text):
    with warnings.catch_warnings():
        warnings.simplefilter("ignore")
        return eval(text, {"__builtins__": {}}, dict(_EVAL_LOCALS))


def out_of_slice(text):
    """constructs Py/Literal.v does not model: triple quotes, \\N{..}, backslash-newline"""
    return (len(text) >= 3 and text[0] in "'\"" and text[1] == text[0] and text[2] == text[0]) or \
        "\\N" in text or "\\\n" in text or "\\\r" in text


def observe_literal(text):
    """('ok', value, rest) | ('err',) | ('any',) - what CPython does with the string literal at the head
    of text: the literal ends at the smallest prefix that evaluates (every shorter prefix is an
    unterminated literal, and an error inside the first token persists in every longer prefix)."""
    if out_of_slice(text):
        return ("any",)
    if not text or text[0] not in "'\"":
        return ("err",)
    q = text[0]
    for k in range(2, len(text) + 1):
        if text[k - 1] != q:
            continue
        try:
            v = py_eval(text[:k])
        except Exception:
            continue
        if type(v) is str:
            return ("ok", v, text[k:])
    return ("err",)


def q_lit_obs(o):
    if o[0] == "ok":
        return "(LOk %s %s)" % (q_str(o[1]), q_str(o[2]))
    return "LErr" if o[0] == "err" else "LAny"


ESC_PIECES = ["\\\\", "\\'", '\\"', "\\n", "\\r", "\\t", "\\a", "\\b", "\\f", "\\v", "\\0", "\\7", "\\12", "\\101",
              "\\377", "\\777", "\\08", "\\1a", "\\x41", "\\xfF", "\\x0", "\\xg1", "\\x", "\\u0041", "\\ud800", "\\uDFFF",
              "\\u12", "\\U0001F600", "\\U0010FFFF", "\\U00110000", "\\U0001f60", "\\q", "\\ ", "\\(", "\\N{BULLET}",
              "\\\n", "\\\u00e9", "\\8", "\\9", "\\400"]
RAW_PIECES = ["a", "Z", "0", " ", "(", ")", "#", "\u00e9", "\u202e", "\U0001F600", "\t", "\x0c", "\x1a", "\x7f", "\xa0", "x41",
              "\n", "\r", "\0", "\ud800", "\udcff", "__import__('os')"]


def gen_body(rng, q):
    """body of a string literal; returns (text, strict)"""
    out, strict = [], True
    for _ in range(rng.choice([0, 1, 2, 3, 4, 6])):
        r = rng.random()
        if r < 0.5:
            out.append(rng.choice(ESC_PIECES))
        elif r < 0.85:
            out.append(rng.choice(RAW_PIECES))
        elif r < 0.93:
            out.append("'" if q == '"' else '"')          # the other quote, raw
        elif r < 0.97:
            lo, hi = rng.choice(CLASSES)
            out.append(chr(rng.randrange(lo, hi)))
        else:
            out.append(q); strict = False                 # own quote raw: ends the literal early
    text = "".join(out)
    if q in text.replace("\\" + q, "").replace("\\\\", ""):
        strict = False
    return text, strict


def gen_literal(rng):
    """(text, strict): strict texts come from the grammar of modelled literals"""
    r = rng.random()
    if r < 0.6:
        q = rng.choice("'\"")
        body, strict = gen_body(rng, q)
        return q + body + q, strict
    if r < 0.75:
        d = rng.choice(["0", "00", "7", "10", "007", "123456789012345678901234567890", "0" * 5 + "1", str(rng.randrange(10**12))])
        return rng.choice(["", "", "-"]) + d, True
    if r < 0.82:
        return rng.choice(["True", "False", "None"]), True
    q = rng.choice("'\"")
    body, strict = gen_body(rng, q)
    return "PosixPath(" + q + body + q + ")", strict


def mutate(rng, text):
    ops = rng.randrange(5)
    if ops == 0 and text:
        i = rng.randrange(len(text)); return text[:i] + text[i + 1:]
    if ops == 1:
        i = rng.randrange(len(text) + 1); return text[:i] + rng.choice(["'", '"', "\\", " ", "1", "x", ")", "\n"]) + text[i:]
    if ops == 2:
        return text + rng.choice([" ", "x", "'", "+1", ")", "''", ".name"])
    if ops == 3:
        return rng.choice(["-", " ", "r", "b", "f", "(", "not "]) + text
    return text + text


def observe_eval(text):
    try:
        v = py_eval(text)
    except Exception:
        return ("err",)
    if modelled(v):
        return ("ok", v)
    return ("other",)


def q_eval_obs(o):
    if o[0] == "ok":
        return "(EOk %s)" % q_value(o[1])
    return "EErr" if o[0] == "err" else "EOther"


# =========================================================================== running groups of cases

def run_group(chk, case_type, ok_fn, cases, metas, name):
    if not cases:
        return
    mism, errs = common.run_model_cases(IMPORTS, case_type, ok_fn, cases)
    for e in errs:
        chk.proof_failures.append({"what": "coqc on generated cases (Corr.ReprCorr.%s)" % ok_fn, "log": e["output"]})
    for m in mism:
        chk.corr_fail("Corr.ReprCorr.%s (%s)" % (ok_fn, name), metas[m])


def same(a, b):
    return type(a) is type(b) and a == b


# =========================================================================== parts

def part_codepoints(chk, stats):
    """repr of every single code point: Python mirror exhaustively; Coq on a stratified sample and,
    through rolling digests over ranges, on every code point as well"""
    bad = 0
    for c in range(MAXCP + 1):
        ch = chr(c)
        exp = repr(ch)
        got = m_repr_str([c], cpy_printable)
        if len(got) != len(exp) or any(chr(g) != e for g, e in zip(got, exp)):
            bad += 1
            if bad <= 5:
                chk.corr_fail("harness/c14.py m_repr_str (Python mirror of Py.Repr.py_repr_str) vs CPython repr",
                              {"kind": "cp", "cp": c}, model="".join(map(chr, got)), impl=exp)
        # the literal evaluates back (oracle on CPython itself: repr/eval of one character)
    # the premise of the theorems about CPython's table: no surrogate is printable
    for c in range(0xD800, 0xE000):
        if chr(c).isprintable():
            chk.proof_failures.append({"what": "premise no_printable_surrogate is false for CPython", "log": hex(c)})
            break
    stats["codepoints_python_mirror"] = MAXCP + 1
    chk.coverage["evaluations"] += MAXCP + 1
    # Coq, explicit cases: all < 0x3000 plus every 97th above
    cps = list(range(0x3000)) + list(range(0x3000, MAXCP + 1, 97)) + [0xD7FF, 0xD800, 0xDFFF, 0xE000, 0xFFFF, 0x10000, MAXCP]
    cases, metas = [], []
    for c in cps:
        cases.append("(%d, %s, %s)" % (c, q_bool(cpy_printable(c)), q_str(repr(chr(c)))))
        metas.append({"kind": "cp", "cp": c})
    run_group(chk, "cp_case", "cp_case_ok", cases, metas, "Py.Repr.py_repr_str vs CPython repr, one code point")
    stats["codepoints_coq_explicit"] = len(cps)
    for c in cps[:: max(1, len(cps) // 400)]:
        chk.count(("cp", c))
    # Coq, digests over whole ranges: thorough = every code point; quick = planes 0-2 and a bit more, plus the
    # edges of planes 14 and 16 (above 0x32000 almost everything is unassigned and takes the same path)
    if chk.tier == "quick":
        ranges = [(0, 0x32000), (0xE0000, 0xE0200), (0x10FF00, MAXCP + 1)]
    else:
        ranges = [(0, MAXCP + 1)]
    step = 8192 if chk.tier == "quick" else 16384
    shards, expect, spans = [], [], []
    total = 0
    for a, b in ranges:
        for lo in range(a, b, step):
            n = min(step, b - lo)
            total += n
            h = 0
            for c in range(lo, lo + n):
                h = mix_str(h, [ord(x) for x in repr(chr(c))])
            rs = printable_ranges(max(lo, 0x80), lo + n) if lo + n > 0x80 else []
            shards.append("From Tempren Require Import Base.Str Py.Repr Corr.ReprCorr.\nOpen Scope N_scope.\n"
                          "Eval vm_compute in (repr_digest %s %d %d)." % (q_ranges(rs), lo, n))
            expect.append(h)
            spans.append((lo, n))
    results = common.coq_eval_shards(shards, timeout=1500)
    for (lo, n), (rc, out), exp in zip(spans, results, expect):
        m = re.search(r"=\s*(\d+)\s*:\s*N", out) if rc == 0 else None
        if m is None:
            chk.proof_failures.append({"what": "coqc repr_digest %d+%d" % (lo, n), "log": out[-1500:]})
        elif int(m.group(1)) != exp:
            chk.corr_fail("Corr.ReprCorr.repr_digest (Py.Repr.py_repr_str vs CPython repr on every code point of a range)",
                          {"kind": "cp_range", "lo": lo, "n": n}, model=int(m.group(1)), impl=exp)
        chk.distinct.add(("cprange", lo).__repr__().encode())
    stats["codepoints_coq_digest"] = total
    stats["codepoints_coq_digest_ranges"] = ranges
    chk.coverage["evaluations"] += total


def part_values(chk, rng, n, stats):
    """repr / str of random values; oracle: the literal evaluates back to the same value and type"""
    cases, metas, scases, smetas = [], [], [], []
    kinds = {}
    for i in range(n):
        v = gen_value(rng)
        kinds[type(v).__name__] = kinds.get(type(v).__name__, 0) + 1
        r = repr(v)
        meta = {"kind": "value", "value": jval(v)}
        try:
            w = evaluate_expression(r)
            ok = same(w, v)
        except Exception as e:
            ok, w = False, e
        if not ok:
            chk.oracle_fail("evaluate_expression(repr(v)) = %r differs from the value %r" % (w, v), meta)
        cases.append("(%s, %s, %s)" % (q_ranges(value_ranges(v)), q_value(v), q_str(r)))
        metas.append(meta)
        scases.append("(%s, %s)" % (q_value(v), q_str(str(v))))
        smetas.append(meta)
        chk.count(("value", repr(v)))
        if i < 2:
            chk.sample({"value": repr(v), "repr": r})
    run_group(chk, "repr_case", "repr_case_ok", cases, metas, "Py.Repr.py_repr vs CPython repr")
    run_group(chk, "str_case", "str_case_ok", scases, smetas, "Py.Repr.py_str vs CPython str")
    stats["value_kinds"] = kinds


def part_literals(chk, rng, n, stats):
    cases, metas, ecases, emetas = [], [], [], []
    st = {"lit_ok": 0, "lit_err": 0, "lit_any": 0, "eval_ok": 0, "eval_err": 0, "eval_other": 0, "strict": 0}
    for i in range(n):
        text, strict = gen_literal(rng)
        if rng.random() < 0.3:
            text = mutate(rng, text); strict = False
        if out_of_slice(text):
            strict = False
        # scanning a string literal with arbitrary text behind it
        if text[:1] in ("'", '"'):
            t2 = text + rng.choice(["", "", " + x", ")", "'", '"', "''", " # c", gen_str(rng)])
            o = observe_literal(t2)
            st["lit_" + o[0]] += 1
            cases.append("(%s, %s)" % (q_str(t2), q_lit_obs(o)))
            metas.append({"kind": "literal", "text": t2})
            chk.count(("lit", t2))
        # after repr: whatever follows, the literal ends where repr ended it
        o = observe_eval(text)
        st["eval_" + o[0]] += 1
        st["strict"] += strict
        ecases.append("(%s, %s, %s)" % (q_bool(strict), q_str(text), q_eval_obs(o)))
        emetas.append({"kind": "eval", "text": text, "strict": strict})
        chk.count(("eval", text))
        if i < 2:
            chk.sample({"literal": text, "eval": repr(o)})
    # self-delimiting on the implementation: repr(s) followed by hostile text
    for i in range(n // 2):
        s = gen_str(rng)
        rest = rng.choice(["", " + 1", "'", '"', "\\", "x'", gen_str(rng), gen_str(rng)])
        t2 = repr(s) + rest
        o = observe_literal(t2)
        meta = {"kind": "literal", "text": t2, "of": s}
        if o[0] == "any":
            st["lit_any"] += 1            # '' directly followed by the same quote: a triple quote
        elif o != ("ok", s, rest):
            chk.oracle_fail("repr(%r) followed by %r is not read back as that string and that rest: %r" % (s, rest, o), meta)
        else:
            st["lit_ok"] += 1
        cases.append("(%s, %s)" % (q_str(t2), q_lit_obs(o)))
        metas.append(meta)
        chk.count(("lit", t2))
    run_group(chk, "lit_case", "lit_case_ok", cases, metas, "Py.Literal.scan_string_literal_r vs CPython tokenizer+eval")
    run_group(chk, "eval_case", "eval_case_ok", ecases, emetas, "Py.Literal.eval_literal_r vs CPython eval")
    stats["literals"] = st


def elem_values(pat, f):
    """true values of the top-level tags: one process_as_expression call, values recorded on the way"""
    rec = []
    saved = []
    for el in pat.sub_elements:
        if isinstance(el, TagInstance):
            orig = el.process

            def wrapped(file, _orig=orig):
                v = _orig(file)
                rec.append(v)
                return v
            saved.append(el)
            el.process = wrapped
    try:
        expr = pat.process_as_expression(f)
    finally:
        for el in saved:
            del el.process
    return expr, rec


_MISSING_PROBE = TagInstance(MissingTag())


def part_patterns(chk, rng, n, stats):
    cases, metas, rcases, rmetas = [], [], [], []
    f = impl.mkfile("/vroot/in", "d/f.x")
    st = {"list_form": 0, "free_form": 0, "max_depth": 3, "compile_errors": 0}
    for i in range(n):
        nvals = rng.randrange(1, 5)
        vals = [gen_value(rng) for _ in range(nvals)]
        list_form = rng.random() < 0.5
        if list_form:
            tags = [gen_tag_text(rng, 3, nvals) for _ in range(rng.randrange(1, 5))]
            text = "[" + ", ".join(tags) + "]"
        else:
            parts = []
            for _ in range(rng.randrange(1, 6)):
                parts.append(rng.choice(TOP_RAW) if rng.random() < 0.45 else gen_tag_text(rng, 3, nvals))
            text = "".join(parts)
        meta = {"kind": "pattern", "template": text, "values": [jval(v) for v in vals]}
        try:
            with impl.quiet_streams():
                pat = impl.compile_template(text, reg())
        except impl.TemplateError:
            st["compile_errors"] += 1
            continue
        ValTag.table = vals
        try:
            expr, truth = elem_values(pat, f)
            name = pat.process(f)
            missing = _MISSING_PROBE.process(f)
        except MissingMetadataError:
            st["missing_propagates"] = st.get("missing_propagates", 0) + 1
            continue
        if not modelled(missing):
            st["missing_unmodelled"] = st.get("missing_unmodelled", 0) + 1
            continue
        cvals = vals + [missing]        # what TagInstance substitutes for missing metadata: observed, not prescribed
        st["list_form" if list_form else "free_form"] += 1
        if list_form:
            # oracle: the expression evaluates to exactly the tag values, with their types
            try:
                got = evaluate_expression(expr)
                ok = type(got) is list and len(got) == len(truth) and all(same(a, b) for a, b in zip(got, truth))
            except Exception as e:
                ok, got = False, e
            if not ok:
                chk.oracle_fail("expression %r evaluates to %r, the tag values are %r" % (expr, got, truth), meta)
            # sort position: the 1-tuple wrapper
            rcases.append("(%s, %s, %s)" % (q_list([q_value(v) for v in cvals], "value"), q_pat(pat), q_str(expr)))
            rmetas.append(meta)
        rs = str_ranges(expr)
        cases.append("(%s, %s, %s, %s, %s)" % (q_ranges(rs), q_list([q_value(v) for v in cvals], "value"), q_pat(pat),
                                               q_str(expr), q_str(name)))
        metas.append(meta)
        chk.count(("pattern", text, repr(vals)))
        if i < 2:
            chk.sample({"template": text, "values": [repr(v) for v in vals], "expression": expr})
    run_group(chk, "render_case", "render_case_ok", cases, metas,
              "Tpl.RenderExpr.render_expr/render_str vs PatternElementSequence.process_as_expression/process")
    run_group(chk, "recover_case", "recover_case_ok", rcases, rmetas,
              "Tpl.RenderExpr.recover on the implementation's expression text")
    stats["patterns"] = st


# --------------------------------------------------------------------------- registry oracle

def sample_files():
    out = []
    for dp, _, fs in os.walk(TEST_DATA):
        for fn in fs:
            out.append(os.path.join(dp, fn))
    return sorted(out)


TAG_ARGS = {"core.ismime": ["'text'", "'image'"], "image.isorientation": ["landscape", "portrait"]}


def exif_names():
    try:
        from tempren.tags.image import _generate_exif_tag_list
        return [re.match(r"\s*(\w+)", l).group(1) for l in _generate_exif_tag_list()]
    except Exception:
        return ["Model", "FNumber", "DateTime", "Orientation", "GPSVersionID", "UserComment"]


def part_registry(chk, stats):
    """every context-free tag of the working tree's registry on every sample file: the rendered
    expression evaluates back to the tag's value, same type"""
    registry = impl.registry()
    files = sample_files()
    cases, metas = [], []
    st = {"tags": 0, "skipped_need_context_or_args": [], "evaluations": 0, "not_supported": 0, "types": {}, "f20": 0}
    for cname, cat in sorted(registry.category_map.items()):
        for tname in sorted(cat.tag_map):
            key = ("%s.%s" % (cname, tname)).lower()
            arglists = TAG_ARGS.get(key, [""])
            if key == "image.exif":
                arglists = ["'%s'" % n for n in exif_names()]
            used = False
            for args in arglists:
                text = "%%%s.%s(%s)" % (cname, tname, args)
                try:
                    with impl.quiet_streams():
                        pat = impl.compile_template(text, registry)
                except impl.TemplateError:
                    continue
                el = pat.sub_elements[0]
                if not isinstance(el, TagInstance) or el.tag.require_context:
                    continue
                used = True
                for p in files:
                    f = impl.File(Path(os.path.dirname(p)), Path(os.path.basename(p)))
                    try:
                        with impl.quiet_streams():
                            expr, truth = elem_values(pat, f)
                    except Exception:
                        st["not_supported"] += 1
                        continue
                    v = truth[0]
                    st["evaluations"] += 1
                    st["types"][type(v).__name__] = st["types"].get(type(v).__name__, 0) + 1
                    meta = {"kind": "registry", "template": text, "file": os.path.relpath(p, impl.REPO)}
                    try:
                        w = evaluate_expression(expr)
                        ok = same(w, v)
                    except Exception as e:
                        ok, w = False, e
                    chk.count(("registry", text, p))
                    if not ok:
                        finding = "F20" if key in F20_TAGS else None
                        if finding:
                            st["f20"] += 1
                        chk.oracle_fail("%s on %s: value %r is rendered as %r which evaluates to %r" % (
                            text, os.path.basename(p), v, expr[:120], w), meta, finding=finding)
                    if modelled(v):
                        cases.append("(%s, %s, %s)" % (q_ranges(value_ranges(v)), q_value(v), q_str(expr)))
                        metas.append(meta)
            if used:
                st["tags"] += 1
            else:
                st["skipped_need_context_or_args"].append(key)
    run_group(chk, "repr_case", "repr_case_ok", cases, metas, "Py.Repr.py_repr vs process_as_expression of a registry tag")
    stats["registry"] = st


# --------------------------------------------------------------------------- end to end through the CLI

NAME_POOL = [
    "plain.txt", "it's.txt", 'say "hi".txt', "both'\".x", "back\\slash", "end\\", "\\'", "\\\\'x", "new\nline", "cr\rx", "tab\tx",
    "(paren)", ")", "__import__('os').system('touch CANARY')", "' + __import__('os').system('touch CANARY') + '",
    '" + __import__("os").system("touch CANARY") + "', "\\' + str(open('CANARY','w')) + \\'", "'+str(open('CANARY','w'))+'",
    "');open('CANARY','w');('", "{0}{1}", "%s%d", "{__import__('os').system('touch CANARY')}", "\u00e9.\u00f1", "\u00df", "\u65e5\u672c\u8a9e.txt", "\U0001F600",
    "\u202eevil", "\u200b", "\xa0", "\x7f", "\x01\x02", "\x1b[31m", "a b", " lead", "trail ", "UPPER.TXT", "lower.txt", "Mixed.Case",
    "None", "True", "0", "-1", "1e3", "007", "12345", "0x1f", "1_0", "٣", "lambda", "#hash", "a#b", "''", "'''", '"""', "'", '"', ".hidden", "..dots", "x.tar.gz",
    b"\xff\xfe", b"bad\x80utf", "\u0301", "\U000e0001", "\ufeff", "\u2028", "%Name()", "{x}", "a|b", "$(touch CANARY)", "`touch CANARY`",
    "; touch CANARY",
    # payloads without quotes of their own (the name CANARY is built from chr()), shaped for naive quoting schemes
    "'+str(open(" + "+".join("chr(%d)" % ord(c) for c in "CANARY") + ",chr(119)))+'",
    '"+str(open(' + "+".join("chr(%d)" % ord(c) for c in "CANARY") + ',chr(119)))+"',
    "\\'+str(open(" + "+".join("chr(%d)" % ord(c) for c in "CANARY") + ",chr(119)))#",
    "'+str(open(" + "+".join("chr(%d)" % ord(c) for c in "CANARY") + ",chr(119)))#", "\u01c5", "\u0149", "\u0130",
]


def fs_name(n):
    return os.fsdecode(n) if isinstance(n, bytes) else n


FILTERS = [
    ("len(%Name()) > 4", lambda n, s, d: len(n) > 4),
    ("%Name()[0] < 'm'", lambda n, s, d: n[0] < "m"),
    ("%Name().count(\"'\") + %Name().count('\"') > 0", lambda n, s, d: n.count("'") + n.count('"') > 0),
    ("chr(92) in %Name()", lambda n, s, d: "\\" in n),
    ("chr(10) in %Name() or chr(13) in %Name()", lambda n, s, d: "\n" in n or "\r" in n),
    ("%Size() > 1 and %Name() == %Name()", lambda n, s, d: s > 1),
    ("%Base() + %Ext() == %Name()", lambda n, s, d: True),
    ("len(%Upper{%Name()}) == len(%Name())", lambda n, s, d: len(n.upper()) == len(n)),
    ("%Upper{%Name()} == %Name().upper()", lambda n, s, d: True),
    ("%Lower{%Name()} < %Name()", lambda n, s, d: n.lower() < n),
    ("ord(%Name()[-1]) & 1 == 0", lambda n, s, d: ord(n[-1]) % 2 == 0),
    ("%Dir() == PosixPath('.')", lambda n, s, d: d == "."),
    ("%Dir().name == 'sub'", lambda n, s, d: d == "sub"),
    ("%Lower{%Upper{%Name()}x%Ext()} == (%Name().upper() + 'x' + %Ext()).lower()", lambda n, s, d: True),
    ("%Name().isprintable()", lambda n, s, d: n.isprintable()),
    ("%Name() == str(%Name()) and type(%Name()) is str and type(%Size()) is int", lambda n, s, d: True),
    ("'CANARY' in %Name()", lambda n, s, d: "CANARY" in n),
    # path-valued tags WITH a context: the value is a path object there too
    ("%Dir{top/mid/%Name()} == PosixPath('top/mid') and %Dir{top/mid/%Name()}.name == 'mid'", lambda n, s, d: True),
    ("type(%Dir{x/%Name()}) is type(%Dir()) and %Name{q/%Name()} == %Name()", lambda n, s, d: True),
]
SORTS = [
    ("%Name()", lambda n, s, d: (n,)),
    ("len(%Name()), %Name()", lambda n, s, d: (len(n), n)),
    ("%Upper{%Name()}, %Name()", lambda n, s, d: (n.upper(), n)),
    ("%Name()[::-1]", lambda n, s, d: (n[::-1],)),
    ("%Size(), %Name()", lambda n, s, d: (s, n)),
    ("-%Size(), %Lower{%Name()}, %Name()", lambda n, s, d: (-s, n.lower(), n)),
    ("%Ext(), %Base()", lambda n, s, d: (PosixPath(n).suffix, PosixPath(n).stem)),
    ("str(%Dir()), %Name()", lambda n, s, d: (d, n)),
    ("%Dir(), %Name()", lambda n, s, d: (PosixPath(d), n)),
    ("%Dir().parts, %Size(), %Name()", lambda n, s, d: (PosixPath(d).parts, s, n)),
    ("%Name().count(chr(39)), %Name()", lambda n, s, d: (n.count("'"), n)),
]


def find_canary(root):
    hits = []
    for dp, dn, fs in os.walk(root):
        for x in dn + fs:
            if x == "CANARY" or x.startswith("CANARY"):
                hits.append(os.path.relpath(os.path.join(dp, x), root))
    return hits


def run_cli_case(case):
    """case: {'names': [[dir, name, size]], 'position': 'filter'|'sort', 'expr': text, 'invert': bool}
    returns dict(status, stderr, canary, renamed: {index: new name}) """
    with Sandbox() as root:
        ind = os.path.join(root, "in")
        os.mkdir(ind)
        os.mkdir(os.path.join(ind, "sub"))
        for d in {d for d, _n, _s in case["names"]}:
            os.makedirs(os.path.join(ind, d), exist_ok=True)
        for i, (d, n, size) in enumerate(case["names"]):
            p = os.path.join(os.fsencode(ind), os.fsencode(d), os.fsencode(n)) if d != "." else \
                os.path.join(os.fsencode(ind), os.fsencode(n))
            with open(p, "wb") as fh:
                fh.write((b"%06d" % i) + b"x" * (size - 6))
        if case["position"] == "filter":
            argv = ["-r", "-ih", "-ft", case["expr"]] + (["-fi"] if case.get("invert") else []) + ["zzsel_%Count(width=4)", ind]
        else:
            argv = ["-r", "-ih", "-s", case["expr"]] + (["-si"] if case.get("invert") else []) + ["zzord_%Count(width=4,common)", ind]
        res = cli_driver.run_cli(argv, root, root=root, snapshots=False)
        canary = find_canary(root)
        renamed = {}
        for dp, _, fs in os.walk(os.fsencode(ind)):
            for fn in fs:
                with open(os.path.join(dp, fn), "rb") as fh:
                    idx = int(fh.read(6))
                renamed[idx] = os.fsdecode(fn)
        return {"status": res.status, "stderr": res.stderr[-400:], "canary": canary, "renamed": renamed,
                "exception": res.exception}


def judge_cli(case, obs):
    """the oracle for one CLI case: None if fine, else a description"""
    names = case["names"]
    if obs["canary"]:
        return "CANARY created (%r): a file name was executed as code" % (obs["canary"],)
    if case.get("expect_status") is not None:
        # an expression that cannot be evaluated with the values as DATA (e.g. text compared with a number): an evaluation
        # error, whatever the names would mean if they were pasted in as code
        if obs["status"] not in (case["expect_status"] if isinstance(case["expect_status"], list) else [case["expect_status"]]):
            return "status %r, expected %r: the expression has no value when the file-derived values are data; stderr %r" % (
                obs["status"], case["expect_status"], obs["stderr"][-200:])
        if any(new.startswith("zzsel_") or new.startswith("zzord_") for new in obs["renamed"].values()):
            return "files were renamed although the expression cannot be evaluated: %r" % (sorted(obs["renamed"].values())[:4],)
        return None
    if obs["status"] != 0:
        return "status %r (expected 0): the expression could not be evaluated for some file name; stderr: %r" % (
            obs["status"], obs["stderr"])
    if len(obs["renamed"]) != len(names):
        return "files lost: %d of %d present" % (len(obs["renamed"]), len(names))
    fn = dict(FILTERS + SORTS)[case["expr"]]
    if case["position"] == "filter":
        expected = {i for i, (d, n, s) in enumerate(names) if bool(fn(n, s, d)) != bool(case.get("invert"))}
        got = {i for i, new in obs["renamed"].items() if new.startswith("zzsel_")}
        if got != expected:
            return "selected %r, the true values select %r" % (sorted(got), sorted(expected))
    else:
        order = sorted(range(len(names)), key=lambda i: fn(names[i][1], names[i][2], names[i][0]),
                       reverse=bool(case.get("invert")))
        got = sorted(obs["renamed"], key=lambda i: obs["renamed"][i])
        if not all(obs["renamed"][i].startswith("zzord_") for i in got):
            return "not every file was processed: %r" % (obs["renamed"],)
        if got != order:
            return "processing order %r, the true values give %r" % (got, order)
    return None


def gen_cli_case(rng, position):
    k = rng.randrange(2, 9)
    pool = [fs_name(n) for n in NAME_POOL]
    names, seen = [], set()
    while len(names) < k:
        n = rng.choice(pool)
        if rng.random() < 0.25:
            n = n + rng.choice(pool)
        if rng.random() < 0.1:
            s = gen_str(rng).replace("/", "_").replace("\0", "_")
            try:
                os.fsencode(s)
                n = s or "e"
            except UnicodeError:
                pass
        # directories whose names extend one another with characters that sort before and after '/': a path value
        # compares component by component, its text does not
        d = rng.choice(["sub", "sub", "sub-old", "sub/deep", "sub.d", "sub 1/x"]) if rng.random() < 0.3 else "."
        if n in seen or n in (".", "..") or len(os.fsencode(n)) > 200 or n.startswith("zzsel_") or n.startswith("zzord_"):
            continue
        seen.add(n)
        names.append([d, n, rng.choice([6, 6, 7, 9, 20])])
    expr = rng.choice(FILTERS if position == "filter" else SORTS)[0]
    return {"kind": "cli", "names": names, "position": position, "expr": expr, "invert": rng.random() < 0.25}


def two_roots_values(chk, stats):
    """Equal relative names in two input directories, different values (size, content-derived): the value that enters the
    expression for a file is THAT file's value."""
    cases = [("-s", "%Size()", False), ("-s", "%Size(), %Name()", True), ("-ft", "%Size() > 28", False), ("-s", "(%Size() - 22) * (%Size() - 22)", False)]
    sizes = {"first/x": 20, "first/y": 30, "second/x": 50, "second/y": 25, "first/sub/z": 40, "second/sub/z": 15}      # every size >= the length of the path written into the file
    for opt, expr, inv in cases:
        with Sandbox() as root:
            for rel, sz in sizes.items():
                os.makedirs(os.path.dirname(os.path.join(root, rel)), exist_ok=True)
                with open(os.path.join(root, rel), "w") as fh:
                    fh.write(rel.ljust(sz, "."))
            argv = ["-r", opt, expr] + (["-si"] if inv else []) + ["--", "zz%Count(width=3,common)_%Name()", os.path.join(root, "first"), os.path.join(root, "second")]
            res = cli_driver.run_cli(argv, root, root=root, snapshots=False, trace=False)
            got = {}
            for dp, _dn, fns in os.walk(root):
                for fn in fns:
                    with open(os.path.join(dp, fn)) as fh:
                        rel = fh.read().rstrip(".")
                    got[rel] = fn
        if opt == "-s":
            keyf = {"%Size()": lambda r: (sizes[r],), "%Size(), %Name()": lambda r: (sizes[r], os.path.basename(r)),
                    "(%Size() - 22) * (%Size() - 22)": lambda r: ((sizes[r] - 22) ** 2,)}[expr]
            order = sorted(sizes, key=keyf, reverse=inv)
            exp = {r: "zz%03d_%s" % (i, os.path.basename(r)) for i, r in enumerate(order)}
            ok = got == exp
        else:
            sel = {r for r in sizes if sizes[r] > 28}
            ok = {r for r, fn in got.items() if fn.startswith("zz")} == sel
            exp = sorted(sel)
        chk.count(("two-roots-values", opt, expr, inv))
        stats["two_roots_value_runs"] = stats.get("two_roots_value_runs", 0) + 1
        if res.status != 0 or not ok:
            chk.oracle_fail("equal relative names in two input directories, %s %r: status %s, result %r, the true values give %r" % (
                opt, expr, res.status, sorted(got.items()), exp), {"kind": "two-roots", "argv": argv[:-2] + ["<root>/first", "<root>/second"], "sizes": sizes})


def part_cli(chk, rng, n, stats):
    st = {"filter": 0, "sort": 0, "status": {}, "names_with_quote": 0, "names_with_canary_payload": 0, "non_utf8_names": 0}
    two_roots_values(chk, st)
    spread = [[d, nm, 6 + k] for k, (d, nm) in enumerate([("sub/deep", "a"), ("sub-old", "b"), ("sub.d", "c"), ("sub", "d"), (".", "e"),
                                                            ("sub 1/x", "f"), ("sub/deep", "g'q"), ("sub-old", "h\"q")])]
    fixed = [{"kind": "cli", "names": spread, "position": "sort", "expr": e, "invert": inv}
             for e in ("%Dir(), %Name()", "%Dir().parts, %Size(), %Name()", "str(%Dir()), %Name()") for inv in (False, True)]
    fixed += [{"kind": "cli", "names": spread, "position": "filter", "expr": "%Dir() == PosixPath('.')", "invert": False}]
    # expressions that fail when the values are data; some of the names would make them succeed (or run code) if pasted plainly
    codey = [[".", "12.txt", 6], [".", "99", 7], [".", "__import__('os').mkdir('CANARY') or 99.txt", 8], [".", "True", 9], [".", "plain.txt", 6],
             [".", "open('CANARY','w') and 7", 7], [".", "[].txt", 6]]
    for pos, e in (("filter", "%Base() > 10"), ("filter", "%Name() + 1 > 0"), ("filter", "int(%Base()) > 10"), ("sort", "%Base() + 1"),
                   ("sort", "(-%Name())"), ("filter", "%Base() and %Base() < 5")):
        fixed.append({"kind": "cli", "names": codey, "position": pos, "expr": e, "invert": False, "expect_status": 4})
    # tags that read their CONTEXT as a number: a file-derived context that is not a number is an error, never code
    # (the unchanged program ends such a run with the unknown-error status 126 rather than 4: noted in DESIGN.md)
    numy = [[".", "12.txt", 6], [".", "7", 7], [".", "3.5.txt", 8], [".", "open('CANARY','w') and 7", 7], [".", "__import__('os').mkdir('CANARY') or 99.txt", 8]]
    for pos, e in (("sort", "%Round(){%Base()}"), ("filter", "float(%Round(1){%Base()}) > 3"), ("sort", "%AsSize('k'){%Base()}")):
        fixed.append({"kind": "cli", "names": numy, "position": pos, "expr": e, "invert": False, "expect_status": [4, 126]})
    for i in range(n + len(fixed)):
        case = fixed[i] if i < len(fixed) else gen_cli_case(rng, "filter" if i % 2 == 0 else "sort")
        obs = run_cli_case(case)
        st[case["position"]] += 1
        st["status"][str(obs["status"])] = st["status"].get(str(obs["status"]), 0) + 1
        for d, nm, s in case["names"]:
            st["names_with_quote"] += ("'" in nm or '"' in nm)
            st["names_with_canary_payload"] += "CANARY" in nm
            st["non_utf8_names"] += any(0xDC80 <= ord(c) <= 0xDCFF for c in nm)
        why = judge_cli(case, obs)
        if why:
            chk.oracle_fail(why, case)
        chk.count(("cli", repr(case)))
        if i < 2:
            chk.sample({"cli": case["position"], "expr": case["expr"], "names": [x[1] for x in case["names"]],
                        "status": obs["status"]})
    stats["cli"] = st


def part_f20_cli(chk, stats):
    """F20 through the CLI: --sort by a tag whose value has no literal repr ends with status 4"""
    seen = {}
    for tag, rel in (("%Gpx.StartTime()", "gpx/walk.gpx"), ("%Gpx.EndTime()", "gpx/walk.gpx"), ("%Audio.Comment()", "audio/sample.mp3")):
        src = os.path.join(TEST_DATA, rel)
        if not os.path.exists(src):
            continue
        with Sandbox() as root:
            ind = os.path.join(root, "in")
            os.mkdir(ind)
            with open(src, "rb") as a, open(os.path.join(ind, os.path.basename(rel)), "wb") as b:
                b.write(a.read())
            res = cli_driver.run_cli(["-s", tag, "%Name()", ind], root, root=root, snapshots=False)
        seen[tag] = res.status
        chk.count(("f20", tag))
        if res.status != 0:
            key = tag[1:-2].lower()
            chk.oracle_fail("--sort %s on %s: status %r, stderr %r" % (tag, rel, res.status, res.stderr[-200:]),
                            {"kind": "f20", "tag": tag, "file": rel}, finding="F20" if key in F20_TAGS else None)
    stats["f20_cli_status"] = seen


# =========================================================================== corpus / replay

def run_one(chk, case):
    """re-run one stored case; returns a printable description of both sides"""
    k = case.get("kind")
    if k == "cli":
        obs = run_cli_case(case)
        why = judge_cli(case, obs)
        return {"implementation": obs, "oracle": why or "holds"}
    if k == "pattern":
        vals = [unjval(j) for j in case["values"]]
        with impl.quiet_streams():
            pat = impl.compile_template(case["template"], reg())
        ValTag.table = vals
        f = impl.mkfile("/vroot/in", "d/f.x")
        expr, truth = elem_values(pat, f)
        rc, out = common.coq_eval_term(IMPORTS, "render_expr (in_ranges %s) (test_env %s) %s" % (
            q_ranges(str_ranges(expr)), q_list([q_value(v) for v in vals + [_MISSING_PROBE.process(f)]], "value"), q_pat(pat)))
        verdict = "not a list-form template: correspondence only"
        try:
            val = evaluate_expression(expr)
            got = repr(val)
            if case["template"].startswith("["):
                ok = type(val) is list and len(val) == len(truth) and all(same(a, b) for a, b in zip(val, truth))
                verdict = "holds" if ok else "FAILS: the expression does not evaluate to the tag values"
        except Exception as e:
            got = "raises %r" % e
            if case["template"].startswith("["):
                verdict = "FAILS: the expression does not evaluate"
        return {"implementation": expr, "tag_values": [repr(v) for v in truth], "evaluates_to": got, "model": out[-600:],
                "oracle": verdict}
    if k in ("value", "registry"):
        if k == "value":
            v = unjval(case["value"]); expr = repr(v)
        else:
            with impl.quiet_streams():
                pat = impl.compile_template(case["template"])
            p = os.path.join(impl.REPO, case["file"])
            expr, truth = elem_values(pat, impl.File(Path(os.path.dirname(p)), Path(os.path.basename(p))))
            v = truth[0]
        try:
            got = evaluate_expression(expr)
            verdict = "holds" if same(got, v) else "FAILS: evaluates to %r" % (got,)
        except Exception as e:
            verdict = "FAILS: %r" % e
        out = ""
        if modelled(v):
            rc, out = common.coq_eval_term(IMPORTS, "py_repr (in_ranges %s) %s" % (q_ranges(value_ranges(v)), q_value(v)))
        return {"value": repr(v), "implementation": expr, "oracle": verdict, "model": out[-600:]}
    if k in ("literal", "eval"):
        text = case["text"]
        fn = "scan_string_literal_r" if k == "literal" else "eval_literal_r"
        rc, out = common.coq_eval_term(IMPORTS, "%s %s" % (fn, q_str(text)))
        return {"text": text, "implementation": repr(observe_literal(text) if k == "literal" else observe_eval(text)),
                "model": out[-600:]}
    if k == "cp":
        c = case["cp"]
        rc, out = common.coq_eval_term(IMPORTS, "py_repr_str (fun _ => %s) [%d]" % (q_bool(cpy_printable(c)), c))
        return {"cp": c, "implementation": repr(chr(c)), "model": out[-300:]}
    return {"unknown case kind": k}


def replay(chk, obj):
    items = obj.get("failures") or obj.get("broken_correspondence") or []
    rc = 0
    for it in items[:20]:
        case = it.get("case", it)
        res = run_one(chk, case)
        print(json.dumps({"case": case, "what": it.get("what") or it.get("correspondence"), "rerun": res},
                         indent=1, ensure_ascii=True, default=str))
        if isinstance(res.get("oracle"), str) and res["oracle"].startswith("FAILS") or \
                (case.get("kind") == "cli" and res.get("oracle") != "holds"):
            rc = 1
    for it in obj.get("broken_proof_obligations", [])[:5]:
        print(json.dumps(it, indent=1)[:3000])
        rc = 1
    if obj.get("kind") == "no-failing-input-found":
        rc = 1
    return rc


# =========================================================================== entry point

def run(chk):
    # everything runs with a scratch directory as cwd: code smuggled into an evaluated expression
    # would leave its CANARY there
    old_cwd = os.getcwd()
    with Sandbox(prefix="verif-c14-cwd-") as scratch:
        os.chdir(scratch)
        try:
            _run(chk)
            hits = find_canary(scratch)
            if hits:
                chk.oracle_fail("CANARY created in the working directory: %r" % (hits,), {"kind": "canary"})
        finally:
            os.chdir(old_cwd)


def _run(chk):
    rng = chk.rng
    quick = chk.tier == "quick"
    stats = {}
    # corpus first
    for p in sorted(glob.glob(os.path.join(common.VERIF, "corpus", "C14", "*.json"))):
        obj = json.load(open(p))
        for case in obj.get("cases", []):
            if case.get("kind") == "cli":
                why = judge_cli(case, run_cli_case(case))
                if why:
                    chk.oracle_fail(why, case)
                chk.count(("corpus", repr(case)))
    import time
    T = [time.time()]

    def lap(name):
        T.append(time.time()); stats.setdefault("seconds", {})[name] = round(T[-1] - T[-2], 1)
    part_codepoints(chk, stats); lap("codepoints")
    part_values(chk, rng, 1500 if quick else 40000, stats); lap('values')
    part_literals(chk, rng, 2500 if quick else 60000, stats); lap('literals')
    part_patterns(chk, rng, 1200 if quick else 30000, stats); lap('patterns')
    part_registry(chk, stats); lap('registry')
    part_f20_cli(chk, stats); lap('f20_cli')
    part_cli(chk, rng, 120 if quick else 3000, stats); lap('cli')

    chk.coverage["rule"] = (
        "repr of EVERY code point (CPython vs a Python mirror of the Coq model; the Coq model itself on all code points < 0x3000, "
        "every 97th above, and on all 1 114 112 through per-range digests with CPython's isprintable as the table); random values "
        "(hostile strings, ints, bools, None, paths): py_repr/py_str vs repr/str; random literal texts incl. escapes repr never emits "
        "and mutations: scan_string_literal_r / eval_literal_r vs CPython; random bound patterns over harness tags (values from a "
        "table, contexts up to depth 3): render_expr/render_str/recover vs process_as_expression/process; every context-free "
        "registry tag x every sample file; tempren.cli.main() on trees with hostile names in filter and sort position. "
        "A case is distinct by its input text/value/tree; code points are counted once per explicit case sample and per range")
    chk.coverage["input_distribution"] = stats
    chk.coverage["trusted_base"] = common.BASE_TRUSTED + [
        "modelled, not verified: CPython unicode_repr, the tokenizer's end-of-string rule and escape decoder, int/bool/None/"
        "PosixPath repr and literals (compared exhaustively per code point and on random texts)",
        "CPython's str.isprintable is an arbitrary function in the theorems (section variable); the harness supplies its table",
        "CPython's eval (sandboxing, name resolution) and float repr round trip are not modelled (partial)"]
    chk.assumptions += [
        "a Python str is a sequence of code points <= 0x10FFFF (valid_str)",
        "the tie between model and CPython/tempren is sampled except for single code points (exhaustive)",
        "float-valued tags: repr/eval round trip is CPython's dtoa guarantee, checked only by the registry oracle"]
