"""Independent pure-Python MD5 / SHA-1 / SHA-224 / SHA-256 (no hashlib), used to break the
symmetry 'hashlib chunked vs hashlib one-shot' on a sample of files."""
import math
import struct

M32 = 0xFFFFFFFF


def _rol(x, n):
    return ((x << n) | (x >> (32 - n))) & M32


def _ror(x, n):
    return ((x >> n) | (x << (32 - n))) & M32


def md5(data):
    s = [7, 12, 17, 22] * 4 + [5, 9, 14, 20] * 4 + [4, 11, 16, 23] * 4 + [6, 10, 15, 21] * 4
    K = [int(abs(math.sin(i + 1)) * 2 ** 32) & M32 for i in range(64)]
    a0, b0, c0, d0 = 0x67452301, 0xEFCDAB89, 0x98BADCFE, 0x10325476
    msg = bytearray(data)
    ln = (8 * len(data)) & 0xFFFFFFFFFFFFFFFF
    msg.append(0x80)
    while len(msg) % 64 != 56:
        msg.append(0)
    msg += struct.pack("<Q", ln)
    for off in range(0, len(msg), 64):
        M = struct.unpack("<16I", msg[off:off + 64])
        A, B, C, D = a0, b0, c0, d0
        for i in range(64):
            if i < 16:
                F, g = (B & C) | (~B & D), i
            elif i < 32:
                F, g = (D & B) | (~D & C), (5 * i + 1) % 16
            elif i < 48:
                F, g = B ^ C ^ D, (3 * i + 5) % 16
            else:
                F, g = C ^ (B | (~D & M32)), (7 * i) % 16
            F = (F + A + K[i] + M[g]) & M32
            A, D, C, B = D, C, B, (B + _rol(F, s[i])) & M32
        a0, b0, c0, d0 = (a0 + A) & M32, (b0 + B) & M32, (c0 + C) & M32, (d0 + D) & M32
    return struct.pack("<4I", a0, b0, c0, d0).hex()


def _pad_be(data):
    msg = bytearray(data)
    ln = 8 * len(data)
    msg.append(0x80)
    while len(msg) % 64 != 56:
        msg.append(0)
    msg += struct.pack(">Q", ln)
    return msg


def sha1(data):
    h = [0x67452301, 0xEFCDAB89, 0x98BADCFE, 0x10325476, 0xC3D2E1F0]
    msg = _pad_be(data)
    for off in range(0, len(msg), 64):
        w = list(struct.unpack(">16I", msg[off:off + 64]))
        for i in range(16, 80):
            w.append(_rol(w[i - 3] ^ w[i - 8] ^ w[i - 14] ^ w[i - 16], 1))
        a, b, c, d, e = h
        for i in range(80):
            if i < 20:
                f, k = (b & c) | (~b & d), 0x5A827999
            elif i < 40:
                f, k = b ^ c ^ d, 0x6ED9EBA1
            elif i < 60:
                f, k = (b & c) | (b & d) | (c & d), 0x8F1BBCDC
            else:
                f, k = b ^ c ^ d, 0xCA62C1D6
            t = (_rol(a, 5) + (f & M32) + e + k + w[i]) & M32
            a, b, c, d, e = t, a, _rol(b, 30), c, d
        h = [(x + y) & M32 for x, y in zip(h, (a, b, c, d, e))]
    return struct.pack(">5I", *h).hex()


def _primes(n):
    out, c = [], 2
    while len(out) < n:
        if all(c % p for p in out):
            out.append(c)
        c += 1
    return out


_K256 = [int((p ** (1.0 / 3) % 1) * 2 ** 32) for p in _primes(64)]
# float cube roots are accurate enough for the 32 fractional bits except where rounding bites;
# use exact integer arithmetic instead:


def _frac_root(p, k):
    # floor(frac(p^(1/k)) * 2^32) exactly, by integer k-th root of p * 2^(32k)
    n = p << (32 * k)
    lo, hi = 0, 1 << (32 + 8)
    while lo < hi:
        mid = (lo + hi + 1) // 2
        if mid ** k <= n:
            lo = mid
        else:
            hi = mid - 1
    return lo & M32


_K256 = [_frac_root(p, 3) for p in _primes(64)]
_H256 = [_frac_root(p, 2) for p in _primes(8)]
_H224 = [_frac_root(p, 2) for p in _primes(16)[8:]]   # placeholder, replaced below
_H224 = [0xc1059ed8, 0x367cd507, 0x3070dd17, 0xf70e5939, 0xffc00b31, 0x68581511, 0x64f98fa7, 0xbefa4fa4]


def _sha256_core(data, h):
    h = list(h)
    msg = _pad_be(data)
    for off in range(0, len(msg), 64):
        w = list(struct.unpack(">16I", msg[off:off + 64]))
        for i in range(16, 64):
            s0 = _ror(w[i - 15], 7) ^ _ror(w[i - 15], 18) ^ (w[i - 15] >> 3)
            s1 = _ror(w[i - 2], 17) ^ _ror(w[i - 2], 19) ^ (w[i - 2] >> 10)
            w.append((w[i - 16] + s0 + w[i - 7] + s1) & M32)
        a, b, c, d, e, f, g, hh = h
        for i in range(64):
            S1 = _ror(e, 6) ^ _ror(e, 11) ^ _ror(e, 25)
            ch = (e & f) ^ (~e & M32 & g)
            t1 = (hh + S1 + ch + _K256[i] + w[i]) & M32
            S0 = _ror(a, 2) ^ _ror(a, 13) ^ _ror(a, 22)
            mj = (a & b) ^ (a & c) ^ (b & c)
            t2 = (S0 + mj) & M32
            a, b, c, d, e, f, g, hh = (t1 + t2) & M32, a, b, c, (d + t1) & M32, e, f, g
        h = [(x + y) & M32 for x, y in zip(h, (a, b, c, d, e, f, g, hh))]
    return h


def sha256(data):
    return struct.pack(">8I", *_sha256_core(data, _H256)).hex()


def sha224(data):
    return struct.pack(">7I", *_sha256_core(data, _H224)[:7]).hex()
