"""Shared machinery of every check: Coq build, Properties compile, model evaluation
by generated cases_*.v files, verdict, replay and evidence files.  See DESIGN.md §2."""
import fcntl
import hashlib
import json
import os
import random
import re
import shutil
import subprocess
import sys
import tempfile
import time
from concurrent.futures import ThreadPoolExecutor

VERIF = os.path.dirname(os.path.dirname(os.path.abspath(__file__)))
COQ = os.path.join(VERIF, "coq")
THEORIES = os.path.join(COQ, "theories")
REPO = os.environ.get("TEMPREN_REPO", "/repo")
NPROC = int(os.environ.get("VERIF_JOBS", "16"))
COQ_ARGS = ["-R", THEORIES, "Tempren", "-w",
            "-notation-overridden,-deprecated-hint-without-locality,-deprecated-instance-without-locality"]

HYGIENE_RE = re.compile(
    r"\b(Admitted|admit|Axiom|Axioms|Parameter|Parameters|Conjecture|Conjectures|Unset\s+Guard|"
    r"bypass_check|Admit\s+Obligations|Unset\s+Positivity|Unset\s+Universe)\b|type-in-type|impredicative-set")
ALLOWED_AXIOMS = set()   # none: every property theorem must be "Closed under the global context"


def scratch_root():
    for d in ("/dev/shm", os.environ.get("TMPDIR", "/tmp")):
        if os.path.isdir(d) and os.access(d, os.W_OK):
            return d
    return "/tmp"


# --------------------------------------------------------------------------- Gallina literals

def q_N(n):
    return str(int(n))


def q_str(s):
    """Python str (or bytes) -> Gallina [list N] literal of code points."""
    if isinstance(s, bytes):
        pts = list(s)
    else:
        pts = [ord(c) for c in s]
    if not pts:
        return "(@nil N)"
    return "[" + ";".join(str(p) for p in pts) + "]%N"


def q_Z(z):
    z = int(z)
    return "(%d)%%Z" % z


def q_nat(n):
    n = int(n)
    if n > 5000:
        return "(N.to_nat %d%%N)" % n
    return "%d%%nat" % n


def q_bool(b):
    return "true" if b else "false"


def q_list(items, ty=None):
    items = list(items)
    if not items:
        return "(@nil (%s))" % ty if ty else "[]"
    return "[" + "; ".join(items) + "]"


def q_opt(x, f=lambda v: v, ty=None):
    if x is None:
        return "(@None (%s))" % ty if ty else "None"
    return "(Some %s)" % f(x)


def q_strs(ss):
    return q_list([q_str(s) for s in ss], "str")


# --------------------------------------------------------------------------- Coq build / run

def _run(cmd, timeout, cwd=None, input=None):
    """Runs a command in its own process group; on timeout the whole group is killed (a hung coqc
    below make must not survive and keep the build lock busy)."""
    import signal
    p = subprocess.Popen(cmd, cwd=cwd, stdin=subprocess.PIPE if input is not None else subprocess.DEVNULL,
                         stdout=subprocess.PIPE, stderr=subprocess.STDOUT, text=True, start_new_session=True)
    try:
        out, _ = p.communicate(input=input, timeout=timeout)
        return p.returncode, out
    except subprocess.TimeoutExpired:
        try:
            os.killpg(p.pid, signal.SIGKILL)
        except OSError:
            pass
        try:
            out, _ = p.communicate(timeout=10)
        except Exception:
            out = ""
        return 124, (out or "") + "\nTIMEOUT after %ss: %s" % (timeout, " ".join(cmd[:3]))


def coq_build(timeout=1500):
    """Full .vo build of the development under flock (a no-op when nothing changed)."""
    lock = open(os.path.join(COQ, ".build.lock"), "w")
    fcntl.flock(lock, fcntl.LOCK_EX)
    try:
        mk = os.path.join(COQ, "Makefile")
        proj = os.path.join(COQ, "_CoqProject")
        # regenerate the file list on every run so new files are always built
        files = sorted(
            os.path.relpath(os.path.join(dp, f), COQ)
            for dp, _, fs in os.walk(THEORIES) for f in fs if f.endswith(".v"))
        head = ["-R theories Tempren",
                "-arg -w -arg -notation-overridden,-deprecated-hint-without-locality,-deprecated-instance-without-locality"]
        want = "\n".join(head + files) + "\n"
        have = open(proj).read() if os.path.exists(proj) else ""
        if want != have or not os.path.exists(mk):
            open(proj, "w").write(want)
            rc, out = _run(["coq_makefile", "-f", "_CoqProject", "-o", "Makefile"], 120, cwd=COQ)
            if rc != 0:
                return False, out
        rc, out = _run(["make", "-j%d" % NPROC, "-k"], timeout, cwd=COQ)
        return rc == 0, out
    finally:
        fcntl.flock(lock, fcntl.LOCK_UN)
        lock.close()


def hygiene():
    """Forbidden words anywhere in the development (comments are stripped first)."""
    bad = []
    for dp, _, fs in os.walk(THEORIES):
        for f in fs:
            if not f.endswith(".v"):
                continue
            p = os.path.join(dp, f)
            src = open(p).read()
            code = strip_comments(src)
            for m in HYGIENE_RE.finditer(code):
                bad.append("%s: %s" % (os.path.relpath(p, COQ), m.group(0)))
            # Variable / Hypothesis only inside sections
            depth = 0
            for line in code.splitlines():
                t = line.strip()
                if re.match(r"Section\s+\w+", t):
                    depth += 1
                elif re.match(r"End\s+\w+", t) and depth > 0:
                    depth -= 1
                elif re.match(r"(Variable|Variables|Hypothesis|Hypotheses|Context)\b", t) and depth == 0:
                    bad.append("%s: %s outside a section" % (os.path.relpath(p, COQ), t.split()[0]))
    for line in open(os.path.join(COQ, "_CoqProject")).read().splitlines():
        if HYGIENE_RE.search(line):
            bad.append("_CoqProject: " + line)
    return bad


def strip_comments(src):
    out = []
    depth = 0
    i = 0
    n = len(src)
    in_str = False
    while i < n:
        if depth == 0 and src[i] == '"':
            in_str = not in_str
            out.append(src[i]); i += 1; continue
        if not in_str and src.startswith("(*", i):
            depth += 1; i += 2; continue
        if not in_str and depth > 0 and src.startswith("*)", i):
            depth -= 1; i += 2; continue
        if depth == 0:
            out.append(src[i])
        elif src[i] == "\n":
            out.append("\n")
        i += 1
    return "".join(out)


STMT_RE = re.compile(r"^\s*(Theorem|Lemma|Example|Corollary|Fact|Proposition|Remark)\s+([A-Za-z0-9_']+)", re.M)


def closure_files(vfile):
    """Transitive .v dependencies of a file inside the development (by coqdep)."""
    seen = {}
    todo = [os.path.abspath(vfile)]
    while todo:
        f = todo.pop()
        if f in seen:
            continue
        seen[f] = True
        rc, out = _run(["coqdep", "-R", THEORIES, "Tempren", f], 60, cwd=COQ)
        for m in re.finditer(r"(\S+)\.vo\b", out.split(":", 1)[1] if ":" in out else ""):
            dep = os.path.abspath(os.path.join(COQ, m.group(1) + ".v"))
            if dep.startswith(THEORIES) and os.path.exists(dep) and dep not in seen:
                todo.append(dep)
    return sorted(seen)


def compile_properties(pid, timeout=600):
    """Recompile Properties/<pid>.v from scratch; parse the Print Assumptions blocks."""
    src = os.path.join(THEORIES, "Properties", pid + ".v")
    res = {"file": src, "ok": False, "theorems": [], "examples": [], "assumptions": {},
           "not_closed": [], "log": "", "closure": [], "closure_statements": 0}
    if not os.path.exists(src):
        res["log"] = "missing " + src
        return res
    code = strip_comments(open(src).read())
    for kind, name in STMT_RE.findall(code):
        (res["examples"] if kind == "Example" else res["theorems"]).append(name)
    tmp = tempfile.mkdtemp(prefix="verif-prop-", dir=scratch_root())
    try:
        rc, out = _run(["coqc"] + COQ_ARGS + ["-o", os.path.join(tmp, pid + ".vo"), src], timeout, cwd=COQ)
    finally:
        shutil.rmtree(tmp, ignore_errors=True)
    res["log"] = out[-4000:]
    if rc != 0:
        return res
    # Print Assumptions output: either "Closed under the global context" or "Axioms:\n name : type ..."
    blocks = re.split(r"(?=Closed under the global context|Axioms:)", out)
    n_closed = 0
    axioms = []
    for b in blocks:
        if b.startswith("Closed under the global context"):
            n_closed += 1
        elif b.startswith("Axioms:"):
            names = re.findall(r"^([A-Za-z_][\w.']*)\s*:", b[len("Axioms:"):], re.M)
            axioms.append(names)
    res["assumption_blocks"] = n_closed + len(axioms)
    res["closed_blocks"] = n_closed
    res["axiom_blocks"] = axioms
    for names in axioms:
        for a in names:
            if a not in ALLOWED_AXIOMS:
                res["not_closed"].append(a)
    n_print = len(re.findall(r"^\s*Print\s+Assumptions\b", code, re.M))
    res["print_assumptions_cmds"] = n_print
    res["ok"] = (not res["not_closed"]) and n_print >= len(res["theorems"]) and \
        res["assumption_blocks"] == n_print and len(res["theorems"]) > 0
    if not res["ok"] and not res["not_closed"]:
        res["log"] += "\nPrint Assumptions bookkeeping: %d theorems, %d commands, %d blocks" % (
            len(res["theorems"]), n_print, res["assumption_blocks"])
    cl = closure_files(src)
    res["closure"] = [os.path.relpath(f, THEORIES) for f in cl]
    cnt = 0
    missing_vo = []
    for f in cl:
        cnt += len(STMT_RE.findall(strip_comments(open(f).read())))
        if not os.path.exists(f[:-2] + ".vo"):
            missing_vo.append(os.path.relpath(f, THEORIES))
    res["closure_statements"] = cnt
    res["missing_vo"] = missing_vo
    if missing_vo:
        res["ok"] = False
        res["log"] += "\nnot compiled: " + ", ".join(missing_vo)
    return res


def coq_eval_shards(shards, timeout=900):
    """shards: list of Gallina source texts, each ending in Eval commands.  Runs one coqc
    per shard in parallel.  Returns list of (rc, output)."""
    tmp = tempfile.mkdtemp(prefix="verif-cases-", dir=scratch_root())
    try:
        paths = []
        for i, text in enumerate(shards):
            p = os.path.join(tmp, "cases_%04d.v" % i)
            open(p, "w").write(text)
            paths.append(p)

        def one(p):
            return _run(["bash", "-c", "ulimit -s unlimited 2>/dev/null; exec coqc \"$@\"", "coqc"] + COQ_ARGS + [p],
                        timeout, cwd=tmp)
        with ThreadPoolExecutor(max_workers=NPROC) as ex:
            return list(ex.map(one, paths))
    finally:
        shutil.rmtree(tmp, ignore_errors=True)


NATLIST_RE = re.compile(r"=\s*(\[[^\]]*\]|nil)\s*:\s*list nat", re.S)


def parse_natlist(out):
    m = NATLIST_RE.search(out)
    if not m:
        return None
    body = m.group(1)
    if body == "nil":
        return []
    body = body.strip()[1:-1].strip()
    if not body:
        return []
    return [int(re.sub(r"%nat", "", x).strip()) for x in body.split(";")]


def run_model_cases(imports, case_type, ok_fn, cases, shard_size=400, timeout=900, prelude=""):
    """cases: list of Gallina terms of type case_type (strings).  ok_fn: Gallina function
    case_type -> bool that recomputes the model and compares with the observation in the case.
    Returns (mismatch_indices, errors)."""
    shards = []
    idx = []
    shard_size = max(25, min(shard_size, -(-len(cases) // NPROC)))
    for off in range(0, len(cases), shard_size):
        part = cases[off:off + shard_size]
        text = ["From Tempren Require Import Base.Str Corr.Compare %s." % " ".join(imports),
                "Open Scope N_scope.", prelude,
                "Definition cases : list (%s) := [" % case_type,
                ";\n".join(part),
                "].",
                "Eval vm_compute in (mismatches (%s) cases)." % ok_fn]
        shards.append("\n".join(text))
        idx.append(off)
    results = coq_eval_shards(shards, timeout)
    mism, errors = [], []
    for off, (rc, out) in zip(idx, results):
        lst = parse_natlist(out) if rc == 0 else None
        if lst is None:
            errors.append({"shard_offset": off, "rc": rc, "output": out[-3000:]})
        else:
            mism.extend(off + i for i in lst)
    return mism, errors


def coq_eval_term(imports, term, timeout=300, prelude=""):
    text = "\n".join(["From Tempren Require Import Base.Str Corr.Compare %s." % " ".join(imports),
                      "Open Scope N_scope.", prelude, "Eval vm_compute in (%s)." % term])
    (rc, out), = coq_eval_shards([text], timeout)
    return rc, out.strip()


# --------------------------------------------------------------------------- check context

class Check:
    def __init__(self, pid, tier, seed):
        self.pid = pid
        self.tier = tier
        self.seed = seed
        self.rng = random.Random(seed * 1000003 + int(hashlib.sha1(pid.encode()).hexdigest()[:6], 16))
        self.t0 = time.time()
        self.coverage = {"evaluations": 0, "distinct_nontrivial": 0, "rule": "", "samples": [],
                         "obligations": 0, "discharged": 0, "checker_cmd": "", "trusted_base": []}
        self.assumptions = []
        self.oracle_failures = []     # (what, case) — property fails on the implementation
        self.corr_failures = []       # (corr_name, case, model, impl)
        self.proof_failures = []      # (theorem/file, log)
        self.known_hits = {}          # finding id -> count
        self.distinct = set()
        self.notes = {}
        kf = os.path.join(VERIF, "known_findings.json")
        self.known = []
        if os.path.exists(kf):
            self.known = [f for f in json.load(open(kf)).get("findings", []) if f.get("property") == pid]

    # ---- bookkeeping
    def count(self, case_key, nontrivial=True):
        self.coverage["evaluations"] += 1
        if nontrivial:
            self.distinct.add(hashlib.sha1(repr(case_key).encode("utf-8", "surrogatepass")).digest()[:10])

    def sample(self, s, limit=6):
        if len(self.coverage["samples"]) < limit:
            self.coverage["samples"].append(s)

    def open_findings(self):
        return [f for f in self.known if f.get("status") == "open"]

    def oracle_fail(self, what, case, finding=None):
        """The property itself fails on the implementation for this case."""
        if finding is not None and any(f["id"] == finding for f in self.open_findings()):
            self.known_hits[finding] = self.known_hits.get(finding, 0) + 1
            return
        self.oracle_failures.append({"what": what, "case": case})

    def corr_fail(self, name, case, model=None, impl=None):
        self.corr_failures.append({"correspondence": name, "case": case, "model": model, "impl": impl})

    # ---- phase A
    def proof_phase(self):
        ok, log = coq_build()
        if not ok:
            self.proof_failures.append({"what": "make (full .vo build of /verif/coq)", "log": log[-3000:]})
        bad = hygiene()
        if bad:
            self.proof_failures.append({"what": "hygiene grep", "log": "\n".join(bad)})
        pr = compile_properties(self.pid)
        self.props = pr
        n_ob = len(pr["theorems"]) + len(pr["examples"]) + max(0, pr["closure_statements"] - len(pr["theorems"]) - len(pr["examples"]))
        self.coverage["obligations"] = n_ob
        self.coverage["discharged"] = n_ob if (pr["ok"] and ok) else 0
        self.coverage["property_theorems"] = pr["theorems"]
        self.coverage["examples"] = pr["examples"]
        self.coverage["closure_files"] = pr["closure"]
        self.coverage["print_assumptions"] = "%d/%d Closed under the global context" % (
            pr.get("closed_blocks", 0), pr.get("print_assumptions_cmds", 0))
        self.coverage["checker_cmd"] = (
            "cd /verif/coq && make -j16 (coq_makefile, full .vo) && coqc -R theories Tempren theories/Properties/%s.v" % self.pid)
        if not pr["ok"]:
            self.proof_failures.append({"what": "Properties/%s.v" % self.pid, "log": pr["log"][-3000:],
                                        "not_closed": pr["not_closed"]})
        if self.tier == "thorough" and ok and pr["ok"]:
            # independent re-check of the compiled property file and everything it depends on
            rc, out = _run(["coqchk", "-silent", "-o", "-R", THEORIES, "Tempren", "Tempren.Properties.%s" % self.pid], 1800, cwd=COQ)
            m = re.search(r"\* Axioms:\s*(.*?)\n\s*\n", out, re.S)
            axioms = m.group(1).strip() if m else "?"
            self.coverage["coqchk"] = {"rc": rc, "axioms": axioms}
            if rc != 0 or axioms != "<none>":
                self.proof_failures.append({"what": "coqchk -o Tempren.Properties.%s" % self.pid, "log": out[-2000:]})
        return ok and pr["ok"] and not bad

    # ---- verdict
    def finish(self):
        cov = self.coverage
        cov["distinct_nontrivial"] = len(self.distinct)
        cov["model_impl_disagreements"] = len(self.corr_failures)
        cov["oracle_failures"] = len(self.oracle_failures)
        cov["known_findings_hit"] = self.known_hits
        cov.update(self.notes)
        rc = 0
        lines = []
        replay = None
        if self.oracle_failures:
            replay = self.write_replay({"kind": "oracle", "property": self.pid,
                                        "failures": self.oracle_failures[:400],
                                        "n_failures": len(self.oracle_failures)})
            lines.append("VIOLATION property=%s replay=%s" % (self.pid, replay))
            rc = 1
        elif self.corr_failures or self.proof_failures:
            replay = self.write_replay({"kind": "no-failing-input-found", "property": self.pid,
                                        "broken_proof_obligations": self.proof_failures[:5],
                                        "broken_correspondence": self.corr_failures[:5],
                                        "n_corr": len(self.corr_failures)})
            lines.append("VIOLATION property=%s replay=%s no-failing-input-found" % (self.pid, replay))
            rc = 1
        for f in self.open_findings():
            hits = self.known_hits.get(f["id"], 0)
            if hits:
                lines.append("KNOWN-FINDING: property=%s %s: %s (reproduced %d time(s) in this run)" % (
                    self.pid, f["id"], f["what"], hits))
            else:
                lines.append("KNOWN-FINDING: property=%s %s: %s (listed; its recorded input was not reproduced in this run)" % (
                    self.pid, f["id"], f["what"]))
        ev = {"property_id": self.pid, "tier": self.tier, "seed": self.seed, "level": "proof",
              "coverage": cov, "assumptions": self.assumptions,
              "wall_s": round(time.time() - self.t0, 2),
              "violations": len(self.oracle_failures) + (1 if (rc and not self.oracle_failures) else 0)}
        os.makedirs(os.path.join(VERIF, "evidence"), exist_ok=True)
        with open(os.path.join(VERIF, "evidence", self.pid + ".json"), "w") as fh:
            json.dump(ev, fh, indent=1, ensure_ascii=True, default=str)
        # whatever the program under test may have written to this process's real stdout/stderr without a final line break
        # (a changed prompt, say): the verdict lines below always start at the beginning of a line
        sys.stdout.flush()
        sys.stderr.flush()
        print("")
        for l in lines:
            print(l)
        if rc == 0:
            print("OK property=%s tier=%s seed=%d evaluations=%d distinct=%d obligations=%d wall=%.1fs" % (
                self.pid, self.tier, self.seed, cov["evaluations"], cov["distinct_nontrivial"],
                cov["obligations"], time.time() - self.t0))
        return rc

    def write_replay(self, obj):
        d = os.path.join(VERIF, "replays", self.pid)
        os.makedirs(d, exist_ok=True)
        p = os.path.join(d, "%s_seed%d_%d.json" % (self.tier, self.seed, int(time.time())))
        obj["seed"] = self.seed
        obj["tier"] = self.tier
        with open(p, "w") as fh:
            json.dump(obj, fh, indent=1, ensure_ascii=True, default=str)
        return p


BASE_TRUSTED = [
    "Coq 8.16.1 kernel (coqc); vm_compute used to evaluate the model in the correspondence check and in closed examples; no native_compute",
    "axioms: none (every Print Assumptions block is 'Closed under the global context')",
    "no extraction; the hand-written Gallina model is tied to /repo by the sampled correspondence check of this run (differential testing)",
    "the Python harness (generators, Gallina serialiser, in-process driver) and Corr/Compare.v",
]
