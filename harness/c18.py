"""C18 — text tags are total, file-independent functions with their documented shape."""
import re
import sys

import common
from common import q_Z, q_bool, q_list, q_opt, q_str
import impl
from tempren.primitives import CategoryName, Tag

TAGS = ["Upper", "Lower", "Capitalize", "Title", "Strip", "Trim", "Pad", "Collapse", "Remove", "Replace",
        "SplitCase", "Unidecode", "Sanitize"]
MODELLED = {"Trim", "Pad", "Strip", "Collapse", "SplitCase"}


class CtxTag(Tag):
    """Harness tag: yields the context string chosen by the harness."""
    require_context = False
    value = ""

    def process(self, file, context):
        return CtxTag.value


_reg = None


def reg():
    global _reg
    if _reg is None:
        _reg = impl.registry()
        _reg.register_category(CategoryName("Verif")).register_tag_class(CtxTag)
    return _reg


def quote(s, rng):
    """Spell a string value as a template argument with the documented escapes."""
    q = rng.choice("'\"") if rng.random() < 0.3 else "'"
    return q + s.replace("\\", "\\\\").replace(q, "\\" + q) + q


SPECIAL_CTX = ["", " ", "   ", " ", "a", "abc", "  padded  ", "--x--", "aB", "camelCaseHTTPServer", "XMLHttpRequest",
               "żółć Ünï", "éà", "ǅ ǆ ß ŉ ΑΣ", "a.b/c\\d", "^$.*+?()[]{}|\\", "a  b   c", "a--b__c  d",
               "x\\1y", "\\", "\\\\", "tab\tnl\nend", "%{}|'\"", "İi̇", "ａｂｃ", "\U0001F600 smile", "\ud800"]


def gen_ctx(rng):
    r = rng.random()
    if r < 0.45:
        return rng.choice(SPECIAL_CTX)
    if r < 0.453:
        return "".join(rng.choice("ab -_Z") for _ in range(3000))
    alphabet = rng.choice(["ab ", "aB-_ .", "abcXYZ 09", "^]\\-a ", "é ñ́ß", " \t", "xy/\\.", "aAbB"])
    n = rng.choice([1, 2, 3, 5, 8, 13, 40])
    return "".join(rng.choice(alphabet) for _ in range(n))


def gen_set(rng):
    return rng.choice([" ", " ", "-", "_-", " -_", "^a", "]", "a-c", "\\", "^", "ab", ".", "é", "\\d", "[x]", "", " \t"])


def gen_call(rng, tag):
    """Returns (argument text, model call or None, python-level description)."""
    b = lambda: rng.random() < 0.5
    if tag == "Trim":
        w = rng.choice([1, 2, 3, 5, 8, 100, -1, -2, -5, -100, 0])
        l, r = rng.choice([(True, False), (False, True), (True, False), (False, True), (True, True), (False, False)])
        parts = [str(w) if b() else "width=%d" % w] + (["left"] if l else []) + (["right"] if r else [])
        return ", ".join(parts), "(CTrim %s %s %s)" % (q_Z(w), q_bool(l), q_bool(r)), ("Trim", w, l, r)
    if tag == "Pad":
        w = rng.choice([1, 2, 3, 4, 5, 6, 7, 10, 11, 50, 0, -3])
        ch = rng.choice([" ", "0", "*", "é", "\\", "'", "ab", "", "{", "|"])
        l, r = rng.choice([(True, False), (False, True), (True, True), (True, True), (False, False)])
        default_ch = ch == " " and b()
        parts = [str(w)] + ([] if default_ch else ["character=" + quote(ch, rng)]) + (["left"] if l else []) + (["right"] if r else [])
        return ", ".join(parts), "(CPad %s %s %s %s)" % (q_Z(w), q_str(ch), q_bool(l), q_bool(r)), ("Pad", w, ch, l, r)
    if tag == "Strip":
        st = gen_set(rng)
        l, r = b(), b()
        default = st == " " and b()
        parts = ([] if default else [quote(st, rng)]) + (["left"] if l else []) + (["right"] if r else [])
        return ", ".join(parts), "(CStrip %s %s %s)" % (q_str(st), q_bool(l), q_bool(r)), ("Strip", st, l, r)
    if tag == "Collapse":
        st = gen_set(rng)
        default = st == " " and b()
        return ("" if default else quote(st, rng)), "(CCollapse %s)" % q_str(st), ("Collapse", st)
    if tag == "SplitCase":
        sep = rng.choice([" ", "_", "-", "\\", "\\1", "\\g<1>", "ab", "é", "", "|", "{", "\\\\"])
        default = sep == " " and b()
        return ("" if default else quote(sep, rng)), "(CSplitCase %s)" % q_str(sep), ("SplitCase", sep)
    if tag == "Remove":
        pats = rng.choice([["a"], ["[0-9]+"], ["\\s+", "x"], [], ["(?i)b"], ["^a|b$"]])
        return ", ".join([quote(p, rng) for p in pats] + (["ignore_case"] if b() else [])), None, ("Remove", pats)
    if tag == "Replace":
        p, r = rng.choice([("a", "b"), ("[0-9]+", "#"), ("(a)(b)", "\\2\\1"), ("\\s", ""), ("x*", "-"), ("^", ">")])
        return quote(p, rng) + ", " + quote(r, rng), None, ("Replace", p, r)
    return "", None, (tag,)


def contract_oracle(chk, desc, ctx, out, case):
    """The documented shape of each tag, evaluated directly on the implementation's result."""
    t = desc[0]
    fail = lambda what: chk.oracle_fail("%s: %s" % (t, what), case, finding=None)
    if not isinstance(out, str):
        return fail("result %r is not a string" % (out,))
    if t == "Trim":
        _, w, l, r = desc
        if w > 0:
            if len(out) != min(len(ctx), w):
                return fail("length %d, expected min(%d, %d)" % (len(out), len(ctx), w))
        else:
            if len(out) != len(ctx) - min(len(ctx), -w):
                return fail("length %d after cutting %d of %d" % (len(out), -w, len(ctx)))
        if l and not ctx.endswith(out):
            return fail("not a suffix")
        if r and not ctx.startswith(out):
            return fail("not a prefix")
    elif t == "Pad":
        _, w, ch, l, r = desc
        if len(out) != max(len(ctx), w):
            return fail("length %d, expected max(%d, %d)" % (len(out), len(ctx), w))
        i = out.find(ctx)
        ok = False
        for m in re.finditer("(?=%s)" % re.escape(ctx), out) if ctx else [None]:
            j = m.start() if m else 0
            if set(out[:j]) <= {ch} and set(out[j + len(ctx):]) <= {ch}:
                ok = True
                break
        if not ok:
            return fail("output does not consist of the input plus pad characters")
    elif t == "Strip":
        _, st, l, r = desc
        if out not in ctx:
            return fail("not a contiguous part of the input")
        left_side = l or not r or (l and r)
        right_side = r or not l or (l and r)
        if l and not r:
            right_side = False
        if r and not l:
            left_side = False
        if out and left_side and out[0] in st:
            return fail("strippable character left at the start")
        if out and right_side and out[-1] in st:
            return fail("strippable character left at the end")
    elif t == "Collapse":
        _, st = desc
        for a, b in zip(out, out[1:]):
            if a in st and b in st:
                return fail("two adjacent listed characters %r%r remain" % (a, b))
        it = iter(ctx)
        if not all(c in it for c in out):
            return fail("not a subsequence of the input")
        if [c for c in out if c not in st] != [c for c in ctx if c not in st]:
            return fail("an unlisted character was dropped")
    elif t == "SplitCase":
        _, sep = desc
        exp = []
        for k, c in enumerate(ctx):
            exp.append(c)
            if k + 1 < len(ctx) and "a" <= c <= "z" and "A" <= ctx[k + 1] <= "Z":
                exp.append(sep)
        if out != "".join(exp):
            return fail("output is not the input with separators inserted at lower/upper boundaries")
    elif t in ("Upper", "Lower", "Unidecode"):
        f = {"Upper": str.upper, "Lower": str.lower}.get(t)
        if f is None:
            from unidecode import unidecode as f
        try:
            if f(out) != out:
                return fail("not idempotent on %r" % (ctx,))
        except Exception:
            pass
        if t == "Unidecode" and not out.isascii():
            return fail("non-ASCII output")


def run(chk):
    rng = chk.rng
    n_pat = {"quick": 350, "thorough": 6000}[chk.tier]
    n_pat_oracle = {"quick": 120, "thorough": 2000}[chk.tier]
    files = [impl.mkfile("/vroot/in", "a.txt"), impl.mkfile("/vroot/other/in2", "sub/B c.TXT"),
             impl.mkfile("/vroot/in", "noext")]
    stats = {"per_tag_invocations": {}, "config_refused": {}, "empty_context": 0, "long_context": 0, "nonascii_context": 0,
             "exceptions": {}}
    cases, metas = [], []
    for tag in TAGS:
        npat = n_pat if tag in MODELLED else n_pat_oracle
        for i in range(npat):
            args, mcall, desc = gen_call(rng, tag)
            text = "%" + ("Core." if tag == "Sanitize" else "Text.") + tag + "(" + args + "){%Verif.Ctx()}"
            ctxs = [gen_ctx(rng) for _ in range(6)]
            if tag not in MODELLED:
                # lone surrogates are not well-formed text (not encodable); the third-party
                # oracles (pathvalidate, unidecode) are only asked about well-formed strings
                ctxs = [c.replace("\ud800", "\ufffd") for c in ctxs]
            if i == 0:
                ctxs[0] = ""
            case = {"template": text, "contexts": [c if len(c) < 60 else c[:57] + "..." for c in ctxs]}
            try:
                with impl.quiet_streams():
                    pat = impl.compile_template(text, reg())
                    pat2 = impl.compile_template(text, reg())
            except impl.TemplateError as e:
                obs = None
                stats["config_refused"][tag] = stats["config_refused"].get(tag, 0) + 1
                if mcall is None:
                    chk.oracle_fail("valid arguments refused: %s" % e, case)
            else:
                obs, broken = [], False
                order2 = list(range(len(ctxs)))
                rng.shuffle(order2)
                res2 = {}
                for j in order2:      # other instance, other file, other order
                    CtxTag.value = ctxs[j]
                    try:
                        res2[j] = pat2.process(files[(j + 1) % 3])
                    except Exception as e:
                        res2[j] = ("EXC", type(e).__name__)
                for j, c in enumerate(ctxs):
                    CtxTag.value = c
                    stats["per_tag_invocations"][tag] = stats["per_tag_invocations"].get(tag, 0) + 2
                    if c == "":
                        stats["empty_context"] += 1
                    if len(c) >= 3000:
                        stats["long_context"] += 1
                    if not c.isascii():
                        stats["nonascii_context"] += 1
                    icase = dict(case, context=c if len(c) < 200 else c[:200] + "...", context_len=len(c))
                    try:
                        out = pat.process(files[0])
                    except Exception as e:
                        stats["exceptions"][type(e).__name__] = stats["exceptions"].get(type(e).__name__, 0) + 1
                        chk.oracle_fail("%s failed on context %r: %s: %s" % (tag, c[:40], type(e).__name__, e), icase)
                        broken = True
                        break
                    out_again = pat.process(files[2])
                    if out_again != out or res2[j] != out:
                        chk.oracle_fail("%s result depends on the file or on earlier calls: %r / %r / %r" % (
                            tag, out, out_again, res2[j]), icase)
                    contract_oracle(chk, desc, c, out, icase)
                    obs.append(out)
                    chk.count((text, c))
                if broken:
                    continue
                if i < 3:
                    # other spellings of the same call: a literally empty context "{}", and the pipe form
                    head = "%" + ("Core." if tag == "Sanitize" else "Text.") + tag + "(" + args + ")"
                    CtxTag.value = ""
                    try:
                        with impl.quiet_streams():
                            want = pat.process(files[0])
                            got_empty = impl.compile_template(head + "{}", reg()).process(files[0])
                            piped = impl.compile_template("%Verif.Ctx()|" + head, reg())
                            got_piped = []
                            for c in ctxs:
                                CtxTag.value = c
                                got_piped.append(piped.process(files[1]))
                    except Exception as e:
                        chk.oracle_fail("%s: the literally empty context '{}' or the pipe form failed: %s: %s" % (tag, type(e).__name__, e),
                                        dict(case, spelling=[head + "{}", "%Verif.Ctx()|" + head]))
                    else:
                        stats["literal_empty_context"] = stats.get("literal_empty_context", 0) + 1
                        if got_empty != want:
                            chk.oracle_fail("%s: '{}' gives %r, an empty value as context gives %r" % (tag, got_empty, want), dict(case, spelling=head + "{}"))
                        if got_piped != obs:
                            chk.oracle_fail("%s: pipe form gives %r, context form %r" % (tag, got_piped, obs), dict(case, spelling="%Verif.Ctx()|" + head))
                        chk.count((head, "{}")); chk.count((head, "pipe"))
            if mcall is not None:
                cases.append("(%s, %s, %s)" % (mcall, q_list([q_str(c) for c in ctxs], "str"),
                                               q_opt(obs, lambda o: q_list([q_str(x) for x in o], "str"), "list str")))
                metas.append(dict(case, observed=None if obs is None else [o if len(o) < 60 else o[:57] + "..." for o in obs]))
            if obs is None:
                chk.count((text, "refused"))
            if i < 1:
                chk.sample(dict(case, observed=None if obs is None else [o[:40] for o in obs]), limit=13)
    mism, errs = common.run_model_cases(["Tags.TextTags", "Corr.TextCorr"], "text_case", "text_case_ok", cases)
    for e in errs:
        chk.proof_failures.append({"what": "coqc on generated cases (text_case_ok)", "log": e["output"]})
    for m in mism:
        chk.corr_fail("Corr.TextCorr.text_case_ok (Tags.TextTags vs tempren/tags/text.py)", metas[m])

    # per-code-point hypotheses of C18_charmap_idempotent / C18_charmap_ascii, exhaustively
    from unidecode import unidecode
    bad = {"upper": [], "lower": [], "unidecode_idem": [], "unidecode_ascii": []}
    import warnings
    with warnings.catch_warnings():
        warnings.simplefilter("ignore")
        for cp in range(0x110000):
            c = chr(cp)
            u = c.upper()
            if u.upper() != u:
                bad["upper"].append(cp)
            lo = c.lower()
            if lo.lower() != lo:
                bad["lower"].append(cp)
            d = unidecode(c)
            if not d.isascii():
                bad["unidecode_ascii"].append(cp)
            elif unidecode(d) != d:
                bad["unidecode_idem"].append(cp)
    chk.coverage["evaluations"] += 0x110000
    chk.distinct.add(b"all-code-points")
    chk.notes["charmap_hypotheses_all_code_points"] = {k: len(v) for k, v in bad.items()}
    for k, v in bad.items():
        if v:
            chk.oracle_fail("per-code-point hypothesis '%s' fails for code points %s" % (k, v[:10]), {"code_points": v[:50]})

    chk.coverage["rule"] = (
        "each of the 13 tags invoked through compiled templates '%Tag(args){%Verif.Ctx()}' (context supplied by a harness tag) "
        "with generated valid and invalid argument combinations, 6 contexts per compiled pattern (empty, whitespace, non-ASCII, "
        "combining marks, 10^4 characters, regex/path metacharacters, backslashes), on three different files, two tag instances "
        "and shuffled orders; modelled tags compared value by value with the Coq model; distinct by (template, context)")
    chk.coverage["input_distribution"] = stats
    chk.coverage["trusted_base"] = common.BASE_TRUSTED + [
        "section hypotheses of the character-map theorems (per-code-point idempotence / ASCII range of str.upper, str.lower, unidecode): checked exhaustively over all 1 114 112 code points by this run, not proved",
        "modelled, not verified: str slicing, ljust/rjust/center, strip family, re.sub for the two fixed regex shapes",
        "not modelled (oracle only): Capitalize, Title, Remove, Replace, Sanitize, non-ASCII case mapping, unidecode, pathvalidate, re on user patterns"]
    chk.assumptions += ["whole-string Upper/Lower idempotence beyond character-wise mapping (final-sigma rule) is observed on samples only"]
