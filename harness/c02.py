"""C02 — a reported success means the template's plan was applied exactly."""
import json
import os

import common
import pipe


def gen_chain(rng):
    """renumbering-style plans: acyclic chains visited in one direction, several roots with equal
    relative names, unselected look-alikes"""
    scn = pipe.gen_scenario(rng, mode="name", strategy="stop", dry=False)
    spec = [t for t in scn["tree"]]
    plan = []
    inputs = scn["inputs"]
    fresh = 0
    for d in inputs:
        files = [p[len(d) + 1:] for p, k, _ in spec if k in ("f", "l") and p.startswith(d + "/") and "/" not in p[len(d) + 1:]]
        rng.shuffle(files)
        k = min(len(files), rng.randrange(2, 5))
        if k < 2:
            continue
        chain = files[:k]
        fresh += 1
        entries = [{"dir": d, "spelled": d, "rel": chain[i], "r": ("text", chain[i + 1] if i + 1 < k else "zz%d" % fresh)} for i in range(k)]
        if rng.random() < 0.5:
            entries.reverse()
        plan.append(entries)
    # interleave the chains of the different roots, keeping each chain's direction
    out = []
    while any(plan):
        c = rng.choice([p for p in plan if p])
        out.append(c.pop(0))
    scn["plan"] = out
    return scn


def chain_shape(an, order):
    """None, or 'forward'/'backward' if the plan is an acyclic chain family visited in one direction"""
    mv = dict(an["moves"])
    dsts = list(mv.values())
    if len(set(dsts)) != len(dsts):
        return None
    pos = {s: i for i, s in enumerate(order)}
    dirs = set()
    for s, d in mv.items():
        if d in mv:                       # d is the current path of another selected file that moves away
            dirs.add("occupant_first" if pos[d] < pos[s] else "occupant_last")
    # acyclic
    for s in mv:
        seen, cur = set(), s
        while cur in mv:
            if cur in seen:
                return None
            seen.add(cur)
            cur = mv[cur]
    if len(dirs) > 1:
        return None
    return dirs.pop() if dirs else "free"


def oracle(chk, scn, obs, stats):
    if scn["strategy"] != "stop" or scn["dry"] or scn["fault"] is not None or not pipe.modelable(obs):
        return
    init, fin = obs["initial"], obs["final"]
    an = pipe.analyse(scn, init)
    if an is None:
        stats["not_clean"] += 1
        return
    stats["clean"] += 1
    case = {"scenario": pipe.slim(scn), "status": obs["status"], "report": obs["report"], "stderr": obs["stderr"][-300:]}
    nested_sel = False
    if scn["mode"] == "directory":
        sel = [s for s, _ in an["moves"]] + an["stays"]
        nested_sel = any(a != b and b.startswith(a + "/") for a in sel for b in sel)
    finding = "F25" if nested_sel else None
    if obs["status"] == 0:
        exp = pipe.expected_final(scn, init, an)
        if pipe.strip_hash(exp) != pipe.strip_hash(fin):
            diff = sorted(p for p in set(exp) | set(fin) if pipe.strip_hash(exp).get(p) != pipe.strip_hash(fin).get(p))
            chk.oracle_fail("status 0 but the tree is not the plan applied to the initial tree; differing paths: %r" % (diff[:6],), case, finding=finding)
            return
        stats["exact_checked"] += 1
    conf = pipe.conflicts(scn, init, an)
    kind_clash = any(d in init and (init[d][0] == "d") != (init[s][0] == "d") for s, d in an["moves"])
    if not any(conf.values()) and not an["nested"] and not nested_sel:
        stats["free_plans"] += 1
        if obs["status"] != 0:
            chk.oracle_fail("all destinations are free (distinct, not nested, not pre-existing) but the run exited %s: %s"
                            % (obs["status"], obs["stderr"].strip()[-160:]), case)
            return
    elif scn["mode"] == "name" and not kind_clash:
        order = ["/".join(e["dir"].split("/") + pipe._parts(e["rel"])) for e in scn["plan"]]
        shape = chain_shape(an, order)
        mv = dict(an["moves"])
        occupied_ok = all((d not in init) or (d in mv) for d in mv.values())
        if shape in ("occupant_first", "occupant_last") and occupied_ok:
            stats["chains"] += 1
            if obs["status"] != 0:
                chk.oracle_fail("acyclic chain visited %s (every destination free or vacated by another selected file) but the run exited %s: %s"
                                % (shape, obs["status"], obs["stderr"].strip()[-160:]), case)


def library_stream(chk, rng, n, stats):
    """Real gatherers, sorter and library templates (no plan injection): the expected tree is computed by an
    independent evaluator written from the tag documentation (Name/Base/Ext/Upper/Lower/Count per directory,
    literals), for 1-3 input directories with equal relative names; --sort %Name() fixes the processing order."""
    import os
    from cli_driver import run_cli, snapshot
    from sandbox import Sandbox

    def stem_suffix(name):
        i = name.rfind(".")
        if 0 < i < len(name) - 1:
            return name[:i], name[i:]
        return name, ""
    TEMPLATES = [
        ("n%Count(width=2)%Ext()", lambda nm, k: "n%02d%s" % (k, stem_suffix(nm)[1])),
        ("%Upper{%Base()}_%Count(start=3,step=2)%Ext()", lambda nm, k: "%s_%d%s" % (stem_suffix(nm)[0].upper(), 3 + 2 * k, stem_suffix(nm)[1])),
        ("%Lower{%Name()}.bak", lambda nm, k: nm.lower() + ".bak"),
        ("%Count(start=10,width=4)-%Name()", lambda nm, k: "%04d-%s" % (10 + k, nm)),
        ("%Base()%Base()%Ext()", lambda nm, k: stem_suffix(nm)[0] * 2 + stem_suffix(nm)[1]),
        ("%Count(step=5)_%Count(start=1)%Ext()", lambda nm, k: "%d_%d%s" % (5 * k, 1 + k, stem_suffix(nm)[1])),
        # generated names that begin or end with blanks are names like any other
        ("%Pad(9,left){%Base()}%Ext()", lambda nm, k: stem_suffix(nm)[0].rjust(9) + stem_suffix(nm)[1]),
        ("%Pad(12,right){%Name()}", lambda nm, k: nm.ljust(12)),
        (" %Count(width=2) %Name()  ", lambda nm, k: " %02d %s  " % (k, nm)),
    ]
    names = ["a.txt", "b.txt", "c.dat", "Readme", "x.tar.gz", "IMG_1.jpg", "img_2.JPG", "é.txt", "a b.c", "z"]
    for _ in range(n):
        roots = rng.sample(["in", "in2", "d/in", ".cache/in3"], rng.randrange(1, 4))      # (an input directory may itself lie below a hidden one)
        spec = [("out/keep.txt", "f", "keep")]
        cid = 0
        for r in roots:
            for d in ["", "sub/"][: rng.randrange(1, 3)]:
                for nm in rng.sample(names, rng.randrange(1, 6)):
                    cid += 1
                    spec.append((r + "/" + d + nm, "f", "c%d" % cid))
        tpl, fn = rng.choice(TEMPLATES)
        recursive = rng.random() < 0.6
        with Sandbox() as root:
            pipe.materialise(root, spec)
            snap0, ids = pipe.id_map(root)
            init = pipe.canon(snap0, ids, root)
            argv = ["-n", "-cs", "-s", "%Name()"] + (["-r"] if recursive else []) + ["--", tpl] + roots
            res = run_cli(argv, root, root=root, snapshots=False)
            fin = pipe.canon(snapshot(root, with_times=False), ids, root)
        stats["library_runs"] = stats.get("library_runs", 0) + 1
        chk.count(("library", tpl, tuple(roots), recursive, json.dumps(spec)), nontrivial=True)
        # expected: per directory, the selected files in name order get k = 0, 1, 2, ...
        exp = dict(init)
        by_dir = {}
        for p, v in init.items():
            if v[0] != "f" or p.startswith("out/"):
                continue
            r = max((x for x in roots if p.startswith(x + "/")), key=len)
            rel = p[len(r) + 1:]
            if "/" in rel and not recursive:
                continue
            by_dir.setdefault(os.path.dirname(p), []).append(os.path.basename(p))
        moves = {}
        for d, nms in by_dir.items():
            for k, nm in enumerate(sorted(nms)):
                moves[d + "/" + nm] = d + "/" + fn(nm, k)
        dsts = list(moves.values())
        free = len(set(dsts)) == len(dsts) and not any(d in init and d not in moves for d in dsts)
        for s_, d_ in moves.items():
            if s_ != d_:
                exp.pop(s_, None)
        for s_, d_ in moves.items():
            exp[d_] = init[s_]
        case = {"scenario": {"mode": "name", "strategy": "stop", "answers": [], "plan": [], "tree": spec, "argv": argv}, "status": res.status,
                "report": res.report()[:6], "stderr": res.stderr[-300:]}
        if res.status == 0 and pipe.strip_hash(exp) != pipe.strip_hash(fin):
            diff = sorted(p for p in set(exp) | set(fin) if pipe.strip_hash(exp).get(p) != pipe.strip_hash(fin).get(p))
            chk.oracle_fail("status 0 but the tree is not what the template %r describes; differing paths: %r" % (tpl, diff[:6]), case)
        elif free and res.status != 0:
            chk.oracle_fail("all generated names of %r are free but the run exited %s: %s" % (tpl, res.status, res.stderr.strip()[-160:]), case)


def library_stream_modes(chk, rng, n, stats):
    """Same idea in PATH and DIRECTORY mode and without/with different sort options: real gatherers (recursive or
    not), real sorter or the plain listing order, library templates built from Dir/Name/Base/Ext/Upper and literals
    whose value does not depend on the processing order.  Expected tree from an independent evaluator.  A run that
    reports success must have put every selected entry exactly where the template says (once: a file that was moved
    into a directory which is listed later must not be picked up again)."""
    import os
    from cli_driver import run_cli, snapshot
    from sandbox import Sandbox

    def stem_suffix(name):
        i = name.rfind(".")
        if 0 < i < len(name) - 1:
            return name[:i], name[i:]
        return name, ""
    # (mode flag, template, relative path of the entry inside its input directory -> new relative path)
    PATH_T = [
        ("%Dir()/sub/%Name()", lambda rel: os.path.join(os.path.dirname(rel), "sub", os.path.basename(rel))),
        ("moved/%Name()", lambda rel: os.path.join("moved", os.path.basename(rel))),
        ("new/%Dir()/%Name()", lambda rel: os.path.join("new", os.path.dirname(rel), os.path.basename(rel))),
        ("%Dir()/%Upper{%Base()}%Ext()", lambda rel: os.path.join(os.path.dirname(rel), stem_suffix(os.path.basename(rel))[0].upper() + stem_suffix(os.path.basename(rel))[1])),
        ("%Dir()/deep/er/%Base().x", lambda rel: os.path.join(os.path.dirname(rel), "deep", "er", stem_suffix(os.path.basename(rel))[0] + ".x")),
        ("sub/%Dir()/%Name()", lambda rel: os.path.join("sub", os.path.dirname(rel), os.path.basename(rel))),
    ]
    DIR_T = [
        ("%Upper{%Name()}", lambda rel: os.path.join(os.path.dirname(rel), os.path.basename(rel).upper())),
        ("%Name()_d", lambda rel: os.path.join(os.path.dirname(rel), os.path.basename(rel) + "_d")),
        ("x%Base()%Ext()", lambda rel: os.path.join(os.path.dirname(rel), "x" + os.path.basename(rel))),
    ]
    names = ["a.txt", "b.txt", "c.dat", "Readme", "x.tar.gz", "IMG_1.jpg", "é.txt", "a b.c", "z"]
    dnames = ["sub", "moved", "alpha", "beta.d", "Zed"]
    SORTS = [[], ["-s", "%Name()"], ["-s", "%Name()", "-si"], ["-s", "%Size()"], ["-s", "%Dir()"]]
    for it in range(n):
        dirmode = it % 3 == 2
        roots = rng.sample(["in", "in2", "d/in"], rng.randrange(1, 3))
        spec = [("out/keep.txt", "f", "keep")]
        cid = 0
        for r in roots:
            ds = [""] + [d + "/" for d in rng.sample(dnames, rng.randrange(0, 4))]
            if "sub/" not in ds and rng.random() < 0.6:
                ds.append("sub/")        # several templates move into "sub": it should often exist already
            if rng.random() < 0.4 and len(ds) > 1:
                ds.append(ds[1] + rng.choice(dnames) + "/")
            for d in ds:
                if d:
                    spec.append((r + "/" + d.rstrip("/"), "d", None))
                for nm in rng.sample(names, rng.randrange(0 if d else 1, 4)):
                    cid += 1
                    spec.append((r + "/" + d + nm, "f", "c" * (1 + cid % 7) + str(cid)))
        recursive = (rng.random() < 0.7) and not dirmode      # directory mode + -r selects nested directories: F25's family
        tpl, fn = rng.choice(DIR_T if dirmode else PATH_T)
        sort = [] if (dirmode or rng.random() < 0.5) else rng.choice(SORTS)     # half of the runs in plain listing order
        with Sandbox() as root:
            pipe.materialise(root, spec)
            snap0, ids = pipe.id_map(root)
            init = pipe.canon(snap0, ids, root)
            argv = ["-d" if dirmode else "-p", "-cs"] + sort + (["-r"] if recursive else []) + ["--", tpl] + roots
            res = run_cli(argv, root, root=root, snapshots=False)
            fin = pipe.canon(snapshot(root, with_times=False), ids, root)
        stats["library_mode_runs"] = stats.get("library_mode_runs", 0) + 1
        chk.count(("library-modes", tpl, tuple(roots), recursive, tuple(sort), json.dumps(spec)), nontrivial=True)
        moves = {}
        if dirmode:
            # without --recursive, directory mode renames the directory arguments themselves (input directory = parent)
            for r in roots:
                moves[r] = os.path.normpath(os.path.join(os.path.dirname(r), fn(os.path.basename(r))))
        for p, v in ([] if dirmode else init.items()):
            if p.startswith("out/") or p == "out":
                continue
            owners = [x for x in roots if p.startswith(x + "/")]
            if not owners:
                continue
            r = max(owners, key=len)
            rel = p[len(r) + 1:]
            if dirmode != (v[0] == "d"):
                continue
            if "/" in rel and not recursive:
                continue
            moves[p] = os.path.normpath(os.path.join(r, fn(rel)))
        exp = dict(init)
        dsts = list(moves.values())
        moving = {s_: d_ for s_, d_ in moves.items() if s_ != d_}
        free = (len(set(dsts)) == len(dsts) and not any(d in init for d in moving.values())
                and not any(a != b and (b + "/").startswith(a + "/") for a in moving.values() for b in moving.values()))
        for s_, d_ in moving.items():
            for q in [q for q in exp if q == s_ or q.startswith(s_ + "/")]:
                exp.pop(q, None)
        for s_, d_ in moving.items():
            for q, v in init.items():
                if q == s_ or q.startswith(s_ + "/"):
                    exp[d_ + q[len(s_):]] = v
            if not dirmode:
                par = os.path.dirname(d_)
                while par and par not in exp:
                    exp[par] = ("d",)
                    par = os.path.dirname(par)
        case = {"scenario": {"mode": "directory" if dirmode else "path", "strategy": "stop", "answers": [], "plan": [], "tree": spec, "argv": argv},
                "status": res.status, "report": res.report()[:6], "stderr": res.stderr[-300:]}
        if res.status == 0 and pipe.strip_hash(exp) != pipe.strip_hash(fin):
            diff = sorted(p for p in set(exp) | set(fin) if pipe.strip_hash(exp).get(p) != pipe.strip_hash(fin).get(p))
            chk.oracle_fail("status 0 but the tree is not what the template %r describes (%s mode); differing paths: %r" % (
                tpl, case["scenario"]["mode"], diff[:6]), case)
        elif free and res.status != 0:
            chk.oracle_fail("all generated paths of %r are free but the run exited %s: %s" % (tpl, res.status, res.stderr.strip()[-160:]), case)
        stats["library_mode_free"] = stats.get("library_mode_free", 0) + (1 if free else 0)
        stats["library_mode_status0"] = stats.get("library_mode_status0", 0) + (1 if res.status == 0 else 0)


def explicit_entries_stream(chk, rng, n, stats):
    """Entries NAMED on the command line (files, and symbolic links to files, to files elsewhere, to nothing): the named entry
    is what is renamed — a link as a link, its target stays where it is — inside the directory it is named in."""
    import os
    from cli_driver import run_cli, snapshot
    from sandbox import Sandbox
    base = [("out/keep.txt", "f", "keep"), ("in/a.txt", "f", "A"), ("in/b.dat", "f", "B"), ("in/sub/c.txt", "f", "C"),
            ("in/l_sib", "l", "a.txt"), ("in/l_out", "l", "../out/keep.txt"), ("in/l_none", "l", "nowhere"), ("in/sub/l_up", "l", "../b.dat"),
            ("in2/a.txt", "f", "A2"), ("in2/l_abs", "l", "ROOT/out/keep.txt")]
    # (a dangling link cannot be named: the command line refuses a path that does not exist)
    cands = ["in/a.txt", "in/b.dat", "in/sub/c.txt", "in/l_sib", "in/l_out", "in/sub/l_up", "in2/a.txt", "in2/l_abs"]
    TPL = [("-n", "x%Name()", lambda p: os.path.join(os.path.dirname(p), "x" + os.path.basename(p))),
           ("-n", "%Upper{%Name()}", lambda p: os.path.join(os.path.dirname(p), os.path.basename(p).upper())),
           ("-p", "moved/%Name()", lambda p: os.path.join(os.path.dirname(p), "moved", os.path.basename(p))),
           ("-p", "%Dir()/y%Name()", lambda p: os.path.join(os.path.dirname(p), "y" + os.path.basename(p)))]
    for _ in range(n):
        args = rng.sample(cands, rng.randrange(1, 5))
        mode, tpl, fn = rng.choice(TPL)
        spell = rng.choice(["rel", "abs", "dot"])
        with Sandbox() as root:
            pipe.materialise(root, base)
            snap0, ids = pipe.id_map(root)
            init = pipe.canon(snap0, ids, root)
            spelled = [a if spell == "rel" else (os.path.join(root, a) if spell == "abs" else "./" + a) for a in args]
            argv = [mode, "-cs", "--", tpl] + spelled
            res = run_cli(argv, root, root=root, snapshots=False)
            fin = pipe.canon(snapshot(root, with_times=False), ids, root)
        exp = dict(init)
        for a in args:
            d = os.path.normpath(fn(a))
            exp.pop(a, None)
        for a in args:
            d = os.path.normpath(fn(a))
            exp[d] = init[a]
            par = os.path.dirname(d)
            while par and par not in exp:
                exp[par] = ("d",)
                par = os.path.dirname(par)
        stats["explicit_entry_runs"] = stats.get("explicit_entry_runs", 0) + 1
        chk.count(("explicit", tuple(args), mode, tpl, spell), nontrivial=True)
        case = {"scenario": {"mode": "name" if mode == "-n" else "path", "strategy": "stop", "answers": [], "plan": [], "tree": base, "argv": argv[:4] + args},
                "status": res.status, "report": res.report()[:6], "stderr": res.stderr[-300:]}
        if res.status != 0:
            chk.oracle_fail("explicitly named entries with free destinations (%r): exit status %s: %s" % (tpl, res.status, res.stderr.strip()[-160:]), case)
        elif pipe.strip_hash(exp) != pipe.strip_hash(fin):
            diff = sorted(p for p in set(exp) | set(fin) if pipe.strip_hash(exp).get(p) != pipe.strip_hash(fin).get(p))
            chk.oracle_fail("explicitly named entries: status 0 but the tree is not what %r describes; differing paths: %r" % (tpl, diff[:6]), case)


def run(chk):
    rng = chk.rng
    quick = chk.tier == "quick"
    n_scn = 800 if quick else 30000
    n_chain = 400 if quick else 15000
    stats = {"clean": 0, "not_clean": 0, "exact_checked": 0, "free_plans": 0, "chains": 0}
    scns = []
    cdir = os.path.join(common.VERIF, "corpus", "C02")
    if os.path.isdir(cdir):
        for f in sorted(os.listdir(cdir)):
            if f.endswith(".json"):
                s = json.load(open(os.path.join(cdir, f)))
                s["plan"] = [dict(e, r=tuple(e["r"])) for e in s["plan"]]
                s["tree"] = [tuple(x) for x in s["tree"]]
                scns.append(s)
    for i in range(n_scn):
        scns.append(pipe.gen_scenario(rng, strategy="stop", dry=False, big=(i % 5 == 0)))
    for i in range(n_chain):
        scns.append(gen_chain(rng))
    # exhaustive small scope: every plan over 2 (thorough: 3 and, sampled, 4) selected files x 7 names x every order, 1 and 2 roots
    small = list(pipe.exhaustive_plans(2)) + list(pipe.exhaustive_plans(2, roots=2))
    if not quick:
        small += list(pipe.exhaustive_plans(3)) + list(pipe.exhaustive_plans(3, roots=2))
        four = list(pipe.exhaustive_plans(4))
        rng.shuffle(four)
        small += four[:6000]
    stats["exhaustive_small_scope"] = len(small)
    scns += small
    obss = []
    for s in scns:
        o = pipe.run_impl(s, keep_snapshots=False)
        oracle(chk, s, o, stats)
        chk.count((json.dumps(pipe.slim(s), sort_keys=True, default=str),), nontrivial=len(o["calls"]) > 0)
        obss.append(o)
    excluded = pipe.check_cases(chk, scns, obss)
    library_stream(chk, rng, 200 if quick else 8000, stats)
    library_stream_modes(chk, rng, 240 if quick else 8000, stats)
    explicit_entries_stream(chk, rng, 80 if quick else 3000, stats)
    # whole-program model (Whole/Main.v: compile + gather + order + render + run) against the real command line, no plan injection
    import whole
    import random as _random
    whole.whole_stream(chk, _random.Random(chk.seed * 7919 + 2), 150 if quick else 6000, stats)
    for s, o in list(zip(scns, obss))[-3:]:
        chk.sample({"mode": s["mode"], "plan": [(e["dir"], e["rel"], e["r"]) for e in s["plan"]][:5], "status": o["status"], "report": o["report"][:4]})
    chk.coverage["rule"] = (
        "generated trees (1-3 input roots with equal relative names and unselected look-alikes) x injected plans x all three modes x every "
        "processing order, stop strategy, through the real tempren.cli.main(); plus renumbering-style chain plans over the files of each root, "
        "each chain visited forwards or backwards and interleaved across roots. On plans of the clean family (counted): status 0 => final tree == "
        "the plan applied simultaneously to the initial tree (ids, kinds, link targets; only missing parent directories added); all destinations "
        "free => status 0; acyclic chain visited in one direction => status 0")
    d = pipe.stats_of(scns, obss)
    d.update(stats)
    chk.coverage["input_distribution"] = d
    chk.coverage["excluded_from_model_comparison"] = excluded
    chk.coverage["trusted_base"] = common.BASE_TRUSTED + ["modelled, not verified: pathlib/os primitives, rename(2), mkdir -p, shutil.move rename branch (FS/Model.v)"]
    chk.assumptions += ["the expected tree is computed by an independent evaluator in the harness (pipe.expected_final), not by the model"]


def replay(chk, obj):
    rc = 0
    stats = {"clean": 0, "not_clean": 0, "exact_checked": 0, "free_plans": 0, "chains": 0}
    for f in obj.get("failures", [])[:5]:
        scn = f["case"]["scenario"]
        scn["plan"] = [dict(e, r=tuple(e["r"])) for e in scn["plan"]]
        scn["tree"] = [tuple(x) for x in scn["tree"]]
        obs = pipe.run_impl(scn, keep_snapshots=False)
        print("scenario:", json.dumps(pipe.slim(scn), default=str)[:1200])
        print("status", obs["status"], "report", obs["report"], obs["stderr"][-200:])
        n = len(chk.oracle_failures)
        oracle(chk, scn, obs, stats)
        print("oracle:", "VIOLATED: " + chk.oracle_failures[-1]["what"] if len(chk.oracle_failures) > n else "holds")
        rc |= int(len(chk.oracle_failures) > n)
    return rc
