"""C04 — a dry run never changes the filesystem."""
import json
import os
import shutil

import common
import pipe
import cli_driver
from cli_driver import run_cli, strict_snapshot
from sandbox import Sandbox
import impl


def strict(root):
    """names, type, permissions, mtime, size, content / link target of everything under root"""
    return strict_snapshot(root)


def oracle_plan(chk, scn, obs, before, after):
    case = {"scenario": pipe.slim(scn), "status": obs["status"]}
    if obs["calls"] or obs["raw_calls"]:
        chk.oracle_fail("dry run issued filesystem-changing calls: %r" % (obs["raw_calls"][:4],), case)
        return
    if obs["writes"]:
        chk.oracle_fail("dry run opened files for writing: %r" % (obs["writes"][:3],), case)
        return
    if before != after:
        diff = [k for k in set(before) | set(after) if before.get(k) != after.get(k)]
        chk.oracle_fail("dry run changed the tree (names/type/mode/mtime/size/content): %r" % (sorted(diff)[:4],), case)
        return
    if not obs["cwd_restored"]:
        chk.oracle_fail("working directory not restored after the run (status %s)" % obs["status"], case)


def run_dry_scenario(scn):
    """like pipe.run_impl but with strict before/after snapshots taken around main()"""
    holder = {}
    real_materialise = pipe.materialise

    def mat(root, spec):
        real_materialise(root, spec)
        holder["root"] = root
        holder["before"] = strict(root)
    real_snapshot = pipe.snapshot
    pipe.materialise = mat
    try:
        # the final snapshot inside run_impl is taken before the sandbox is removed: hook it
        def snap(root, with_times=True):
            if "after" not in holder and "root" in holder and root == holder["root"] and holder.get("armed"):
                holder["after"] = strict(root)
            return real_snapshot(root, with_times)
        pipe.snapshot = snap
        real_run_cli = pipe.run_cli

        def rc(*a, **k):
            r = real_run_cli(*a, **k)
            holder["armed"] = True
            return r
        pipe.run_cli = rc
        try:
            obs = pipe.run_impl(scn, keep_snapshots=False)
        finally:
            pipe.run_cli = real_run_cli
    finally:
        pipe.materialise = real_materialise
        pipe.snapshot = real_snapshot
    return obs, holder.get("before"), holder.get("after")


# ---- every tag of the working tree's registry on real sample files -----------------------------------

def registry_templates(chk, stats):
    """(qualified name, template text using the tag with a configuration its configure accepts)"""
    import c13
    reg = impl.registry()
    comp = impl.compiler(reg)
    out = []
    for cat_key, cat in reg.category_map.items():
        for tag_name, factory in cat.tag_map.items():
            q = "%s.%s" % (cat.name, tag_name)
            if str(tag_name) == "Eval":
                stats["excluded_user_code"].append(q)      # runs user code: excluded as the manual documents
                continue
            line = factory.configuration_signature.split("\n")[0]
            rd, why = c13.read_line(line)
            if rd is None:
                stats["unreadable_help"].append(q)
                continue
            t = c13.TagUnderTest(comp, str(cat.name), str(tag_name), [], "built-in")
            vals, extra, ok = c13.find_base(t, rd)
            if not ok:
                stats["no_base_call"].append(q)
                continue
            posvals = [vals[p[0]] for p in rd["pos"] if p[2] is None]
            kwvals = [(p[0], vals[p[0]]) for p in rd["kwonly"] if p[2] is None] + ([extra] if extra else [])
            ctx = "x" if rd["ctx"] is True else None
            text = t.template(posvals, kwvals, None)
            if rd["ctx"] is True:
                text += "{%Name()}"
            out.append((q, text, rd["ctx"]))
    return out


def run_registry(chk, stats, quick):
    import c13
    with c13.shared_unit_registry():
        tags = registry_templates(chk, stats)
        data = os.path.join(common.REPO, "tests", "test_data")
        rng = chk.rng
        with Sandbox() as root:
            tree = os.path.join(root, "data")
            shutil.copytree(data, tree, symlinks=True)
            # odd files next to the real samples
            for nm, content in (("empty", b""), ("noext", b"x"), (".hidden.txt", b"h"), ("odd name 'q'.tar.gz", b"\x00\x01"), ("é.ñ", "é".encode())):
                with open(os.path.join(tree, nm), "wb") as fh:
                    fh.write(content)
            os.symlink("nowhere", os.path.join(tree, "dangling"))
            # a second, plain tree: on the sample tree many tags stop the run at the first file they cannot read, so whatever
            # they do to the files they CAN read would go unseen; here every file is an ordinary, freshly written one
            easy = os.path.join(root, "easy")
            os.makedirs(os.path.join(easy, "sub"))
            for nm, content in (("plain.txt", b"plain text\n"), ("sub/data.bin", bytes(range(256)) * 20), ("empty", b""), ("x y.md", b"# t\n")):
                with open(os.path.join(easy, nm), "wb") as fh:
                    fh.write(content)
            before = strict(root)
            positions = ["name", "context", "filter", "sort", "path", "directory"]
            for q, text, ctx in tags:
                todo = ["name"] if quick else positions
                if quick and rng.random() < 0.25:
                    todo.append(rng.choice(positions[1:]))
                for pos in todo + ["easy"]:
                    if pos == "easy":
                        argv = ["-dr", "-r", "%Base()_" + text + "%Ext()", easy]
                    elif pos == "name":
                        argv = ["-dr", "-r", "-ih", "%Base()_" + text + "%Ext()", tree]
                    elif pos == "context":
                        argv = ["-dr", "-r", "%Upper{" + text + "}%Ext()", tree]
                    elif pos == "filter":
                        argv = ["-dr", "-r", "-ft", text + " is not None", "%Upper{%Name()}", tree]
                    elif pos == "sort":
                        argv = ["-dr", "-r", "-s", "str(" + text + ")", "%Count()_%Name()", tree]
                    elif pos == "path":
                        argv = ["-dr", "-r", "-p", "sub/" + text + "/%Name()", tree]
                    else:
                        argv = ["-dr", "-r", "-d", "%Name()_" + text, tree]
                    res = run_cli(argv, root, root=root, snapshots=False)
                    after = strict(root)
                    stats["registry_runs"] += 1
                    stats["registry_status"][str(res.status)] = stats["registry_status"].get(str(res.status), 0) + 1
                    chk.count(("registry", q, pos))
                    case = {"argv": argv[:-1] + ["<copy of tests/test_data>"], "tag": q, "position": pos, "status": res.status}
                    tr = res.tracer
                    if tr.calls:
                        chk.oracle_fail("dry run with %s issued filesystem-changing calls: %r" % (q, [(c["name"], c["args"]) for c in tr.calls][:3]), case)
                    elif [w for w in tr.opens_for_write if str(w[0]).startswith(root)]:
                        chk.oracle_fail("dry run with %s opened files for writing: %r" % (q, tr.opens_for_write[:3]), case)
                    elif after != before:
                        diff = [k for k in set(before) | set(after) if before.get(k) != after.get(k)]
                        chk.oracle_fail("dry run with %s changed the tree: %r" % (q, sorted(diff)[:4]), case)
                        before = after
                    elif res.cwd_after != root:
                        chk.oracle_fail("working directory not restored after a dry run with %s" % q, case)
        stats["registry_tags"] = len(tags)


def run_hostile_names(chk, stats):
    """File and directory names are data: a dry run that evaluates filter/sort expressions over them must not
    execute anything they spell.  Names that close a quote and continue with Python code (each would create a
    directory if it were ever evaluated), in every position a name-valued tag can take in an expression."""
    payload1 = "q'+str(__import__('os').mkdir('PWNED1'))+'"
    payload2 = 'q"+str(__import__("os").mkdir("PWNED2"))+"'
    payload3 = "r')) or __import__('os').mkdir('PWNED3') or ((' .txt"
    names = [payload1, payload2, payload3, "back\\", "tri" + "'" * 3 + "ple", "tri" + '"' * 3 + "ple", "plain.txt", "nl\nname", "{0}{x}%Name()"]
    exprs = [("-ft", "%Dir() != 'zz'"), ("-ft", "%Name() != 'zz'"), ("-ft", "len(%Base()) >= 0 and %Ext() != '.none'"),
             ("-s", "%Dir()"), ("-s", "%Name()"), ("-s", "str(%Dir()) + %Base() + %Ext()"), ("-ft", "str(%Dir()).count('x') < 99"),
             ("-s", "(%Size(), %Name(), %Dir())")]
    with Sandbox() as root:
        # one tree per hostile directory name, so that an evaluation error on one name cannot hide another
        trees = []
        for k, dn in enumerate(names[:6]):
            tree = os.path.join(root, "in%d" % k)
            os.mkdir(tree)
            os.mkdir(os.path.join(tree, dn))
            for fn in ("plain.txt", names[(k + 1) % len(names)], names[(k + 4) % len(names)]):
                with open(os.path.join(tree, dn, fn), "w") as fh:
                    fh.write(fn)
                with open(os.path.join(tree, "f-" + fn), "w") as fh:
                    fh.write("x")
            trees.append(tree)
        # names that differ in letter case only, with a template that maps one onto the other: whatever the program does to
        # find out whether such a destination is "the same file", it must not touch the directory in a dry run
        case_tree = os.path.join(root, "case")
        os.mkdir(case_tree)
        for fn in ("Readme.txt", "README.TXT", "readme.txt", "other.md"):
            with open(os.path.join(case_tree, fn), "w") as fh:
                fh.write(fn)
        before = strict(root)
        for strat in ("-cs", "-ci", "-co"):
            for tpl in ("%Upper{%Name()}", "%Lower{%Name()}"):
                argv = ["-dr", strat, "--", tpl, case_tree]
                res = run_cli(argv, root, root=root, snapshots=False)
                after = strict(root)
                stats["hostile_name_runs"] = stats.get("hostile_name_runs", 0) + 1
                chk.count(("case-only", strat, tpl))
                case = {"argv": argv[:-1] + ["<tree with names differing in case only>"], "status": res.status, "stderr": res.stderr[-300:]}
                if res.tracer.calls or [w for w in res.tracer.opens_for_write if str(w[0]).startswith(root)]:
                    chk.oracle_fail("dry run over names differing in case only issued filesystem-changing calls / opened files for writing: %r %r" % (
                        [(c["name"], c["args"]) for c in res.tracer.calls][:3], res.tracer.opens_for_write[:3]), case)
                elif after != before:
                    diff = [k for k in set(before) | set(after) if before.get(k) != after.get(k)]
                    chk.oracle_fail("dry run over names differing in case only changed the tree (a directory's mtime counts): %r" % (sorted(diff)[:4],), case)
                    before = after
        for opt, e in exprs:
            for mode, tpl, tree in [(m, t, tr) for tr in trees for (m, t) in (("-n", "%Upper{%Name()}"), ("-p", "%Dir()/n/%Name()"))]:
                argv = ["-dr", "-r", "-ih", mode, opt + "=" + e, "--", tpl, tree]
                res = run_cli(argv, root, root=root, snapshots=False)
                after = strict(root)
                stats["hostile_name_runs"] = stats.get("hostile_name_runs", 0) + 1
                stats.setdefault("hostile_status", {})
                stats["hostile_status"][str(res.status)] = stats["hostile_status"].get(str(res.status), 0) + 1
                chk.count(("hostile", opt, e, mode, os.path.basename(tree)))
                case = {"argv": argv[:-1] + ["<tree with names that spell Python code>"], "names": names, "status": res.status,
                        "stderr": res.stderr[-300:]}
                if res.tracer.calls:
                    chk.oracle_fail("dry run evaluated a file name as code / issued filesystem-changing calls: %r" % (
                        [(c["name"], c["args"]) for c in res.tracer.calls][:3],), case)
                elif after != before:
                    diff = [k for k in set(before) | set(after) if before.get(k) != after.get(k)]
                    chk.oracle_fail("dry run over hostile names changed the tree: %r" % (sorted(diff)[:4],), case)
                    before = after
                elif res.cwd_after != root:
                    chk.oracle_fail("working directory not restored after a dry run over hostile names", case)


def run(chk):
    rng = chk.rng
    quick = chk.tier == "quick"
    n_scn = 600 if quick else 20000
    stats = {"excluded_user_code": [], "unreadable_help": [], "no_base_call": [], "registry_runs": 0,
             "registry_status": {}, "registry_tags": 0}
    scns, obss = [], []
    for i in range(n_scn):
        scn = pipe.gen_scenario(rng, dry=True, big=(i % 5 == 0))
        obs, before, after = run_dry_scenario(scn)
        oracle_plan(chk, scn, obs, before, after)
        chk.count((json.dumps(pipe.slim(scn), sort_keys=True, default=str),), nontrivial=len(scn["plan"]) > 0)
        scns.append(scn); obss.append(obs)
    # the real runs of the same scenarios restore the working directory too (the cwd clause holds for every run)
    for i in range(0, len(scns), 6):
        s2 = dict(scns[i]); s2["dry"] = False
        o2 = pipe.run_impl(s2, keep_snapshots=False)
        if not o2["cwd_restored"]:
            chk.oracle_fail("working directory not restored after a real run (status %s)" % o2["status"],
                            {"scenario": pipe.slim(s2)})
    excluded = pipe.check_cases(chk, scns, obss)
    run_registry(chk, stats, quick)
    run_hostile_names(chk, stats)
    for s, o in list(zip(scns, obss))[:3]:
        chk.sample({"mode": s["mode"], "strategy": s["strategy"], "answers": s["answers"],
                    "plan": [(e["dir"], e["rel"], e["r"]) for e in s["plan"]][:4], "status": o["status"], "report": o["report"][:3]})
    # the whole-program model (Whole/*.v), on which this property's whole-program theorems rest, against the real command line
    import whole as _whole
    import random as _random
    _ws = {}
    _whole.whole_stream(chk, _random.Random(chk.seed * 7919 + 4), 60 if chk.tier == "quick" else 2500, _ws)
    chk.notes["whole_program_tie"] = _ws
    chk.coverage["rule"] = (
        "(a) generated trees x injected plans x mode x every strategy incl. override and scripted manual answers, all with --dry-run, "
        "through the real tempren.cli.main(): no traced filesystem call, no open() for writing, strict lstat+content snapshot "
        "(type, mode, mtime_ns, size, content hash, link target) identical, cwd restored; distinct by full description; "
        "(b) every tag of every category of the working tree's registry (enumerated at run time, Eval excluded) with a configuration its "
        "configure accepts, in name position (quick: plus a random other position; thorough: as context, in filter, in sort, in path and "
        "directory mode) over a copy of tests/test_data plus odd files, same observations")
    d = pipe.stats_of(scns, obss)
    d.update(stats)
    chk.coverage["input_distribution"] = d
    chk.coverage["excluded_from_model_comparison"] = excluded
    chk.coverage["trusted_base"] = common.BASE_TRUSTED + [
        "what third-party readers (mutagen, Pillow, piexif, pymediainfo, libmagic, gpxpy) do to a file they open is runtime behaviour no "
        "model here can exhibit: observed by the strict snapshot only (partial)",
        "the tracer wraps os.rename/mkdir/replace/unlink/rmdir/remove/symlink/link/makedirs/chmod/utime/truncate, shutil.move/copy*/rmtree and open() in the running interpreter"]
    chk.assumptions += ["atime is not compared", "ad-hoc commands and Eval run user code and are excluded, as the manual documents"]


def replay(chk, obj):
    rc = 0
    for f in obj.get("failures", [])[:5]:
        case = f["case"]
        if "scenario" in case:
            scn = case["scenario"]
            scn["plan"] = [dict(e, r=tuple(e["r"])) for e in scn["plan"]]
            scn["tree"] = [tuple(x) for x in scn["tree"]]
            obs, before, after = run_dry_scenario(scn)
            n = len(chk.oracle_failures)
            oracle_plan(chk, scn, obs, before, after)
            print("scenario:", json.dumps(pipe.slim(scn), default=str)[:1200])
            print("status", obs["status"], "calls", obs["raw_calls"])
            print("oracle:", "VIOLATED: " + chk.oracle_failures[-1]["what"] if len(chk.oracle_failures) > n else "holds")
            rc |= int(len(chk.oracle_failures) > n)
        else:
            print("registry case (re-run the check to reproduce):", json.dumps(case)[:600])
    return rc
