"""C08 — files are processed in the order given by the sort expression; directory mode
processes deeper directories before their ancestors.

Implementation side: tempren.cli.main() in-process on a real tree; the processing order is
read (a) from the numbers a %Count(...) tag puts into the final names and (b) from the order
of the 'Renamed:' report lines.  The sorter's input (gather order, filter verdicts) is observed
by wrapping the pipeline's gatherer and filter objects from the outside.
Model side: every file's key is computed here from the file's attributes (never by calling
tempren), handed to Coq as a pyval literal together with the gather order; Coq computes
Py.Sort.template_sort / depth_sort and the Count numbering (Tags.Count.count_values).
Oracle (independent of the model): CPython's own <= on the recomputed keys along the
observed order, ties in gather order; directory mode: no ancestor before a descendant."""
import json
import os
import re
import sys
from concurrent.futures import ProcessPoolExecutor
from pathlib import PurePosixPath

import common
from common import q_Z, q_bool, q_list, q_str
import cli_driver
from sandbox import Sandbox

PID = "C08"
NUM_RE = re.compile(r"^(\d{6})_(.*)$", re.S)

# ------------------------------------------------------------------------------ names

STEMS = ["f9", "f10", "f100", "f1", "9", "10", "010", "a", "A", "b", "B", "ab", "aB", "a b", "a'b", 'a"b',
         "a'\"b", "a\\b", "a\\'b", "\\", "'", '"', "é", "É", "é", "ß", "Ω", "ω", "中", "😀", "z{x}", "%Name()",
         "p|q", "x,y", "(1,2)", "a.b", "a..b", "-x", "-", "~", "Z", "_", "İ", "ǅ", "ﬁ", "i"]
EXTS = ["", "", ".txt", ".TXT", ".t", ".10", ".9", ".é", ".a'b", ".tar.gz", ".", ".\\", '."']
DIRNAMES = ["sub", "Sub", "d9", "d10", "a'b", "a\\b", "é", "-d", "x y", "d.e", "10", "9", "😀", "~", "A", "a"]


def gen_name(rng, hidden_ok):
    s = rng.choice(STEMS) + rng.choice(EXTS)
    if hidden_ok and rng.random() < 0.15:
        s = "." + s
    if s in (".", "..") or NUM_RE.match(s):
        s = "n" + s
    return s


# ------------------------------------------------------------------------------ sort expressions
# AST (JSON-able): ["name"] ["base"] ["ext"] ["dir"] ["size"] ["lower", e] ["len", e] ["neg", e]
# ["gt", e, n] ["mod", e, n] ["tuple", [e...]]          (the top level is a list of elements)

STR_ATOMS = [["name"], ["base"], ["ext"]]


def gen_elem(rng, depth=0):
    r = rng.random()
    if r < 0.20:
        return ["name"]
    if r < 0.30:
        return ["base"]
    if r < 0.42:
        return ["ext"]
    if r < 0.50:
        return ["dir"]
    if r < 0.68:
        return ["size"]
    if r < 0.78:
        return ["lower", rng.choice(STR_ATOMS)]
    if r < 0.86:
        return ["len", rng.choice(STR_ATOMS)]
    if r < 0.89:
        return ["neg", ["size"]]
    if r < 0.92:
        return ["gt", ["size"], rng.choice([0, 1, 2, 5])]
    if r < 0.95:
        return ["mod", ["size"], rng.choice([2, 3, 4])]
    if depth == 0:
        return ["tuple", [gen_elem(rng, 1) for _ in range(rng.choice([1, 2, 2, 3]))]]
    return ["size"]


def gen_sort(rng):
    n = rng.choice([1, 1, 1, 2, 2, 2, 3])
    return [gen_elem(rng) for _ in range(n)]


def elem_text(e):
    k = e[0]
    if k == "name":
        return "%Name()"
    if k == "base":
        return "%Base()"
    if k == "ext":
        return "%Ext()"
    if k == "dir":
        return "%Dir()"
    if k == "size":
        return "%Size()"
    if k == "lower":
        return "%Lower{" + elem_text(e[1]) + "}"
    if k == "len":
        return "len(" + elem_text(e[1]) + ")"
    if k == "neg":
        return "-" + elem_text(e[1])
    if k == "gt":
        return elem_text(e[1]) + " > %d" % e[2]
    if k == "mod":      # a literal % would start a tag: x % n spelled x - n * (x // n)
        return "(%s - %d * (%s // %d))" % (elem_text(e[1]), e[2], elem_text(e[1]), e[2])
    if k == "tuple":
        return "(" + ", ".join(elem_text(x) for x in e[1]) + ("," if len(e[1]) == 1 else "") + ")"
    raise ValueError(e)


def sort_text(sort):
    return ", ".join(elem_text(e) for e in sort)


# --- the file attributes, computed here (3.12 pathlib semantics written out; C17 proves them)

def split_name(name):
    i = name.rfind(".")
    if 0 < i < len(name) - 1:
        return name[:i], name[i:]
    return name, ""


def elem_value(e, f):
    """f: dict(rel=str, size=int).  Returns the Python value the expression element denotes."""
    k = e[0]
    parts = f["rel"].split("/")
    name = parts[-1]
    if k == "name":
        return name
    if k == "base":
        return split_name(name)[0]
    if k == "ext":
        return split_name(name)[1]
    if k == "dir":
        return PurePosixPath("/".join(parts[:-1]) or ".")
    if k == "size":
        return f["size"]
    if k == "lower":
        return elem_value(e[1], f).lower()
    if k == "len":
        return len(elem_value(e[1], f))
    if k == "neg":
        return -elem_value(e[1], f)
    if k == "gt":
        return elem_value(e[1], f) > e[2]
    if k == "mod":
        return elem_value(e[1], f) % e[2]
    if k == "tuple":
        return tuple(elem_value(x, f) for x in e[1])
    raise ValueError(e)


def key_value(sort, f):
    return tuple(elem_value(e, f) for e in sort)


def q_pyval(v):
    if isinstance(v, bool):
        return "(VBool %s)" % q_bool(v)
    if isinstance(v, int):
        return "(VInt %s)" % q_Z(v)
    if isinstance(v, str):
        return "(VStr %s)" % q_str(v)
    if isinstance(v, tuple):
        return "(VTuple %s)" % q_list([q_pyval(x) for x in v], "pyval")
    if isinstance(v, PurePosixPath):
        return "(VPath %s)" % q_list([q_str(s) for s in str(v).split("/")], "list N")
    raise TypeError(type(v))


def kind_of(v):
    if isinstance(v, (bool, int)):
        return "num"
    if isinstance(v, str):
        return "str"
    if isinstance(v, PurePosixPath):
        return "path"
    return "(" + ",".join(kind_of(x) for x in v) + ")"


# ------------------------------------------------------------------------------ case generation

def gen_tree(rng, recursive, hidden_ok, n_files, dir_mode=False, taken=None):
    """entries: [rel, kind ('f'|'d'), size].  taken: relative paths used in an earlier input root — a report
    line shows only the relative path, so processed entries get distinct ones across roots."""
    taken = taken if taken is not None else set()
    dirs = [""]
    if recursive or dir_mode:
        for _ in range(rng.choice([0, 1, 2, 3, 4] if not dir_mode else [2, 3, 4, 5, 6, 8])):
            parent = rng.choice(dirs)
            d = rng.choice(DIRNAMES)
            if parent and rng.random() < 0.35:
                # a sibling whose name continues the parent's with a character below '/': as path values
                # ('a', 'x') < ("a'b",), as strings "a'b" < "a/x"
                d = parent.split("/")[-1] + rng.choice(["'b", " y", "-", ".e", "!", "+"])
                parent = "/".join(parent.split("/")[:-1])
            if hidden_ok and rng.random() < 0.1:
                d = "." + d
            p = (parent + "/" + d) if parent else d
            if p not in dirs and p.count("/") < 4 and not (dir_mode and p in taken):
                dirs.append(p)
    elif rng.random() < 0.3:
        dirs.append(rng.choice(DIRNAMES))      # a sub-directory that must not be entered
    entries = [[d, "d", 0] for d in dirs if d]
    seen = set(dirs)
    sizes = rng.choice([[0, 1, 2], [1, 2], [9, 10, 100], [0, 1, 2, 3, 5, 9, 10, 11, 99, 100, 1000], [3]])
    for _ in range(n_files):
        d = rng.choice(dirs if (recursive or dir_mode) else [""])
        nm = gen_name(rng, hidden_ok)
        p = (d + "/" + nm) if d else nm
        if p in seen or p in taken:
            continue
        seen.add(p)
        entries.append([p, "f", rng.choice(sizes)])
    taken.update(seen)
    return entries


def gen_case(rng):
    r = rng.random()
    mode = "dir" if r < 0.18 else ("path" if r < 0.40 else "name")
    hidden = rng.random() < 0.3
    count = [rng.choice([0, 0, 1, 5, 100, 999]), rng.choice([1, 1, 1, 2, 10]), rng.random() < 0.75]
    case = {"mode": mode, "hidden": hidden, "count": count, "filter": None, "filter_invert": False}
    if mode == "dir":
        case["recursive"] = True
        case["sort"] = None
        case["invert"] = False
        nroots = rng.choice([1, 1, 1, 2])
        taken = set()
        case["roots"] = [{"name": ["in", "in2"][i], "entries": gen_tree(rng, True, True, rng.choice([0, 1, 3]), True, taken)}
                         for i in range(nroots)]
        if rng.random() < 0.06:
            case["sort"] = [["name"]]        # --sort with --directory: must be refused (or still be depth first)
        if rng.random() < 0.2:
            case["filter"] = ["fr", rng.choice(["^[a-z]", "[^0-9]$", "."])]
        return case
    case["recursive"] = rng.random() < 0.5
    case["invert"] = rng.random() < 0.45
    case["sort"] = gen_sort(rng)
    nroots = rng.choice([1, 1, 1, 1, 2])
    n = rng.choice([2, 3, 4, 5, 6, 8, 10, 14]) if rng.random() < 0.9 else rng.randrange(15, 40)
    taken = set()
    case["roots"] = [{"name": ["in", "in2"][i], "entries": gen_tree(rng, case["recursive"], True, n, False, taken)}
                     for i in range(nroots)]
    fr = rng.random()
    if fr < 0.15:
        case["filter"] = ["ft", rng.choice(["%Size() > 0", "%Size() - 2 * (%Size() // 2) == 0", "len(%Name()) > 2",
                                             "%Size() < 10", "'.' in %Name()"])]
    elif fr < 0.25 and mode == "name":
        case["filter"] = ["fg", rng.choice(["*.txt", "*a*", "f*", "*.*"])]
    elif fr < 0.30:
        case["filter"] = ["fr", rng.choice(["^[a-fA-F]", "[0-9]", "t$"])]
    if case["filter"]:
        case["filter_invert"] = rng.random() < 0.3
    return case


def case_argv(case, root):
    start, step, common_ = case["count"]
    cnt = "%%Count(start=%d,step=%d,width=6%s)" % (start, step, ",common" if common_ else "")
    argv = []
    if case["mode"] == "dir":
        argv.append("-d")
        template = cnt + "_%Name()"
    elif case["mode"] == "path":
        argv.append("-p")
        template = "%Dir()/" + cnt + "_%Name()"
    else:
        template = cnt + "_%Name()"
    if case["recursive"]:
        argv.append("-r")
    if case["hidden"]:
        argv.append("-ih")
    if case["sort"] is not None:
        argv.append("--sort=" + sort_text(case["sort"]))
    if case["invert"]:
        argv.append("-si")
    if case["filter"]:
        argv.append({"ft": "--filter-template=", "fg": "--filter-glob=", "fr": "--filter-regex="}[case["filter"][0]]
                    + case["filter"][1])
        if case["filter_invert"]:
            argv.append("-fi")
    argv.append(template)
    argv += [os.path.join(root, r["name"]) for r in case["roots"]]
    return argv


# ------------------------------------------------------------------------------ implementation run

class _GatherProxy:
    def __init__(self, inner, log):
        self._inner = inner
        self._log = log

    def gather_files(self):
        for f in self._inner.gather_files():
            self._log.append(f)
            yield f

    def __getattr__(self, name):
        return getattr(self._inner, name)


def run_impl(case):
    """Runs tempren on the case's tree.  Returns a JSON-able observation."""
    import tempren.cli as tcli
    gathered, verdicts = [], []
    orig_build = tcli.build_pipeline
    state = {"sorter": None}

    def build(*a, **k):
        p = orig_build(*a, **k)
        p.file_gatherer = _GatherProxy(p.file_gatherer, gathered)
        inner_filter = p.file_filter

        def flt(f):
            v = bool(inner_filter(f))
            verdicts.append(v)
            return v
        p.file_filter = flt
        state["sorter"] = type(p.sorter).__name__ if p.sorter is not None else None
        return p

    with Sandbox("verif-c08-") as root:
        spec = []
        sizes = {}
        for ri, r in enumerate(case["roots"]):
            spec.append((r["name"], "d", None))
            for rel, kind, size in r["entries"]:
                spec.append((r["name"] + "/" + rel, kind, b"x" * size if kind == "f" else None))
                if kind == "f":
                    sizes[(ri, rel)] = size
        cli_driver.build_tree(root, spec)
        roots_abs = [os.path.realpath(os.path.join(root, r["name"])) for r in case["roots"]]
        tcli.build_pipeline = build
        try:
            res = cli_driver.run_cli(case_argv(case, root), root, root=root, trace=False, snapshots=False)
        finally:
            tcli.build_pipeline = orig_build
        # (a) the numbers in the final names
        numbered = {}
        leftovers = []
        for ri, ra in enumerate(roots_abs):
            stack = [(ra, "")]
            while stack:
                d, orig_d = stack.pop()
                for e in os.scandir(d):
                    m = NUM_RE.match(e.name)
                    oname = m.group(2) if m else e.name
                    orel = (orig_d + "/" + oname) if orig_d else oname
                    if m:
                        numbered.setdefault("%d:%s" % (ri, orel), int(m.group(1)))
                    else:
                        leftovers.append("%d:%s" % (ri, orel))
                    if e.is_dir(follow_symlinks=False):
                        stack.append((e.path, orel))
    files = []
    for f in gathered:
        ri = roots_abs.index(str(f.input_directory)) if str(f.input_directory) in roots_abs else -1
        rel = str(f.relative_path)
        files.append({"root": ri, "rel": rel, "size": sizes.get((ri, rel), -1)})
    return {"status": res.status, "exception": res.exception, "stderr": res.stderr[-600:],
            "gathered": files, "verdicts": verdicts, "report": [s for s, _, _ in res.report()],
            "report_dst": [d for _, d, _ in res.report()],
            "numbered": numbered, "sorter": state["sorter"]}


# ------------------------------------------------------------------------------ oracle

def is_ancestor(a, b):
    pa, pb = a.split("/"), b.split("/")
    return len(pa) < len(pb) and pb[:len(pa)] == pa


def evaluate(case, obs):
    """Returns (failure text | None, info) where info carries what the correspondence needs:
    inputs (sorter input in gather order), order (indices into inputs, processing order), numbers."""
    info = {"inputs": [], "order": [], "numbers": []}
    dir_mode = case["mode"] == "dir"
    if dir_mode and case["sort"] is not None and obs["status"] != 0:
        if obs["numbered"]:
            return "directory mode with --sort was refused (status %s) but entries were renamed" % obs["status"], info
        info["refused"] = True
        return None, info
    if obs["status"] != 0:
        return "tempren ended with status %s (%s) on a homogeneous sort key: %s" % (
            obs["status"], obs["exception"], obs["stderr"][-300:]), info
    if len(obs["verdicts"]) == len(obs["gathered"]):
        inputs = [f for f, v in zip(obs["gathered"], obs["verdicts"]) if v]
    else:
        # the filter object was not called once per gathered file (a refactoring may filter elsewhere):
        # which files are designated is C07's business; here the sorter's input is taken to be the
        # gathered files that were processed, in gather order
        info["filter_not_observed"] = True
        inputs = [f for f in obs["gathered"] if "%d:%s" % (f["root"], f["rel"]) in obs["numbered"]]
    info["inputs"] = inputs
    ids = ["%d:%s" % (f["root"], f["rel"]) for f in inputs]
    if len(set(ids)) != len(ids) or any(f["root"] < 0 for f in inputs):
        return "harness: gathered files are not uniquely identified", info
    # every file handed to the sorter was processed exactly once (the template changes every name)
    if sorted(obs["numbered"].keys()) != sorted(ids):
        return "processed entries %r differ from the sorter's input %r" % (sorted(obs["numbered"]), sorted(ids)), info
    if len(obs["report"]) != len(ids):
        return "%d report lines for %d processed entries" % (len(obs["report"]), len(ids)), info
    # (b) report order -> indices into the sorter's input.  A report line carries only the relative
    # path; with two roots the same relative path may occur twice: resolve by the number in the
    # destination of the same line.
    order = []
    used = set()
    for src, dst in zip(obs["report"], obs["report_dst"]):
        m = NUM_RE.match(dst.split("/")[-1])
        num = int(m.group(1)) if m else None
        cand = [i for i, f in enumerate(inputs) if f["rel"] == src and i not in used
                and obs["numbered"][ids[i]] == num]
        if not cand:
            return "report line %r -> %r matches no processed entry" % (src, dst), info
        if len(cand) > 1:
            # same relative path and same number in two input roots: the report cannot tell them apart
            info["ambiguous"] = True
            info["order"] = []
            return None, info
        order.append(cand[0])
        used.add(cand[0])
    info["order"] = order
    numbers = [obs["numbered"][ids[i]] for i in order]
    info["numbers"] = numbers
    # Count numbers the entries in processing order
    start, step, common_ = case["count"]
    if common_:
        for pos, n in enumerate(numbers):
            if n != start + pos * step:
                return "the %d-th processed entry %r got number %d, expected %d" % (
                    pos, inputs[order[pos]]["rel"], n, start + pos * step), info
    else:
        per = {}
        for pos, i in enumerate(order):
            f = inputs[i]
            d = (f["root"], f["rel"].rsplit("/", 1)[0] if "/" in f["rel"] else "")
            k = per.get(d, 0)
            per[d] = k + 1
            # directory mode renames children before parents, so a directory's key is stable
            if numbers[pos] != start + k * step:
                return "the %d-th processed entry of directory %r (%r) got number %d, expected %d" % (
                    k, d, f["rel"], numbers[pos], start + k * step), info
    if dir_mode:
        for x in range(len(order)):
            for y in range(x + 1, len(order)):
                a, b = inputs[order[x]], inputs[order[y]]
                if a["root"] == b["root"] and is_ancestor(a["rel"], b["rel"]):
                    return "directory %r was processed before its descendant %r" % (a["rel"], b["rel"]), info
        return None, info
    # sorted by the key, ties in gather order (CPython's own comparison on the recomputed keys)
    keys = [key_value(case["sort"], f) for f in inputs]
    info["keys"] = keys
    try:
        for x in range(len(order)):
            for y in range(x + 1, len(order)):
                ka, kb = keys[order[x]], keys[order[y]]
                if case["invert"]:
                    good = ka >= kb
                    strict = ka > kb
                else:
                    good = ka <= kb
                    strict = ka < kb
                if not good:
                    return "%r (key %r) was processed before %r (key %r)%s" % (
                        inputs[order[x]]["rel"], ka, inputs[order[y]]["rel"], kb,
                        " with --sort-invert" if case["invert"] else ""), info
                if not strict and order[x] > order[y]:
                    return "equal keys %r: %r was processed before %r although it was gathered later" % (
                        ka, inputs[order[x]]["rel"], inputs[order[y]]["rel"]), info
    except TypeError as e:
        return "harness: generated keys are not homogeneous (%s)" % e, info
    return None, info


def q_case(case, info):
    start, step, common_ = case["count"]
    cfg = "{| cc_start := %s; cc_step := %s; cc_width := 6; cc_common := %s |}" % (q_Z(start), q_Z(step), q_bool(common_))
    inputs = info["inputs"]
    dirs = []
    items = []
    for f, k in zip(inputs, info["keys"]):
        d = (f["root"], f["rel"].rsplit("/", 1)[0] if "/" in f["rel"] else "")
        if d not in dirs:
            dirs.append(d)
        items.append("(%s, %d%%N)" % (q_pyval(k), dirs.index(d)))
    obs = ["(%d%%nat, %s)" % (i, q_Z(n)) for i, n in zip(info["order"], info["numbers"])]
    return "(%s, %s, %s, %s)" % (q_list(items, "pyval * N"), q_bool(case["invert"]), cfg, q_list(obs, "nat * Z"))


def q_rpath(rel):
    return q_list([q_str(s) for s in rel.split("/")], "list N")


def q_depth_case(info):
    """all gathered directories of the run (gather order, all input roots) and the observed order"""
    ins = info["inputs"]
    obs = [ins[i]["rel"] for i in info["order"]]
    return "(%s, %s)" % (q_list([q_rpath(f["rel"]) for f in ins], "rpath"), q_list([q_rpath(r) for r in obs], "rpath"))


# ------------------------------------------------------------------------------ driver

CORPUS = [
    # numeric vs lexicographic: f9 / f10, sizes 9 / 10 / 100
    {"mode": "name", "hidden": False, "count": [0, 1, True], "filter": None, "filter_invert": False, "recursive": False,
     "invert": False, "sort": [["size"]],
     "roots": [{"name": "in", "entries": [["f9", "f", 10], ["f10", "f", 9], ["f100", "f", 100], ["f1", "f", 2]]}]},
    {"mode": "name", "hidden": False, "count": [1, 1, True], "filter": None, "filter_invert": False, "recursive": False,
     "invert": True, "sort": [["name"]],
     "roots": [{"name": "in", "entries": [["f9", "f", 1], ["f10", "f", 1], ["f100", "f", 1], ["F2", "f", 1]]}]},
    # ties with and without inversion: second key decides, then gather order
    {"mode": "name", "hidden": False, "count": [0, 1, True], "filter": None, "filter_invert": False, "recursive": False,
     "invert": True, "sort": [["size"]],
     "roots": [{"name": "in", "entries": [["a", "f", 1], ["b", "f", 1], ["c", "f", 1], ["d", "f", 2], ["e", "f", 0], ["g", "f", 1]]}]},
    {"mode": "name", "hidden": False, "count": [0, 1, True], "filter": None, "filter_invert": False, "recursive": False,
     "invert": False, "sort": [["size"], ["lower", ["name"]]],
     "roots": [{"name": "in", "entries": [["B", "f", 1], ["a", "f", 1], ["C", "f", 1], ["b", "f", 1], ["A", "f", 0]]}]},
    # quotes and backslashes inside the evaluated expression; Dir as a path value
    {"mode": "path", "hidden": True, "count": [0, 1, True], "filter": None, "filter_invert": False, "recursive": True,
     "invert": False, "sort": [["dir"], ["ext"], ["name"]],
     "roots": [{"name": "in", "entries": [["a'b", "d", 0], ["-d", "d", 0], ["a'b/a\\b", "d", 0], ["a'\"b.t", "f", 1],
                                           ["a'b/\\", "f", 2], ["a'b/a\\b/'.\\", "f", 0], ["-d/é.é", "f", 3],
                                           [".h", "f", 1], ["a'b/x.t", "f", 1]]}]},
    # Dir is a path value: ('a', 'x') < ("a'b",) although "a'b" < "a/x" as strings; '.' sorts after '-d'
    {"mode": "name", "hidden": False, "count": [0, 1, True], "filter": None, "filter_invert": False, "recursive": True,
     "invert": False, "sort": [["dir"]],
     "roots": [{"name": "in", "entries": [["a", "d", 0], ["a/x", "d", 0], ["a'b", "d", 0], ["a-", "d", 0], ["-d", "d", 0],
                                           ["a/x/f1", "f", 1], ["a'b/f2", "f", 1], ["a-/f3", "f", 1], ["a/f4", "f", 1],
                                           ["f5", "f", 1], ["-d/f6", "f", 1]]}]},
    # per-directory counters follow the sorted order inside each directory
    {"mode": "name", "hidden": False, "count": [5, 2, False], "filter": ["ft", "%Size() > 0"], "filter_invert": False,
     "recursive": True, "invert": True, "sort": [["len", ["name"]], ["size"]],
     "roots": [{"name": "in", "entries": [["d9", "d", 0], ["d9/aa", "f", 1], ["d9/b", "f", 2], ["cc", "f", 3], ["d", "f", 0],
                                           ["d9/ccc", "f", 1], ["e", "f", 4]]}]},
    # directory mode
    {"mode": "dir", "hidden": False, "count": [0, 1, True], "filter": None, "filter_invert": False, "recursive": True,
     "invert": False, "sort": None,
     "roots": [{"name": "in", "entries": [["a", "d", 0], ["a/b", "d", 0], ["a/b/c", "d", 0], ["a/d", "d", 0], ["e", "d", 0],
                                           ["e/f", "d", 0], ["a/b/x", "f", 1]]}]},
]


def _one(case):
    try:
        obs = run_impl(case)
        return obs
    except Exception as e:      # a crash of the driver itself is reported as a harness problem
        import traceback
        return {"harness_error": traceback.format_exc()[-1500:]}


def _worker(cases):
    import io
    out = []
    for c in cases:
        out.append(_one(c))
    return out


def run_all(cases, jobs):
    if jobs <= 1 or len(cases) < 64:
        return _worker(cases)
    chunk = max(8, len(cases) // (jobs * 4))
    parts = [cases[i:i + chunk] for i in range(0, len(cases), chunk)]
    with ProcessPoolExecutor(max_workers=jobs) as ex:
        res = list(ex.map(_worker, parts))
    return [o for part in res for o in part]


def shrink(case, fails):
    """Drop entries one at a time while the oracle still fails."""
    cur = json.loads(json.dumps(case))
    changed = True
    budget = 60
    while changed and budget > 0:
        changed = False
        for ri, r in enumerate(cur["roots"]):
            for j in range(len(r["entries"]) - 1, -1, -1):
                if budget <= 0:
                    break
                ent = r["entries"][j]
                # keep directories that still have children
                if ent[1] == "d" and any(e[0].startswith(ent[0] + "/") for e in r["entries"]):
                    continue
                trial = json.loads(json.dumps(cur))
                del trial["roots"][ri]["entries"][j]
                budget -= 1
                obs = _one(trial)
                if "harness_error" in obs:
                    continue
                f, _ = evaluate(trial, obs)
                if f and not f.startswith("harness"):
                    cur = trial
                    changed = True
    return cur


def dir_mode_links(chk, stats):
    """Directory mode over trees in which a directory is reached through a symbolic link that points HIGHER in the tree than the
    link stands (and one that points to a sibling): depth is a matter of where the ENTRY is, deeper entries first, so every
    directory and link still exists under the path it was gathered at when its turn comes."""
    import os
    layouts = [
        [("in/a", "d", None), ("in/a/b", "d", None), ("in/top", "d", None), ("in/top/f.txt", "f", "x"), ("in/a/b/link", "l", "../../top")],
        [("in/a", "d", None), ("in/a/b", "d", None), ("in/a/b/c", "d", None), ("in/z", "d", None), ("in/z/g", "f", "y"),
         ("in/a/b/c/up", "l", "../../../z"), ("in/a/side", "l", "../z")],
    ]
    for spec in layouts:
        for tpl in ("n%Count()_%Name()", "%Upper{%Name()}x"):
            with Sandbox("verif-c08-l") as root:
                cli_driver.build_tree(root, spec)
                extra = ["-si"] if tpl.startswith("n") else []          # --sort-invert does not turn the depth order round
                res = cli_driver.run_cli(["-d", "-r"] + extra + ["--", tpl, os.path.join(root, "in")], root, root=root, snapshots=False)
                left = []
                for dp, dn, fn in os.walk(os.path.join(root, "in")):
                    for x in dn + [f for f in fn if os.path.islink(os.path.join(dp, f))]:
                        full = os.path.join(dp, x)
                        if os.path.isdir(full) and not (x.startswith("n") and "_" in x or x.endswith("x") and x[:-1].upper() == x[:-1]):
                            left.append(os.path.relpath(full, root))
            chk.count(("dir-mode-links", json.dumps(spec), tpl))
            stats["dir_mode_link_runs"] = stats.get("dir_mode_link_runs", 0) + 1
            case = {"tree": spec, "argv": ["-d", "-r", tpl, "<root>/in"], "status": res.status, "stderr": res.stderr[-300:]}
            if res.status != 0:
                chk.oracle_fail("directory mode, a directory reached through a link that points higher up: exit status %s (%s)" % (
                    res.status, res.stderr.strip()[-160:]), case)
            elif left:
                chk.oracle_fail("directory mode: directories/links left unrenamed with status 0: %r" % (left,), case)


def linked_entries_sort(chk, stats):
    """Several NAMES of one file (hard links; a symbolic link next to its target): the sort key of an entry is computed from
    that entry's own name, whatever else on disk is the same file."""
    import os
    cases = [("%Name()", False), ("%Name()", True), ("%Lower{%Name()}, %Name()", False), ("%Ext(), %Name()", True), ("len(%Name()), %Name()", False)]
    for expr, inv in cases:
        with Sandbox("verif-c08-h") as root:
            d = os.path.join(root, "in")
            os.mkdir(d)
            for nm, content in (("b.txt", "1"), ("k.md", "22"), ("zebra", "333"), ("mango.txt", "4444")):
                with open(os.path.join(d, nm), "w") as fh:
                    fh.write(content)
            os.link(os.path.join(d, "b.txt"), os.path.join(d, "x.txt"))          # second name of b.txt
            os.link(os.path.join(d, "k.md"), os.path.join(d, "a_k.md"))
            os.symlink("zebra", os.path.join(d, "apple"))                        # link next to its target
            os.symlink("mango.txt", os.path.join(d, "nectarine.txt"))
            names = sorted(os.listdir(d))
            argv = ["-s", expr] + (["-si"] if inv else []) + ["--", "n%Count(width=2)_%Name()", d]
            res = cli_driver.run_cli(argv, root, root=root, snapshots=False, trace=False)
            got = {}
            for nm in os.listdir(d):
                m = re.match(r"n(\d+)_(.*)$", nm)
                if m:
                    got[m.group(2)] = int(m.group(1))

        def key(nm):
            ext = PurePosixPath(nm).suffix
            return {"%Name()": (nm,), "%Lower{%Name()}, %Name()": (nm.lower(), nm), "%Ext(), %Name()": (ext, nm),
                    "len(%Name()), %Name()": (len(nm), nm)}[expr]
        order = sorted(names, key=key, reverse=inv)
        exp = {nm: i for i, nm in enumerate(order)}
        chk.count(("linked-entries-sort", expr, inv))
        stats["linked_entries_sort_runs"] = stats.get("linked_entries_sort_runs", 0) + 1
        if res.status != 0 or got != exp:
            chk.oracle_fail("sorting entries that are hard links / a link next to its target by %r%s: status %s, numbering %r, the names give %r" % (
                expr, " inverted" if inv else "", res.status, sorted(got.items(), key=lambda kv: kv[1]), order),
                {"argv": argv[:-1] + ["<root>/in"], "entries": names, "status": res.status, "stderr": res.stderr[-200:]})


def run(chk):
    rng = chk.rng
    n = 2000 if chk.tier == "quick" else 30000
    cases = [json.loads(json.dumps(c)) for c in CORPUS]
    cdir = os.path.join(common.VERIF, "corpus", PID)
    if os.path.isdir(cdir):
        for fn in sorted(os.listdir(cdir)):
            if fn.endswith(".json"):
                obj = json.load(open(os.path.join(cdir, fn)))
                cases += obj if isinstance(obj, list) else [obj]
    n_corpus = len(cases)
    for _ in range(n):
        cases.append(gen_case(rng))
    if chk.tier == "thorough":
        cases += exhaustive_small()
    observations = run_all(cases, common.NPROC)

    _st0 = {}
    dir_mode_links(chk, _st0)
    linked_entries_sort(chk, _st0)
    stats = {"corpus": n_corpus, "generated": n, "dir_mode_link_runs": _st0.get("dir_mode_link_runs", 0), "linked_entries_sort_runs": _st0.get("linked_entries_sort_runs", 0), "mode": {}, "invert": 0, "with_filter": 0, "recursive": 0,
             "two_roots": 0, "key_shapes": {}, "cases_with_ties": 0, "sorter_input_sizes": {}, "dir_sort_refused": 0,
             "per_directory_count": 0, "max_inputs": 0, "hidden": 0, "skipped_ambiguous_report": 0}
    sort_cases, sort_meta, depth_cases, depth_meta = [], [], [], []
    shrunk = 0
    for case, obs in zip(cases, observations):
        if "harness_error" in obs:
            chk.proof_failures.append({"what": "harness crashed while driving tempren", "log": obs["harness_error"],
                                       "case": case})
            continue
        fail, info = evaluate(case, obs)
        stats["mode"][case["mode"]] = stats["mode"].get(case["mode"], 0) + 1
        stats["invert"] += bool(case["invert"])
        stats["with_filter"] += bool(case["filter"])
        stats["recursive"] += bool(case["recursive"])
        stats["two_roots"] += len(case["roots"]) > 1
        stats["hidden"] += bool(case["hidden"])
        stats["per_directory_count"] += not case["count"][2]
        ninp = len(info["inputs"])
        b = "0-1" if ninp < 2 else "2-4" if ninp < 5 else "5-9" if ninp < 10 else "10+"
        stats["sorter_input_sizes"][b] = stats["sorter_input_sizes"].get(b, 0) + 1
        stats["max_inputs"] = max(stats["max_inputs"], ninp)
        if info.get("refused"):
            stats["dir_sort_refused"] += 1
        if info.get("ambiguous"):
            stats["skipped_ambiguous_report"] += 1
        if info.get("keys"):
            sh = kind_of(info["keys"][0])
            stats["key_shapes"][sh] = stats["key_shapes"].get(sh, 0) + 1
            if len(set(map(repr, info["keys"]))) < len(info["keys"]):
                stats["cases_with_ties"] += 1
        chk.count((json.dumps(case, sort_keys=True), tuple(info["order"])), nontrivial=ninp >= 2)
        if fail:
            if fail.startswith("harness"):
                chk.proof_failures.append({"what": fail, "log": json.dumps(obs)[:1500], "case": case})
                continue
            small = case
            if shrunk < 3:
                small = shrink(case, fail)
                shrunk += 1
            sobs = _one(small)
            sfail = evaluate(small, sobs)[0] if "harness_error" not in sobs else None
            chk.oracle_fail(sfail or fail, {"case": small, "argv": case_argv(small, "<root>"),
                                            "observed": {k: sobs.get(k) for k in ("status", "report", "numbered", "gathered", "verdicts")},
                                            "original_case": case if small is not case else None})
            continue
        if len(chk.coverage["samples"]) < 5 and ninp >= 3:
            chk.sample({"argv": case_argv(case, "<root>"), "gathered": [f["rel"] for f in info["inputs"]],
                        "processed": [info["inputs"][i]["rel"] for i in info["order"]], "numbers": info["numbers"]})
        if info.get("refused") or info.get("ambiguous"):
            continue
        if case["mode"] == "dir" and case["sort"] is not None:
            continue        # accepted --sort in directory mode: only the oracle (depth first) applies
        if case["mode"] == "dir":
            depth_cases.append(q_depth_case(info))
            depth_meta.append({"case": case, "argv": case_argv(case, "<root>"),
                               "gathered": [f["rel"] for f in info["inputs"]],
                               "observed": [info["inputs"][i]["rel"] for i in info["order"]]})
        else:
            sort_cases.append(q_case(case, info))
            sort_meta.append({"case": case, "argv": case_argv(case, "<root>"),
                              "gathered": [f["rel"] for f in info["inputs"]], "order": info["order"],
                              "numbers": info["numbers"], "gallina": sort_cases[-1] if len(sort_cases[-1]) < 4000 else None})
    imports = ["Py.Order", "Py.Sort", "Tags.Count", "Corr.SortCorr"]
    mism, errs = common.run_model_cases(imports, "sort_case", "sort_case_ok", sort_cases)
    for e in errs:
        chk.proof_failures.append({"what": "coqc on generated cases (Corr.SortCorr.sort_case_ok)", "log": e["output"]})
    for m in mism:
        chk.corr_fail("Corr.SortCorr.sort_case_ok (Py.Sort.template_sort + Tags.Count.count_values vs tempren --sort)",
                      sort_meta[m])
    mism, errs = common.run_model_cases(imports, "depth_case", "depth_case_ok", depth_cases)
    for e in errs:
        chk.proof_failures.append({"what": "coqc on generated cases (Corr.SortCorr.depth_case_ok)", "log": e["output"]})
    for m in mism:
        chk.corr_fail("Corr.SortCorr.depth_case_ok (Py.Sort.depth_sort vs tempren --directory --recursive)", depth_meta[m])
    stats["model_cases"] = {"sort": len(sort_cases), "depth": len(depth_cases)}

    # the whole-program model (Whole/*.v), on which this property's whole-program theorems rest, against the real command line
    import whole as _whole
    import random as _random
    _ws = {}
    _whole.whole_stream(chk, _random.Random(chk.seed * 7919 + 8), 60 if chk.tier == "quick" else 2500, _ws)
    chk.notes["whole_program_tie"] = _ws
    chk.coverage["rule"] = (
        "one case = one run of tempren.cli.main() on a fresh tree: names from a pool with quotes, backslashes, digit runs "
        "of different lengths, non-ASCII, leading dots, template metacharacters; sizes with many ties; sort expression = "
        "1-3 elements of Name/Base/Ext/Dir/Size/Lower{..}/len(..)/-Size/Size>n/nested tuples; +-sort-invert, +-recursive, "
        "+-include-hidden, +-filter (template/glob/regex, +-invert), name/path/directory mode, 1-2 input directories, "
        "Count(start, step, common or per directory); distinct by (case, observed order); non-trivial = the sorter "
        "received >= 2 entries.  Thorough adds every arrangement of <= 4 files over 3 sizes x 2 orders.")
    chk.coverage["input_distribution"] = stats
    chk.coverage["trusted_base"] = common.BASE_TRUSTED + [
        "that CPython's sorted() (Timsort) is a stable sort using only < on the keys is trusted; "
        "Sort.stable_sorted_unique is what justifies comparing it with the model's insertion sort",
        "modelled, not verified: CPython's ordering of int/bool/str/tuple/PosixPath (Py/Order.v), eval of the rendered "
        "expression, repr round trip of names (C14), pathlib name/stem/suffix (C17), os.path.getsize",
        "the sorter's input (gather order, filter verdicts) is observed by wrapping pipeline.file_gatherer / "
        "pipeline.file_filter from outside; no source hook",
    ]
    chk.assumptions += [
        "keys are homogeneous (one shape per sort expression); heterogeneous keys raise TypeError -> status 126 "
        "(finding F9, recorded under C09) and are not generated here",
        "the tie is sampled: agreement of model and code is shown on the generated runs only",
    ]


def exhaustive_small():
    """every arrangement of sizes over <= 4 files named so that name order != gather order, both directions"""
    import itertools
    out = []
    names = ["b", "a'", "C", "f10"]
    for k in (2, 3, 4):
        for sizes in itertools.product([0, 1, 2], repeat=k):
            for inv in (False, True):
                for sort in ([["size"]], [["size"], ["name"]]):
                    out.append({"mode": "name", "hidden": False, "count": [0, 1, True], "filter": None,
                                "filter_invert": False, "recursive": False, "invert": inv, "sort": sort,
                                "roots": [{"name": "in", "entries": [[names[i], "f", sizes[i]] for i in range(k)]}]})
    return out


def replay(chk, obj):
    rc = 0
    items = obj.get("failures") or []
    todo = [f["case"]["case"] for f in items if isinstance(f.get("case"), dict) and "case" in f["case"]]
    for c in obj.get("broken_correspondence") or []:
        if isinstance(c.get("case"), dict) and "case" in c["case"]:
            todo.append(c["case"]["case"])
    if "mode" in obj:
        todo.append(obj)
    for case in todo[:20]:
        obs = _one(case)
        print("argv:", case_argv(case, "<root>"))
        if "harness_error" in obs:
            print(obs["harness_error"])
            rc = 1
            continue
        fail, info = evaluate(case, obs)
        print("implementation: status", obs["status"], "gathered", [f["rel"] for f in info["inputs"]])
        print("implementation: processed", [(info["inputs"][i]["rel"], n) for i, n in zip(info["order"], info["numbers"])])
        print("oracle:", fail or "holds")
        if fail:
            rc = 1
        if info.get("keys") and case["mode"] != "dir":
            r, out = common.coq_eval_term(["Py.Order", "Py.Sort", "Tags.Count", "Corr.SortCorr"],
                                          "sort_case_model %s" % q_case(case, info))
            print("model (index in gather order, number):", out[-1500:])
        elif case["mode"] == "dir" and info["inputs"]:
            r, out = common.coq_eval_term(["Py.Order", "Py.Sort", "Tags.Count", "Corr.SortCorr"],
                                          "depth_sort (fst %s)" % q_depth_case(info))
            print("model (depth_sort of the gathered directories):", out[-1500:])
    return rc
