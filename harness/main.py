import argparse
import importlib
import json
import os
import sys
import traceback

sys.path.insert(0, os.path.dirname(os.path.abspath(__file__)))
import common  # noqa: E402


def main():
    ap = argparse.ArgumentParser()
    ap.add_argument("pid")
    ap.add_argument("--tier", default=os.environ.get("VERIF_TIER", "quick"), choices=["quick", "thorough"])
    ap.add_argument("--replay", default=None)
    ap.add_argument("--skip-proof", action="store_true", help="development only: skip phase A")
    a = ap.parse_args()
    seed = int(os.environ.get("VERIF_SEED", "0") or 0)
    pid = a.pid.upper()
    mod = importlib.import_module(pid.lower())
    chk = common.Check(pid, a.tier, seed)
    if a.replay:
        obj = json.load(open(a.replay))
        rc = mod.replay(chk, obj) if hasattr(mod, "replay") else 2
        sys.exit(rc)
    try:
        if not a.skip_proof:
            chk.proof_phase()
        mod.run(chk)
    except Exception:
        chk.proof_failures.append({"what": "harness crashed", "log": traceback.format_exc()[-3000:]})
        traceback.print_exc()
    sys.exit(chk.finish())


if __name__ == "__main__":
    main()
