"""In-process driver for tempren.cli.main() with an outside-in syscall tracer / fault injector
and filesystem snapshots.  No source hook is used: os.rename, os.mkdir, shutil.move, os.replace,
os.unlink, os.rmdir, shutil.copy2 ... are wrapped in the running interpreter."""
import builtins
import errno
import hashlib
import io
import logging
import os
import shutil
import stat
import sys

import impl  # noqa: F401  (ensures tempren is imported from /repo)
import tempren.cli as tcli


def snapshot(root, with_times=True):
    """path (relative to root) -> tuple describing the entry; directories included."""
    out = {}
    stack = [root]
    while stack:
        d = stack.pop()
        try:
            it = list(os.scandir(d))
        except OSError:
            continue
        for e in it:
            p = e.path
            rel = os.path.relpath(p, root)
            st = os.lstat(p)
            if stat.S_ISLNK(st.st_mode):
                out[rel] = ("link", st.st_ino, os.readlink(p))
            elif stat.S_ISDIR(st.st_mode):
                out[rel] = ("dir", st.st_ino, stat.S_IMODE(st.st_mode))
                stack.append(p)
            elif stat.S_ISREG(st.st_mode):
                try:
                    with open(p, "rb") as fh:
                        h = hashlib.sha1(fh.read()).hexdigest()[:16]
                except OSError:
                    h = "unreadable"
                out[rel] = ("file", st.st_ino, h, stat.S_IMODE(st.st_mode), st.st_size,
                            st.st_mtime_ns if with_times else 0)
            else:
                out[rel] = ("other", st.st_ino, stat.S_IFMT(st.st_mode))
    return out


def strict_snapshot(root):
    """names, type, permissions, mtime, size, content / link target — for 'nothing changed'."""
    out = {}
    for rel, v in snapshot(root).items():
        p = os.path.join(root, rel)
        st = os.lstat(p)
        out[rel] = v + (st.st_mtime_ns, stat.S_IMODE(st.st_mode))
    st = os.lstat(root)
    out["."] = ("dir", st.st_ino, stat.S_IMODE(st.st_mode), st.st_mtime_ns)
    return out


class InjectedFault(OSError):
    pass


class Tracer:
    """Numbers every outermost traced call; optionally raises OSError(EIO) instead of the k-th
    one (0-based); snapshots the sandbox after every outermost mutating call."""
    TRACED = [(os, "rename"), (os, "mkdir"), (shutil, "move"), (os, "replace"), (os, "unlink"), (os, "rmdir"),
              (os, "remove"), (os, "symlink"), (os, "link"), (os, "makedirs"), (os, "chmod"), (os, "utime"),
              (os, "truncate"), (shutil, "copy2"), (shutil, "copyfile"), (shutil, "copy"), (shutil, "rmtree"),
              (shutil, "copytree"), (os, "renames"), (os, "removedirs")]
    COUNTED = {"rename", "mkdir", "move"}        # the calls the fault index refers to

    def __init__(self, root=None, fault_at=None, snapshots=True):
        self.root = root
        self.fault_at = fault_at
        self.want_snapshots = snapshots and root is not None
        self.calls = []          # dicts: name, args, cwd, outcome
        self.snapshots = []      # snapshot after each outermost call that returned
        self.depth = 0
        self.counted = 0
        self.inner = []          # names of nested traced calls (e.g. copy2 inside shutil.move)
        self.orig = {}
        self.opens_for_write = []

    def _wrap(self, mod, name):
        orig = getattr(mod, name)
        tr = self

        def wrapper(*a, **k):
            if tr.depth > 0:
                tr.inner.append(name)
                return orig(*a, **k)
            rec = {"name": name, "args": [os.fspath(x) if isinstance(x, (str, bytes, os.PathLike)) else repr(x) for x in a[:2]],
                   "cwd": os.getcwd(), "outcome": None}
            tr.calls.append(rec)
            if name in tr.COUNTED:
                k_idx = tr.counted
                tr.counted += 1
                if tr.fault_at is not None and k_idx == tr.fault_at:
                    rec["outcome"] = "fault"
                    raise InjectedFault(errno.EIO, "injected fault at call %d (%s)" % (k_idx, name))
            tr.depth += 1
            try:
                r = orig(*a, **k)
                rec["outcome"] = "ok"
                return r
            except BaseException as e:
                rec["outcome"] = type(e).__name__
                raise
            finally:
                tr.depth -= 1
                if tr.want_snapshots:
                    tr.snapshots.append(snapshot(tr.root, with_times=False))
        return wrapper

    def __enter__(self):
        for mod, name in self.TRACED:
            if hasattr(mod, name):
                self.orig[(mod, name)] = getattr(mod, name)
                setattr(mod, name, self._wrap(mod, name))
        real_open = builtins.open
        self.orig[(builtins, "open")] = real_open
        tr = self

        def open_wrapper(file, mode="r", *a, **k):
            if any(c in str(mode) for c in "wax+"):
                tr.opens_for_write.append((os.fspath(file) if not isinstance(file, int) else file, mode))
            return real_open(file, mode, *a, **k)
        builtins.open = open_wrapper
        return self

    def __exit__(self, *a):
        for (mod, name), f in self.orig.items():
            setattr(mod, name, f)
        return False


class CliResult:
    def __init__(self):
        self.status = None
        self.stdout = ""
        self.stderr = ""
        self.exception = None
        self.cwd_after = None
        self.tracer = None
        self.prompts = 0

    def report(self):
        """[(source, destination, override)] parsed from the 'Renamed:' / 'to:' lines."""
        out = []
        src = None
        for line in self.stdout.splitlines():
            if line.startswith("Renamed: "):
                src = line[len("Renamed: "):]
            elif src is not None and line.startswith("         to: ") and line.endswith(" (override)"):
                out.append((src, line[len("         to: "):-len(" (override)")], True)); src = None
            elif src is not None and line.startswith("     to: "):
                out.append((src, line[len("     to: "):], False)); src = None
        return out


def run_cli(argv, cwd, stdin_text="", root=None, fault_at=None, trace=True, snapshots=True, before_main=None):
    """Runs tempren.cli.main() in-process.  Returns CliResult."""
    res = CliResult()
    old = (sys.argv, sys.stdin, sys.stdout, sys.stderr, os.getcwd())
    old_handlers = logging.root.handlers[:]
    old_level = logging.root.level
    logging.root.handlers.clear()
    out, err = io.StringIO(), io.StringIO()
    real_input = builtins.input
    stdin = io.StringIO(stdin_text)

    def fake_input(prompt=""):
        res.prompts += 1
        line = stdin.readline()
        if line == "":
            raise EOFError("EOF when reading a line")
        return line.rstrip("\n")
    tracer = Tracer(root, fault_at, snapshots) if trace else None
    res.tracer = tracer
    try:
        os.chdir(cwd)
        sys.argv = ["tempren"] + list(argv)
        sys.stdin, sys.stdout, sys.stderr = stdin, out, err
        builtins.input = fake_input
        if before_main:
            before_main()
        if tracer:
            tracer.__enter__()
        try:
            res.status = int(tcli.main())
        except SystemExit as e:
            res.status = e.code if isinstance(e.code, int) else 1
            res.exception = "SystemExit"
        except BaseException as e:   # main() is expected to catch everything
            res.status = -1
            res.exception = "%s: %s" % (type(e).__name__, e)
        finally:
            if tracer:
                tracer.__exit__()
        res.cwd_after = os.getcwd()
    finally:
        builtins.input = real_input
        sys.argv, sys.stdin, sys.stdout, sys.stderr = old[:4]
        try:
            os.chdir(old[4])
        except OSError:
            os.chdir("/")
        for h in logging.root.handlers[:]:
            logging.root.removeHandler(h)
        for h in old_handlers:
            logging.root.addHandler(h)
        logging.root.setLevel(old_level)
    res.stdout, res.stderr = out.getvalue(), err.getvalue()
    return res


def build_tree(root, spec):
    """spec: list of (relative path, kind, payload): kind 'd' directory, 'f' file (payload = bytes/str
    content), 'l' symlink (payload = target).  Parents are created as needed, in order."""
    for rel, kind, payload in spec:
        p = os.path.join(root, rel)
        os.makedirs(os.path.dirname(p), exist_ok=True)
        if kind == "d":
            os.makedirs(p, exist_ok=True)
        elif kind == "f":
            data = payload if isinstance(payload, bytes) else str(payload).encode("utf-8", "surrogateescape")
            with open(p, "wb") as fh:
                fh.write(data)
        elif kind == "l":
            os.symlink(payload, p)
        else:
            raise ValueError(kind)
