"""C07 — exactly the designated files are considered, everything else is left alone.

Implementation under test: tempren.cli.main() run in-process on a real directory tree
(tempren.cli.build_pipeline is wrapped from the outside to record every File yielded by
pipeline.file_gatherer.gather_files() and every verdict of pipeline.file_filter).
Oracle: a plain os.walk recomputation of the designated multiset written from the property
text, the complement law observed on a paired run with --filter-invert flipped, and an
inode-keyed snapshot comparison for "everything outside the selection is left alone".
Correspondence: Pipe/GatherTree.v evaluated inside Coq on the tree as listed by os.listdir.
"""
import collections
import fnmatch
import glob as _glob
import json
import multiprocessing
import os
import re
import subprocess
import sys

import common
from common import q_bool, q_list, q_str
import impl  # noqa: F401  (tempren from the repository working tree)
import cli_driver
from sandbox import Sandbox
import tempren.cli as tcli

CORR = "Corr.GatherCorr.gather_case_ok (Pipe.GatherTree.gather/select vs tempren gatherers, build_pipeline, file_filters)"

FILE_NAMES = ["a", "b", "c.txt", "d.txt", "A.TXT", ".h", ".hid.txt", "x y", "é", "a.b.c", "[x]", "m*",
              "..x", "...", "ab", "sub.txt", "b.TXT", ".a"]
DIR_NAMES = ["sub", "dir", ".hd", ".git", "a", "d.txt", "x y", "ab", "..d", "S"]
LINK_NAMES = ["lnk", "l2", ".hl", "lf.txt", "zz"]

# template filters: id -> (template text, the same predicate written directly in Python on
# (last component, size in bytes)); only tags whose rendering is covered elsewhere (C14/C17)
TEMPLATE_FILTERS = {
    "len3": ("len(%Name()) > 3", lambda n, s: len(n) > 3),
    "has_a": ("'a' in %Name()", lambda n, s: "a" in n),
    "lt_c": ("%Name() < 'c'", lambda n, s: n < "c"),
    "dot": ("%Name().startswith('.')", lambda n, s: n.startswith(".")),
    "txt": ("%Name().endswith('.txt')", lambda n, s: n.endswith(".txt")),
    "upper": ("%Name() != %Name().lower()", lambda n, s: n != n.lower()),
    "size": ("%Size() > 4", lambda n, s: s > 4),
}

MODE_FLAG = {"n": None, "p": "-p", "d": "-d"}
MARKER = {"n": "%Name().m%Count(common)", "d": "%Name().m%Count(common)", "p": "%Dir()/%Name().m%Count(common)"}
IDENT = {"n": "%Name()", "d": "%Name()", "p": "%Dir()/%Name()"}


# --------------------------------------------------------------------------- generation

def gen_population(rng, rel, depth, spec, dirs, files, top=False):
    """fill directory `rel` (already in spec) with files and sub-directories"""
    used = set()
    nf = rng.choice([1, 2, 3, 4]) if top else rng.choice([0, 1, 1, 2, 3])
    for _ in range(nf):
        n = rng.choice(FILE_NAMES)
        if n in used:
            continue
        used.add(n)
        p = rel + "/" + n
        spec.append([p, "f", "x" * rng.choice([0, 1, 3, 5, 8])])
        files.append(p)
    if depth < 4:
        nd = rng.choice([1, 2, 2, 3]) if top else rng.choice([0, 0, 1, 1, 2])
        if depth >= 2:
            nd = min(nd, rng.choice([0, 1, 1]))
        for _ in range(nd):
            n = rng.choice(DIR_NAMES)
            if n in used:
                continue
            used.add(n)
            p = rel + "/" + n
            spec.append([p, "d", None])
            dirs.append(p)
            gen_population(rng, p, depth + 1, spec, dirs, files)
    return used


def is_under(p, d):
    return p == d or p.startswith(d + "/")


def gen_world(rng):
    """A sandbox: w/ (working directory) with the input directories, out/ with link targets."""
    spec = [["w", "d", None], ["out", "d", None]]
    dirs, files = [], []
    in_dirs = ["w/in0"]
    if rng.random() < 0.6:
        in_dirs.append("w/in1")
    if rng.random() < 0.25:
        in_dirs.append("w/.in2")          # an input directory whose own name is hidden
    for d in in_dirs:
        spec.append([d, "d", None])
        dirs.append(d)
        gen_population(rng, d, 1, spec, dirs, files, top=True)
    out_dirs, out_files = [], []
    for k in range(rng.choice([1, 2])):
        d = "out/t%d" % k
        spec.append([d, "d", None])
        out_dirs.append(d)
        gen_population(rng, d, 3, spec, out_dirs, out_files, top=True)
    loose = []
    for n in rng.sample(["loose.txt", ".lh", "a"], rng.randrange(0, 3)):
        spec.append(["w/" + n, "f", "loose"])
        loose.append("w/" + n)
    # links: never cyclic (targets are link-free subtrees that are not ancestors of the link)
    frozen = []          # sub-trees that serve as link targets: no link may be put inside
    has_link_below = set()
    taken = {e[0] for e in spec}
    dangling = False
    special = False
    link_files = []
    link_dirs = []
    for _ in range(rng.choice([0, 0, 1, 2, 3, 4])):
        cand = [d for d in dirs if not any(is_under(d, f) for f in frozen)]
        if not cand:
            break
        D = rng.choice(cand)
        name = rng.choice(LINK_NAMES)
        p = D + "/" + name
        if p in taken:
            continue
        kind = rng.choice(["out", "out", "in", "dangling", "file", "fifo"])
        if kind == "out":
            T = rng.choice(out_dirs)
            tgt = "<ROOT>/" + T if rng.random() < 0.3 else os.path.relpath(T, D)
            spec.append([p, "l", tgt]); link_dirs.append(p)
        elif kind == "in":
            ts = [t for t in dirs if not is_under(D, t) and not any(is_under(x, t) for x in has_link_below)
                  and t not in in_dirs]
            if not ts:
                continue
            T = rng.choice(ts)
            frozen.append(T)
            spec.append([p, "l", os.path.relpath(T, D)]); link_dirs.append(p)
        elif kind == "dangling":
            spec.append([p, "l", "nowhere"]); dangling = True
        elif kind == "file":
            pool = files + out_files
            if not pool:
                continue
            spec.append([p, "l", os.path.relpath(rng.choice(pool), D)]); link_files.append(p)
        else:
            spec.append([p, "p", None]); special = True
        taken.add(p)
        x = D
        while x:
            has_link_below.add(x)
            x = os.path.dirname(x)
    lin = None
    if rng.random() < 0.2:
        lin = "w/lin"
        spec.append([lin, "l", "../" + rng.choice(out_dirs)])
    return {"spec": spec, "in_dirs": in_dirs, "dirs": dirs, "files": files, "loose": loose, "lin": lin,
            "out_files": out_files, "link_files": link_files, "link_dirs": link_dirs,
            "dangling": dangling, "special": special}


def spell(rng, p, is_dir, allow_dotty):
    """p is relative to the sandbox root and lies below w/ or out/; returns a spelling relative to
    the working directory w/ (or absolute)."""
    rel = os.path.relpath(p, "w")
    r = rng.random()
    if r < 0.45:
        return rel
    if r < 0.55:
        return "./" + rel
    if r < 0.70:
        return "<ROOT>/" + p
    if r < 0.78 and is_dir:
        return rel + "/"
    if r < 0.84 and is_dir:
        return rel + "//"
    if r < 0.90:
        return "../w/" + rel
    if r < 0.95:
        return "<ROOT>/w/./" + rel
    if allow_dotty and is_dir:
        return rel + "/."          # lexical name is the directory's own name (pathlib drops '.')
    return rel


def gen_inputs(rng, world):
    style = rng.choice(["dirs", "dirs", "files", "both", "both", "repeated"])
    cwd = "w"
    dotty = False
    dcand = list(world["in_dirs"])
    if world["lin"]:
        dcand.append(world["lin"])
    nested = [d for d in world["dirs"] if d not in world["in_dirs"]]
    fcand = world["files"] + world["loose"] + world["link_files"]
    for ld in world["link_dirs"]:
        pass
    picked_dirs, picked_files = [], []
    if style in ("dirs", "both", "repeated"):
        k = rng.choice([1, 1, 2, 3])
        picked_dirs = rng.sample(dcand, min(k, len(dcand)))
        if nested and rng.random() < 0.25:
            picked_dirs.append(rng.choice(nested))
        if world["link_dirs"] and rng.random() < 0.15:
            picked_dirs.append(rng.choice(world["link_dirs"]))      # an input that is a link to a directory
    if style in ("files", "both", "repeated"):
        if fcand:
            picked_files = rng.sample(fcand, min(rng.choice([1, 2, 3, 4]), len(fcand)))
    fifos = [e[0] for e in world["spec"] if e[1] == "p"]
    if fifos and style != "dirs" and rng.random() < 0.3:
        picked_files.append(rng.choice(fifos))     # exists, is neither a directory nor a file: designates nothing
    if not picked_dirs and not picked_files:
        picked_dirs = [world["in_dirs"][0]]
    items = [(p, True) for p in picked_dirs] + [(p, False) for p in picked_files]
    if style == "repeated":
        items += [rng.choice(items) for _ in range(rng.choice([1, 2]))]
    rng.shuffle(items)
    inputs = []
    r = rng.random()
    if r < 0.08 and picked_dirs:
        # the working directory is an input directory, named as '.'
        cwd = picked_dirs[0]
        dotty = True
        for p, isd in items:
            inputs.append("." if p == cwd else "<ROOT>/" + p)
    else:
        for p, isd in items:
            if isd and r < 0.16 and rng.random() < 0.5:
                # 'X/sub/..' : lexical name '..' (kept by pathlib), resolves to X
                sub = [d for d in world["dirs"] if os.path.dirname(d) == p]
                if sub:
                    inputs.append(os.path.relpath(sub[0], "w") + "/..")
                    dotty = True
                    continue
            inputs.append(spell(rng, p, isd, True))
    return {"style": style, "cwd": cwd, "inputs": inputs, "dotty": dotty}


def gen_filter(rng, world, kind, mode):
    names = sorted({os.path.basename(e[0]) for e in world["spec"]} - {"w", "out"})
    rels = sorted({e[0].split("/", 2)[2] for e in world["spec"] if e[0].count("/") >= 2})
    if kind == "none":
        return None
    if kind == "glob":
        n = rng.choice(names)
        rp = rng.choice(rels) if rels else n
        pool = ["*", "*.txt", "a*", "?", "*/*", "sub/*", ".*", "[ab]*", "*b*", "*.TXT", "[!.]*", "*/*/*", "[[]x]", "m[*]",
                "x y", "*.*", "??", n, n[:1] + "*", "*" + n[-1:], rp, "*/" + n, os.path.dirname(rp) + "/*" if "/" in rp else "*" + n,
                "-*", "*y", "S*", "s*"]
        return ["glob", rng.choice(pool)]
    if kind == "regex":
        n = rng.choice(names)
        rp = rng.choice(rels) if rels else n
        pool = [r".*\.txt$", "a", "^[a-c]", "sub/", ".*/.*", r"\.", r"(?i)a\.txt", "[^/]+$", re.escape(n), re.escape(n) + "$",
                ".*b$", re.escape(rp) + "$", ".*/" + re.escape(n) + "$", r"[^.]", "..$", r".*\s", "(sub|dir)/[^/]*$", r".*[A-Z]",
                re.escape(os.path.dirname(rp)) + "/" if "/" in rp else "x"]
        return ["regex", rng.choice(pool)]
    ids = [k for k in TEMPLATE_FILTERS if k != "size"]
    if mode != "d" and not world["dangling"]:
        ids += ["size", "size"]
    return ["template", rng.choice(ids)]


ALL_CONFIGS = [(m, r, h, fk, inv) for m in "npd" for r in (False, True) for h in (False, True)
               for fk in ("none", "glob", "regex", "template") for inv in (False, True)]


def make_case(rng, world, inp, cfg):
    m, r, h, fk, inv = cfg
    if inp["dotty"] and m == "d" and not r:
        # '.' and 'X/..' have no name to rename: outside the property's reading of "designates the
        # input directory itself" (the code yields File(cwd, '.') / File(X, '..')) - not generated
        r = True
    return {"spec": world["spec"], "cwd": inp["cwd"], "inputs": inp["inputs"], "style": inp["style"],
            "mode": m, "recursive": r, "hidden": h, "filter": gen_filter(rng, world, fk, m), "invert": inv,
            "long_flags": rng.random() < 0.5, "empty_glob": fk == "none" and rng.random() < 0.15}


# --------------------------------------------------------------------------- sandbox

def build(root, spec):
    for rel, kind, payload in spec:
        p = os.path.join(root, rel)
        if kind == "d":
            os.makedirs(p, exist_ok=True)
        elif kind == "f":
            with open(p, "wb") as fh:
                fh.write(str(payload).encode())
        elif kind == "l":
            os.symlink(payload.replace("<ROOT>", root), p)
        elif kind == "p":
            os.mkfifo(p)
        else:
            raise ValueError(kind)


def lexical(s):
    """what pathlib keeps of a spelling: '' and '.' components dropped, '..' kept"""
    parts = [c for c in s.split("/") if c not in ("", ".")]
    return ("/" if s.startswith("/") else "") + "/".join(parts)


def relparts(p, root):
    r = os.path.relpath(p, root)
    return [] if r == "." else r.split("/")


# --------------------------------------------------------------------------- the tree as listed (for the model)

def view_children(path):
    out = []
    for n in sorted(os.listdir(path)):
        p = os.path.join(path, n)
        if os.path.isdir(p):
            out.append((n, ("D", os.path.islink(p), view_children(p))))
        elif os.path.isfile(p):
            out.append((n, "F"))
        else:
            out.append((n, "O"))
    return out


def model_inputs(root, cwd, inputs):
    res = []
    for s in inputs:
        p = os.path.join(cwd, s)
        lx = lexical(s)                       # Path(s): '' for '.', keeps '..'
        nm = os.path.basename(lx)             # Path(s).name
        par = relparts(os.path.realpath(os.path.join(cwd, os.path.dirname(lx))), root)   # Path(s).parent.absolute().resolve()
        if os.path.isdir(p):
            res.append(("D", relparts(os.path.realpath(p), root), par, nm, view_children(p)))
        elif os.path.isfile(p):
            res.append(("F", par, nm))
        else:
            res.append(("O",))
    return res


def q_names(ns):
    return q_list([q_str(n) for n in ns], "name")


def q_tree(t):
    if t == "F":
        return "TFile"
    if t == "O":
        return "TOther"
    return "(TDir %s %s)" % (q_bool(t[1]), q_children(t[2]))


def q_children(ch):
    return q_list(["(%s, %s)" % (q_str(n), q_tree(t)) for n, t in ch], "name * tree")


def q_input(i):
    if i[0] == "D":
        return "(IDir %s %s %s %s)" % (q_names(i[1]), q_names(i[2]), q_str(i[3]), q_children(i[4]))
    if i[0] == "F":
        return "(IFile %s %s)" % (q_names(i[1]), q_str(i[2]))
    return "IOther"


def q_gfile(g):
    return "(%s, %s)" % (q_names(g[0]), q_names(g[1]))


def q_gfiles(gs):
    return q_list([q_gfile(g) for g in gs], "gfile")


def q_member(res):
    c = res["case"]
    cfg = "{| c_mode := %s; c_recursive := %s; c_include_hidden := %s |}" % (
        {"n": "MName", "p": "MPath", "d": "MDir"}[c["mode"]], q_bool(c["recursive"]), q_bool(c["hidden"]))
    if c["filter"] is None:
        fs = "FNone"
    elif c["filter"][0] == "template":
        fs = "(FFile %s)" % q_gfiles(res["table_files"])
    else:
        fs = "(FStr %s)" % q_list([q_str(s) for s in res["table_strs"]], "str")
    o = res["obs"]
    obs = "{| o_gathered := %s; o_selected := %s; o_count := %d; o_renamed := %s |}" % (
        q_gfiles(o["gathered"]), q_gfiles(o["selected"]), o["count"],
        "None" if o["renamed"] is None else "(Some %s)" % q_gfiles(o["renamed"]))
    return "(%s, (%s, %s), %s)" % (cfg, fs, q_bool(c["invert"]), obs)


# --------------------------------------------------------------------------- the oracle's own recomputation

def oracle_designated(root, cwd, inputs, case):
    """Multiset of (input directory, relative path) designated by the command line, recomputed with
    os.walk from the text of the property (and the two readings fixed in DESIGN section 5)."""
    out = collections.Counter()
    mode, recursive, hidden_ok = case["mode"], case["recursive"], case["hidden"]
    for s in inputs:
        p = os.path.join(cwd, s)
        if os.path.isdir(p):
            if mode == "d" and not recursive:
                q = p.rstrip("/")
                while q.endswith("/."):
                    q = q[:-2].rstrip("/")
                out[(os.path.realpath(os.path.dirname(q)), (os.path.basename(q),))] += 1
                continue
            top = os.path.realpath(p)
            for dirpath, dirnames, filenames in os.walk(top, followlinks=True):
                if not hidden_ok:
                    dirnames[:] = [d for d in dirnames if not d.startswith(".")]
                    filenames = [f for f in filenames if not f.startswith(".")]
                for n in (dirnames if mode == "d" else filenames):
                    rel = os.path.relpath(os.path.join(dirpath, n), top)
                    out[(top, tuple(rel.split("/")))] += 1
                if not recursive:
                    break
        elif os.path.isfile(p) and mode != "d":
            q = p
            out[(os.path.realpath(os.path.dirname(q)), (os.path.basename(q),))] += 1
    return out


def subject_of(mode, g):
    return "/".join(g[1]) if mode == "p" else g[1][-1]


def predicate(case, root):
    """The user's filter as a Python function on a gathered (dir, relparts) - evaluated by CPython
    directly (fnmatch / re / the Python twin of the template), not through tempren."""
    f = case["filter"]
    mode = case["mode"]
    if f is None:
        return None
    if f[0] == "glob":
        return lambda g: fnmatch.fnmatchcase(subject_of(mode, g), f[1])
    if f[0] == "regex":
        rx = re.compile(f[1])
        return lambda g: rx.match(subject_of(mode, g)) is not None
    fn = TEMPLATE_FILTERS[f[1]][1]

    def tp(g):
        ap = os.path.join(g[0], *g[1])
        try:
            size = os.stat(ap).st_size
        except OSError:
            size = -1
        return bool(fn(g[1][-1], size))
    return tp


def phys(g):
    ap = os.path.join(g[0], *g[1])
    return os.path.join(os.path.realpath(os.path.dirname(ap)), os.path.basename(ap))


# --------------------------------------------------------------------------- running the implementation

class Recorder:
    def __init__(self):
        self.gathered = []
        self.verdicts = []
        self.orig = None

    def install(self):
        rec = self
        self.orig = tcli.build_pipeline

        def wrapped(*a, **k):
            pipeline = rec.orig(*a, **k)
            gatherer = pipeline.file_gatherer
            inner_gather = gatherer.gather_files

            def gather_files():
                for f in inner_gather():
                    rec.gathered.append((str(f.input_directory), tuple(f.relative_path.parts)))
                    yield f
            gatherer.gather_files = gather_files
            inner_filter = pipeline.file_filter

            def file_filter(file):
                v = inner_filter(file)
                rec.verdicts.append(((str(file.input_directory), tuple(file.relative_path.parts)), bool(v)))
                return v
            pipeline.file_filter = file_filter
            return pipeline
        tcli.build_pipeline = wrapped

    def remove(self):
        if self.orig is not None:
            tcli.build_pipeline = self.orig
            self.orig = None


def argv_for(case, root, template, invert):
    a = []
    if MODE_FLAG[case["mode"]]:
        a.append(MODE_FLAG[case["mode"]] if not case["long_flags"] else {"p": "--path", "d": "--directory"}[case["mode"]])
    elif case["long_flags"]:
        a.append("--name")
    if case["recursive"]:
        a.append("--recursive" if case["long_flags"] else "-r")
    if case["hidden"]:
        a.append("--include-hidden" if case["long_flags"] else "-ih")
    f = case["filter"]
    if f is not None:
        text = TEMPLATE_FILTERS[f[1]][0] if f[0] == "template" else f[1]
        a.append("--filter-%s=%s" % (f[0], text))
    elif case.get("empty_glob"):
        a += ["-fg", ""]
    if invert:
        a.append("--filter-invert" if case["long_flags"] else "-fi")
    a.append(template)
    a += [s.replace("<ROOT>", root) for s in case["inputs"]]
    return a


COUNT_RE = re.compile(r"^(\d+) files considered for renaming$", re.M)


def observe(case, root, cwd, template, invert):
    rec = Recorder()
    try:
        res = cli_driver.run_cli(argv_for(case, root, template, invert), cwd, root=root, snapshots=False,
                                 before_main=rec.install)
    finally:
        rec.remove()
    m = COUNT_RE.search(res.stdout)
    return rec, res, (int(m.group(1)) if m else None)


def run_case(case):
    """Build the sandbox, run tempren, evaluate the oracle.  Returns a JSON-able result."""
    fails = []
    out = {"case": case, "fails": fails}
    with Sandbox("verif-c07-") as root:
        build(root, case["spec"])
        cwd = os.path.join(root, case["cwd"])
        inputs = [s.replace("<ROOT>", root) for s in case["inputs"]]
        view = model_inputs(root, cwd, inputs)
        out["view"] = q_list([q_input(i) for i in view], "input")
        designated = oracle_designated(root, cwd, inputs, case)
        pred0 = predicate(case, root)
        verdict_cache = {g: bool(pred0(g)) for g in designated} if pred0 is not None else {}

        def pred(g):        # evaluated on the tree as it was before the run
            if g not in verdict_cache:
                verdict_cache[g] = bool(pred0(g))
            return verdict_cache[g]
        if pred0 is None:
            exp_sel = collections.Counter(designated)
        else:
            exp_sel = collections.Counter({g: n for g, n in designated.items() if bool(pred(g)) != case["invert"]})
        sel_list = sorted(exp_sel.elements())
        ph = [phys(g) for g in sel_list]
        safe = len(set(ph)) == len(ph)
        # an entry reached through a link that leaves its input directory is refused by the pipeline's
        # containment check (C06) as soon as its name changes: observe those with the identity template
        safe = safe and all(x.startswith(os.path.realpath(g[0]) + "/") for x, g in zip(ph, sel_list))
        if safe and case["mode"] == "d":
            dirs_of = {os.path.realpath(g[0]) for g in sel_list}
            safe = not any(d == x or d.startswith(x + "/") for x in ph for d in dirs_of)
        out["real"] = safe

        # (1) paired run with --filter-invert flipped (identity template: changes nothing)
        pair_sel = None
        if case["filter"] is not None:
            prec, pres, _ = observe(case, root, cwd, IDENT[case["mode"]], not case["invert"])
            if pres.status != 0 and designated:
                fails.append("paired run (invert flipped, identity template) failed: status %r %s" % (pres.status, pres.stderr[-300:]))
            pair_sel = collections.Counter(g for g, v in prec.verdicts if v)

        # (2) the run itself
        template = (MARKER if safe else IDENT)[case["mode"]]
        before = cli_driver.snapshot(root, with_times=False)
        strict_before = cli_driver.strict_snapshot(root) if not safe else None
        root_ino = os.lstat(root).st_ino
        rec, res, count = observe(case, root, cwd, template, case["invert"])
        after = cli_driver.snapshot(root, with_times=False)
        gathered = collections.Counter(rec.gathered)
        selected = collections.Counter(g for g, v in rec.verdicts if v)
        renames = [c for c in res.tracer.calls if c["name"] in ("rename", "move")]
        renamed = collections.Counter((c["cwd"], tuple(lexical(c["args"][0]).split("/"))) for c in renames if c["outcome"] == "ok")
        out["status"] = res.status
        out["argv"] = argv_for(case, "<ROOT>", template, case["invert"])

        refused_empty = (res.status != 0 and not designated and count is None and not rec.gathered and after == before)
        out["refused_empty"] = refused_empty      # e.g. only files named in directory mode with --recursive: nothing to gather
        if res.status != 0 and not refused_empty:
            fails.append("run failed with status %r: stderr %r" % (res.status, res.stderr[-400:]))
        # the property: gathered multiset = designated multiset (once per designation)
        if gathered != designated:
            extra = sorted((gathered - designated).elements())[:4]
            missing = sorted((designated - gathered).elements())[:4]
            fails.append("gathered != designated: gathered but not designated %r, designated but not gathered %r" % (
                [(relparts(d, root), r) for d, r in extra], [(relparts(d, root), r) for d, r in missing]))
        # minus the entries rejected by the filter; invert = complement
        if selected != exp_sel:
            fails.append("selection differs from (designated minus rejected by the %sfilter): selected but should not %r, missing %r" % (
                "inverted " if case["invert"] and case["filter"] else "",
                [(relparts(d, root), r) for d, r in sorted((selected - exp_sel).elements())[:4]],
                [(relparts(d, root), r) for d, r in sorted((exp_sel - selected).elements())[:4]]))
        if pair_sel is not None and pair_sel + selected != gathered:
            fails.append("--filter-invert does not select the complement within the gathered set: |with|=%d |without|=%d |gathered|=%d" % (
                sum((selected if case["invert"] else pair_sel).values()), sum((pair_sel if case["invert"] else selected).values()),
                sum(gathered.values())))
        if pair_sel is not None and any(pair_sel[g] and selected[g] for g in gathered):
            fails.append("an entry is selected both with and without --filter-invert")
        if (count is None or count != sum(selected.values())) and not refused_empty:
            fails.append("'N files considered' says %r, %d entries passed the filter" % (count, sum(selected.values())))
        # what actually happened on disk
        rep = res.report()
        if safe:
            if res.status == 0 and renamed != selected:
                fails.append("renamed sources differ from the selection: renamed only %r, selected only %r" % (
                    [(relparts(d, root), r) for d, r in sorted((renamed - selected).elements())[:4]],
                    [(relparts(d, root), r) for d, r in sorted((selected - renamed).elements())[:4]]))
            if res.status == 0 and collections.Counter(lexical(s) for s, _, _ in rep) != collections.Counter("/".join(g[1]) for g in selected.elements()):
                fails.append("'Renamed:' lines differ from the selection")
            sel_phys = {os.path.relpath(p, root) for p in ph}
            by_ino = {v[1]: (rel, v) for rel, v in after.items()}
            ino_of = {rel: v[1] for rel, v in before.items()}
            ino_after = {rel: v[1] for rel, v in after.items()}
            if len(after) != len(before):
                fails.append("number of entries changed: %d -> %d" % (len(before), len(after)))
            for rel, v in before.items():
                if v[1] not in by_ino:
                    fails.append("entry %r disappeared" % rel)
                    continue
                rel2, v2 = by_ino[v[1]]
                if (v[0],) + tuple(v[2:]) != (v2[0],) + tuple(v2[2:]):
                    fails.append("entry %r changed type/content/permissions" % rel)
                par = ino_of.get(os.path.dirname(rel), root_ino) if os.path.dirname(rel) else root_ino
                par2 = ino_after.get(os.path.dirname(rel2), root_ino) if os.path.dirname(rel2) else root_ino
                if par != par2:
                    fails.append("entry %r moved to another directory (%r)" % (rel, rel2))
                b1, b2 = os.path.basename(rel), os.path.basename(rel2)
                if rel in sel_phys:
                    if res.status == 0 and not re.fullmatch(re.escape(b1) + r"\.m\d+", b2):
                        fails.append("selected entry %r was not renamed by the marker template (now %r)" % (rel, rel2))
                elif b1 != b2:
                    fails.append("entry %r is outside the selection but was renamed to %r" % (rel, rel2))
        else:
            if res.tracer.calls:
                fails.append("identity template issued calls: %r" % res.tracer.calls[:3])
            if cli_driver.strict_snapshot(root) != strict_before:
                fails.append("identity template changed the tree")

        # predicate table for the model: every string / File the predicate is true on
        universe = set(designated) | set(gathered)
        if case["filter"] is not None and case["filter"][0] != "template":
            strs = set()
            for g in universe:
                strs.add("/".join(g[1]))
                strs.add(g[1][-1])
            f = case["filter"]
            if f[0] == "glob":
                out["table_strs"] = sorted(s for s in strs if fnmatch.fnmatchcase(s, f[1]))
            else:
                rx = re.compile(f[1])
                out["table_strs"] = sorted(s for s in strs if rx.match(s) is not None)
        elif case["filter"] is not None:
            out["table_files"] = [(relparts(g[0], root), list(g[1])) for g in sorted(universe) if pred(g)]

        def canon(counter):
            return [(relparts(d, root), list(r)) for d, r in sorted(counter.elements())]
        out["obs"] = {"gathered": canon(gathered), "selected": canon(selected), "count": count if count is not None else 0,
                      "renamed": canon(renamed) if (safe and res.status == 0) else None}
        out["n_designated"] = sum(designated.values())
        out["n_selected"] = sum(selected.values())
        out["multi"] = any(n > 1 for n in designated.values())
        out["max_depth"] = max([len(g[1]) for g in designated] + [0])
        out["hidden_seen"] = any(any(c.startswith(".") for c in g[1]) for g in designated)

        # (3) optionally the same command line through a real subprocess
        if case.get("subprocess"):
            with Sandbox("verif-c07s-") as root2:
                build(root2, case["spec"])
                env = dict(os.environ)
                p = subprocess.run([sys.executable, "-m", "tempren.cli"] + argv_for(case, root2, template, case["invert"]),
                                   cwd=os.path.join(root2, case["cwd"]), env=env, capture_output=True, text=True, timeout=120)
                m = COUNT_RE.search(p.stdout)
                def norm(names):
                    return sorted(re.sub(r"\.m\d+(?=/|$)", ".m#", n) for n in names)
                names2 = norm(cli_driver.snapshot(root2, with_times=False))
                if p.returncode != res.status or (int(m.group(1)) if m else None) != count or names2 != norm(after):
                    fails.append("subprocess run differs from the in-process run: status %r/%r, count %r/%r, same tree %r" % (
                        p.returncode, res.status, m.group(1) if m else None, count, names2 == norm(after)))
    return out


def run_case_safe(case):
    try:
        return run_case(case)
    except Exception as e:      # a crash of the harness itself must not be silent
        import traceback
        return {"case": case, "fails": [], "crash": traceback.format_exc()[-2000:]}


def fail_kind(msg):
    return re.split(r"[:(']", msg, 1)[0][:40]


def shrink(case, kind, budget=120):
    """Greedy shrinker: drop command-line inputs and tree entries (with everything below them) as long
    as the oracle keeps failing in the same way."""
    best = {k: v for k, v in case.items() if k not in ("argv", "subprocess")}
    runs = 0

    def still_fails(c):
        nonlocal runs
        runs += 1
        r = run_case_safe(c)
        if r.get("status") == 2 and "status 2" not in kind:     # an input vanished: argparse refuses the command line
            return False
        return any(fail_kind(f) == kind for f in r.get("fails", []))
    progress = True
    while progress and runs < budget:
        progress = False
        for i in range(len(best["inputs"]) - 1, -1, -1):
            if len(best["inputs"]) > 1 and runs < budget:
                c = dict(best, inputs=best["inputs"][:i] + best["inputs"][i + 1:])
                if still_fails(c):
                    best, progress = c, True
        for i in range(len(best["spec"]) - 1, -1, -1):
            if runs >= budget or i >= len(best["spec"]):
                continue
            rel = best["spec"][i][0]
            if rel in ("w", "out", best["cwd"]):
                continue
            c = dict(best, spec=[e for e in best["spec"] if not is_under(e[0], rel)])
            if still_fails(c):
                best, progress = c, True
    return best, runs



# --------------------------------------------------------------------------- check

def corpus_cases():
    d = os.path.join(common.VERIF, "corpus", "C07")
    out = []
    for p in sorted(_glob.glob(os.path.join(d, "*.json"))):
        obj = json.load(open(p))
        for c in obj.get("cases", [obj] if "spec" in obj else []):
            out.append(c)
    return out


def public_case(case):
    c = dict(case)
    return c


def evaluate(chk, cases, stats):
    """run all cases (16 processes), oracle + correspondence"""
    ctx = multiprocessing.get_context("fork")
    with ctx.Pool(common.NPROC) as pool:
        results = pool.map(run_case_safe, cases, chunksize=8)
    groups = collections.OrderedDict()
    for res in results:
        case = res["case"]
        if "crash" in res:
            chk.proof_failures.append({"what": "harness/c07.py crashed on a case", "log": res["crash"], "case": case})
            continue
        key = (case["mode"], case["recursive"], case["hidden"], case["filter"][0] if case["filter"] else "none", case["invert"])
        stats["configs"][repr(key)] = stats["configs"].get(repr(key), 0) + 1
        stats["style"][case["style"]] = stats["style"].get(case["style"], 0) + 1
        stats["real_runs" if res["real"] else "identity_runs"] += 1
        stats["refused_nothing_to_gather"] += bool(res.get("refused_empty"))
        stats["multi_designation"] += bool(res["multi"])
        stats["empty_selection"] += res["n_selected"] == 0
        stats["hidden_entries_designated"] += bool(res["hidden_seen"])
        stats["depth"][res["max_depth"]] = stats["depth"].get(res["max_depth"], 0) + 1
        stats["max_gathered"] = max(stats["max_gathered"], res["n_designated"])
        chk.count((json.dumps(case["spec"]), case["cwd"], tuple(case["inputs"]), key, case["filter"]), nontrivial=res["n_designated"] > 0)
        for f in res["fails"]:
            chk.oracle_fail(f, dict(public_case(case), argv=res.get("argv")))
        if len(chk.coverage["samples"]) < 4 and res["n_designated"] > 2:
            chk.sample({"argv": res["argv"], "cwd": case["cwd"], "gathered": res["obs"]["gathered"][:5],
                        "considered": res["obs"]["count"], "real_run": res["real"]})
        groups.setdefault(res["view"], []).append(res)
    glist = list(groups.items())
    terms = ["(%s, %s)" % (view, q_list([q_member(r) for r in rs])) for view, rs in glist]
    mism, errs = common.run_model_cases(["Pipe.GatherTree", "Corr.GatherCorr"], "gather_group", "gather_group_ok", terms,
                                        shard_size=60)
    for e in errs:
        chk.proof_failures.append({"what": "coqc on generated cases (Corr.GatherCorr.gather_group_ok)", "log": e["output"]})
    if mism:
        singles, metas = [], []
        for gi in mism:
            view, rs = glist[gi]
            for r in rs:
                singles.append("(%s, [%s])" % (view, q_member(r)))
                metas.append(r)
        m2, errs2 = common.run_model_cases(["Pipe.GatherTree", "Corr.GatherCorr"], "gather_group", "gather_group_ok", singles,
                                           shard_size=60)
        for e in errs2:
            chk.proof_failures.append({"what": "coqc on generated cases (Corr.GatherCorr.gather_group_ok)", "log": e["output"]})
        for i in m2[:50]:
            r = metas[i]
            chk.corr_fail(CORR, dict(public_case(r["case"]), argv=r.get("argv")), impl=r["obs"])
    stats["coq_groups"] += len(glist)
    return results


def sort_keeps_every_entry(chk, stats):
    """--sort only orders the selection: every gathered, non-filtered entry is still considered exactly once, also when several
    entries have EQUAL sort keys (sizes, extensions) and when a filter and its inversion are combined with the sort."""
    import cli_driver
    from sandbox import Sandbox
    files = {"in/a.txt": "11", "in/b.txt": "22", "in/c.log": "33", "in/x.log": "4", "in/sub/y.log": "55", "in/sub/z.txt": "66", "in/.h.txt": "77"}
    runs = [(["-s", "%Size()"], None), (["-r", "-s", "%Ext()"], None), (["-r", "-s", "%Ext(), %Size()", "-si"], None),
            (["-fg", "*.txt", "-s", "%Size()"], "*.txt"), (["-fg", "*.txt", "-fi", "-s", "%Size()"], "!*.txt"), (["-r", "-ih", "-s", "1"], None)]
    for opts, flt in runs:
        with Sandbox("verif-c07-s") as root:
            for rel, content in files.items():
                os.makedirs(os.path.dirname(os.path.join(root, rel)), exist_ok=True)
                with open(os.path.join(root, rel), "w") as fh:
                    fh.write(content)
            res = cli_driver.run_cli(opts + ["--", "seen_%Name()", os.path.join(root, "in")], root, root=root, snapshots=False, trace=False)
            got = set()
            for dp, _dn, fns in os.walk(root):
                for fn in fns:
                    if fn.startswith("seen_"):
                        got.add(os.path.relpath(os.path.join(dp, fn[5:]), root))
        exp = set()
        for rel in files:
            name = os.path.basename(rel)
            if "/sub/" in rel and "-r" not in opts:
                continue
            if name.startswith(".") and "-ih" not in opts:
                continue
            if flt == "*.txt" and not name.endswith(".txt"):
                continue
            if flt == "!*.txt" and name.endswith(".txt"):
                continue
            exp.add(rel)
        chk.count(("sort-keeps-entries", tuple(opts)))
        stats["sort_keeps_entries_runs"] = stats.get("sort_keeps_entries_runs", 0) + 1
        if res.status != 0 or got != exp:
            chk.oracle_fail("with %r the entries considered are %r, designated are %r (status %s)" % (opts, sorted(got), sorted(exp), res.status),
                            {"argv": opts + ["seen_%Name()", "<root>/in"], "files": sorted(files)})


def run(chk):
    rng = chk.rng
    quick = chk.tier == "quick"
    stats = {"configs": {}, "style": {}, "real_runs": 0, "identity_runs": 0, "multi_designation": 0,
             "empty_selection": 0, "hidden_entries_designated": 0, "depth": {}, "max_gathered": 0, "coq_groups": 0,
             "refused_nothing_to_gather": 0, "trees": 0, "trees_with_links": 0, "trees_with_dangling_or_special": 0, "subprocess_runs": 0}
    cases = []
    for c in corpus_cases():
        cases.append(c)
    stats["corpus_cases"] = len(cases)
    n_trees = 800 if quick else 1000
    for t in range(n_trees):
        world = gen_world(rng)
        stats["trees"] += 1
        stats["trees_with_links"] += any(e[1] == "l" for e in world["spec"])
        stats["trees_with_dangling_or_special"] += bool(world["dangling"] or world["special"])
        if quick:
            inp = gen_inputs(rng, world)
            for cfg in rng.sample(ALL_CONFIGS, 4):
                cases.append(make_case(rng, world, inp, cfg))
        else:
            inps = [gen_inputs(rng, world) for _ in range(3)]
            for cfg in ALL_CONFIGS:            # the whole configuration cube on every tree
                cases.append(make_case(rng, world, rng.choice(inps), cfg))
    for k in range(6 if quick else 60):
        cases[rng.randrange(len(cases))]["subprocess"] = True
        stats["subprocess_runs"] += 1
    step = 12000
    for off in range(0, len(cases), step):
        evaluate(chk, cases[off:off + step], stats)
        if len(cases) > step:
            print("C07: %d/%d cases evaluated" % (min(off + step, len(cases)), len(cases)), file=sys.stderr, flush=True)
    if chk.oracle_failures:
        first = chk.oracle_failures[0]
        small, runs = shrink(first["case"], fail_kind(first["what"]))
        res = run_case_safe(small)
        msgs = [f for f in res.get("fails", []) if fail_kind(f) == fail_kind(first["what"])]
        if msgs:
            chk.oracle_failures.insert(0, {"what": "(shrunk in %d runs) %s" % (runs, msgs[0]),
                                           "case": dict(small, argv=res.get("argv"))})
            stats["shrunk_to_entries"] = len(small["spec"])

    # the whole-program model (Whole/*.v), on which this property's whole-program theorems rest, against the real command line
    import whole as _whole
    import random as _random
    _ws = {}
    _whole.whole_stream(chk, _random.Random(chk.seed * 7919 + 7), 60 if chk.tier == "quick" else 2500, _ws)
    chk.notes["whole_program_tie"] = _ws
    _sk = {}
    sort_keeps_every_entry(chk, _sk)
    chk.notes["sort_keeps_entries"] = _sk
    chk.coverage["rule"] = (
        "random sandboxes (1-3 input directories below a working directory, trees to relative depth 4, hidden files and "
        "directories at every level, symlinks to directories outside and inside the inputs (never cyclic), links to files, "
        "dangling links, fifos, input directories that are hidden or are symlinks) x command lines (quick: 4 random points, "
        "thorough: the whole cube mode x --recursive x --include-hidden x filter kind {none, glob, regex, template} x "
        "--filter-invert) x inputs given as directories / explicit files / both / repeated, spelled relative, './', "
        "absolute, with trailing slashes, through '..', as '.'; every case runs tempren.cli.main() on a real tree; a case is "
        "distinct by (tree, working directory, spelled inputs, configuration, filter expression), non-trivial when at "
        "least one entry is designated")
    chk.coverage["input_distribution"] = stats
    chk.coverage["trusted_base"] = common.BASE_TRUSTED + [
        "the harness' reading of the sandbox (os.listdir / os.path.isdir / isfile / islink / realpath) that is handed to the model as "
        "the tree, and the pathlib-style lexical parent/name of a spelled input",
        "glob / regex / template predicates are CPython's (fnmatch.fnmatchcase, re.match, a Python twin of each filter template): "
        "the model receives the predicate as the table of strings / Files on which it is true",
        "C07_unselected_untouched has no theorem (no pipeline model yet): inode-keyed snapshot oracle only",
    ]
    chk.assumptions += [
        "names inside one directory are pairwise distinct (hypothesis wf_input of the multiplicity theorems; checked by wf_inputb on "
        "every generated input inside Coq)",
        "directory mode without --recursive designates the input directories themselves; explicitly named files are not subject to "
        "the hidden rule (readings fixed in DESIGN section 5); an input directory spelled '.' or 'X/..' is not generated in "
        "directory mode without --recursive (it has no name of its own to rename)",
        "an explicitly named path counts as a file when os.path.isfile holds: a fifo named on the command line designates nothing "
        "(the code ignores it); a dangling link named on the command line is refused by argparse and is not generated",
        "where one physical entry is selected twice (repeated or nested inputs, links into the inputs) the run uses the identity "
        "template, so 'left alone' is then checked as 'nothing changed at all'",
    ]


def replay(chk, obj):
    cases = []
    for f in obj.get("failures", []):
        cases.append(f["case"])
    for f in obj.get("broken_correspondence", []):
        cases.append(f["case"])
    if "spec" in obj:
        cases.append(obj)
    for c in obj.get("cases", []):
        cases.append(c)
    seen, rc = set(), 0
    for c in cases:
        c = {k: v for k, v in c.items() if k != "argv"}
        key = json.dumps(c, sort_keys=True)
        if key in seen:
            continue
        seen.add(key)
        res = run_case_safe(c)
        print("case: cwd=%s inputs=%r mode=%s recursive=%s hidden=%s filter=%r invert=%s" % (
            c["cwd"], c["inputs"], c["mode"], c["recursive"], c["hidden"], c["filter"], c["invert"]))
        if "crash" in res:
            print(res["crash"]); rc = 1; continue
        print("  argv:", res["argv"], "status:", res["status"], "real run:", res["real"])
        print("  implementation:", json.dumps(res["obs"], ensure_ascii=True))
        term = "(%s, [%s])" % (res["view"], q_member(res))
        r, o = common.coq_eval_term(["Pipe.GatherTree", "Corr.GatherCorr"],
                                    "let g := %s in (gather_group_ok g, map (fun m => considered (fst (fst m)) (fst (snd (fst m))) (snd (snd (fst m))) (fst g)) (snd g))" % term)
        print("  model (agrees?, considered):", o[-1500:])
        print("  oracle:", res["fails"] or "holds")
        if res["fails"] or "= (true" not in o:
            rc = 1
    return rc
