"""Shared harness of the pipeline properties (C01-C06): scenario generator (tree, input
directories, mode, strategy, scripted answers, dry-run, fault index, plan), the driver that
runs the real tempren.cli.main() on a scenario with the plan injected from outside, the Gallina
serialisation of scenario + observation for Corr/PipeCorr.v, and the filesystem-primitive
correspondence (model vs kernel / CPython)."""
import os
import shutil
import stat
import sys
from pathlib import Path

import common
from common import q_Z, q_bool, q_list, q_nat, q_opt, q_str, q_strs
import cli_driver
from cli_driver import run_cli, snapshot, build_tree
from sandbox import Sandbox
import impl  # noqa: F401
import tempren.cli as tcli
from tempren.primitives import File
from tempren.exceptions import FileNotSupportedError

POOL = ["a", "b", "c", "0", "1", "2", "x.txt", "y.txt", "a b", "é", ".h", "k"]
MODES = ["name", "path", "directory"]
STRATS = ["stop", "ignore", "override", "manual"]
FIXED_VARIANT = "fixed"


# ------------------------------------------------------------------------------- generation

def gen_tree(rng, big=False):
    """Returns (spec, inputs): spec = [(relpath, kind, payload)], inputs = real input dirs."""
    spec = []
    inputs = ["in"]
    if rng.random() < 0.45:
        inputs.append("in2")
    if rng.random() < 0.15:
        inputs.append("d/in")
    spec.append(("out", "d", None))
    spec.append(("out/keep.txt", "f", "keep"))
    if "in2" not in inputs and rng.random() < 0.5:
        spec.append(("in2", "d", None))
        spec.append(("in2/decoy", "f", "decoy"))
    n_id = [0]

    def content():
        n_id[0] += 1
        return "c%d" % n_id[0]

    for d in inputs:
        spec.append((d, "d", None))
        names = rng.sample(POOL, rng.randrange(2, 8 if not big else 11))
        subdirs = []
        for nm in names:
            r = rng.random()
            p = d + "/" + nm
            if r < 0.55:
                spec.append((p, "f", content()))
            elif r < 0.75:
                spec.append((p, "d", None))
                subdirs.append(p)
            elif r < 0.85:
                spec.append((p, "l", rng.choice(["nowhere", "../out/zz-none", "ROOT/zz-none"])))   # dangling
            elif r < 0.90:
                spec.append((p, "l", rng.choice(["../out", "../out/keep.txt", "ROOT/out"])))   # outside
            else:
                others = [x for x in names if x != nm]
                spec.append((p, "l", rng.choice(others) if others else "nowhere"))      # sibling (file, dir, link or missing)
        for sd in subdirs:
            for nm in rng.sample(POOL, rng.randrange(0, 4)):
                r = rng.random()
                p = sd + "/" + nm
                if r < 0.7:
                    spec.append((p, "f", content()))
                elif r < 0.85:
                    spec.append((p, "d", None))
                    if rng.random() < 0.5:
                        spec.append((p + "/" + rng.choice(POOL), "f", content()))
                else:
                    spec.append((p, "l", rng.choice(["nowhere", "../" + rng.choice(POOL), "..", "ROOT/out"])))
    if rng.random() < 0.2:
        spec.append(("lin", "l", "in"))        # the input directory reachable through a symlink
    if rng.random() < 0.5:
        # F34's situation: a link OUTSIDE every input directory that points at an existing file INSIDE one; a generated
        # destination spelled '../out/lk' resolves inside (Path.resolve() follows the link) while rename(2) would
        # replace the link itself
        inner = [p for p, k, _ in spec if k == "f" and any(p.startswith(d + "/") for d in inputs)]
        if inner:
            tgt = rng.choice(inner)
            spec.append(("out/lk", "l", rng.choice(["../" + tgt, "ROOT/" + tgt])))
    return spec, inputs


def entries_under(spec, d):
    pre = d + "/"
    return [(p[len(pre):], k, pl) for p, k, pl in spec if p.startswith(pre)]


def link_leads_to_dir(spec, path, hops=6):
    """does the symbolic link at `path` (sandbox-relative) lead to a directory?  Decided on the spec, lexically."""
    kinds = {p: (k, pl) for p, k, pl in spec}
    dirs = {p for p, k, _ in spec if k == "d"}
    for p, _, _ in spec:
        parts = p.split("/")
        for i in range(1, len(parts)):
            dirs.add("/".join(parts[:i]))
    cur = path
    for _ in range(hops):
        if cur in ("", "."):
            return True
        if cur in dirs:
            return True
        if cur not in kinds or kinds[cur][0] != "l":
            return False
        tgt = kinds[cur][1]
        if tgt.startswith("ROOT"):
            cur = os.path.normpath(tgt[4:].lstrip("/") or ".")
        elif tgt.startswith("/"):
            return False
        else:
            cur = os.path.normpath(os.path.join(os.path.dirname(cur), tgt))
        if cur.startswith(".."):
            return True          # the sandbox root or above: a directory
    return False


def gen_text(rng, mode, rel, fresh, d="in"):
    """What the template rendered for the file: ('text', t) | ('abs', t) | ('raise', cls)."""
    r = rng.random()
    if r < 0.03:
        return ("raise", rng.choice(["FileNotSupportedError", "ValueError"]))
    if mode in ("name", "directory"):
        if r < 0.60:
            return ("text", rng.choice(POOL))
        if r < 0.68:
            return ("text", rel.split("/")[-1])
        if r < 0.88:
            fresh[0] += 1
            return ("text", "n%d" % fresh[0])
        if r < 0.97:
            return ("text", rng.choice(["", ".", "a/b", "..", "/a", "sub/"]))
        return ("abs", "in/zz")
    # path mode
    dirs = ["", "", "", "a/", "b/", "c/", "n1/", "n1/n2/", "k/", ".h/", "a/b/"]
    if r < 0.55:
        return ("text", rng.choice(dirs) + rng.choice(POOL))
    if r < 0.62:
        return ("text", rel)
    if r < 0.72:
        fresh[0] += 1
        return ("text", rng.choice(dirs) + "n%d" % fresh[0])
    if r < 0.76:
        # a directory that does not exist yet, left again with "..": the path only becomes resolvable once mkdir -p has run
        fresh[0] += 1
        return ("text", "m%d/../%s" % (fresh[0], rng.choice(POOL)))
    if r < 0.80:
        # the shape of F34: the link 'out/lk' (gen_tree) lies outside the input directory and points at a file inside it
        return rng.choice([("text", "../" * (d.count("/") + 1) + "out/lk"), ("text", "../" * (d.count("/") + 1) + "out/lk"),
                           ("abs", "out/lk")])
    if r < 0.90:
        return ("text", rng.choice([
            "../x", "../in2/x", "../out/x", "new/..", "a/../b", "./a", "a//b", "", ".", "..",
            "a/./c", "../in/q", "n1/../../out/q", "new/../../in/w", "../new/../in/w", "../new/../in2/w", "a/../../nw/../in/v", "a/", "../in2", "/proc/zz-none/x",
            rng.choice(POOL) + "/" + rng.choice(POOL) + "/" + rng.choice(POOL),
            rng.choice(POOL) + "/../" + rng.choice(POOL)]))
    return ("abs", rng.choice(["in/" + rng.choice(POOL), "out/x", "in2/y", "in/n1/z", "in"]))


def gen_scenario(rng, mode=None, strategy=None, dry=None, big=False, answers_pool=None):
    spec, inputs = gen_tree(rng, big)
    mode = mode or rng.choice(["name", "name", "path", "path", "directory"])
    strategy = strategy or rng.choice(["stop", "stop", "ignore", "ignore", "override", "manual"])
    dry = (rng.random() < 0.2) if dry is None else dry
    plan = []
    fresh = [0]
    have_lin = any(p == "lin" for p, _, _ in spec)
    for d in inputs:
        ents = entries_under(spec, d)
        # what the real gatherers can designate: a link that leads to a directory counts as a directory
        if mode == "directory":
            cand = [p for p, k, _ in ents if k == "d" or (k == "l" and link_leads_to_dir(spec, d + "/" + p))]
        else:
            cand = [p for p, k, _ in ents if k == "f" or (k == "l" and not link_leads_to_dir(spec, d + "/" + p))]
        rng.shuffle(cand)
        if cand:
            cand = cand[: rng.randrange(1, min(len(cand), 6 if not big else 10) + 1)]
        for rel in cand:
            spelled = d
            if d == "in" and have_lin and rng.random() < 0.5:
                spelled = "lin"
            plan.append({"dir": d, "spelled": spelled, "rel": rel, "r": gen_text(rng, mode, rel, fresh, d)})
    if mode == "path" and plan and any(p == "out/lk" for p, _, _ in spec) and rng.random() < 0.15:
        # F34's situation, made frequent: one file is rendered to the link outside that points inside
        e = rng.choice(plan)
        e["r"] = ("text", "../" * (e["dir"].count("/") + 1) + "out/lk")
    if plan and rng.random() < 0.06:
        plan.append(dict(rng.choice(plan)))          # the same file designated twice
    if rng.random() < 0.04:
        plan.append({"dir": inputs[0], "spelled": inputs[0], "rel": "zz-missing", "r": ("text", "q")})
    rng.shuffle(plan)
    if mode == "directory" and rng.random() < 0.7:
        plan.sort(key=lambda e: -len(e["rel"].split("/")))     # what PathDepthSorter would do (stable)
    if mode == "path" and rng.random() < 0.06:
        # F38's situation: x -> y is deferred (y exists) after every containment test said yes; y -> z moves y away; a
        # symbolic link whose target '../out' is dangling where it stands (below a sub-directory of the input directory)
        # is moved to y, where '../out' is the directory 'out' OUTSIDE the input directory; the retried x -> y is a
        # conflict, and overriding it lets shutil.move follow the link.  The relative order of the three entries matters
        # (they come last, in this order); the names are not in POOL
        d = inputs[0]
        up = "../" * (d.count("/") + 1)
        spec += [(d + "/f38x", "f", "F38X"), (d + "/f38y", "f", "F38Y"), (d + "/f38d", "d", None),
                 (d + "/f38d/lnk", "l", up + "out")]
        if rng.random() < 0.5:
            plan = []
        plan += [{"dir": d, "spelled": d, "rel": "f38x", "r": ("text", "f38y")},
                 {"dir": d, "spelled": d, "rel": "f38y", "r": ("text", rng.choice(["f38z", "f38d/z", "n1/f38z"]))},
                 {"dir": d, "spelled": d, "rel": "f38d/lnk", "r": ("text", "f38y")}]
        if rng.random() < 0.8:
            strategy = "override"
    answers = []
    if strategy == "manual":
        pool = answers_pool or ["s", "St", "STOP", "i", "", "ig", "IGNORE", "o", "Over", "override", "c", "custom p",
                                "C", "x", "zz", "stopp", "ignored", " ", "st op", "cu"]
        for _ in range(rng.randrange(0, 6)):
            a = rng.choice(pool)
            answers.append(a)
            if a and "custom path".startswith(a.lower()) and not "ignore".startswith(a.lower()) \
                    and not "stop".startswith(a.lower()) and not "override".startswith(a.lower()):
                if rng.random() < 0.9:
                    answers.append(rng.choice(POOL + ["n9", "sub/q", "../q", "a/n8", "", "k/../n7", "./n6", "x/./n5"]))
    return {"tree": spec, "inputs": inputs, "mode": mode, "strategy": strategy, "dry": dry,
            "answers": answers, "fault": None, "plan": plan, "variant": os.environ.get("VERIF_VARIANT", FIXED_VARIANT)}


# ------------------------------------------------------------------------------- running the implementation

EXC = {"FileNotSupportedError": FileNotSupportedError, "ValueError": lambda: ValueError("injected by the plan")}


class TablePattern:
    """Stands in for the compiled pattern: the k-th call returns what the plan says."""
    source_representation = "<plan>"

    def __init__(self, root, plan):
        self.root, self.plan, self.k = root, plan, 0

    def process(self, file):
        e = self.plan[self.k]
        self.k += 1
        kind, val = e["r"]
        if kind == "raise":
            raise EXC[val]()
        if kind == "abs":
            return self.root + "/" + val
        return val

    def process_as_expression(self, file):
        raise NotImplementedError()


class PlanGatherer:
    def __init__(self, root, plan):
        self.root, self.plan = root, plan
        self.include_hidden = True

    def gather_files(self):
        for e in self.plan:
            yield File(Path(self.root) / e["spelled"], Path(e["rel"]))


def materialise(root, spec):
    build_tree(root, [(p, k, (pl.replace("ROOT", root) if k == "l" else pl)) for p, k, pl in spec])


def id_map(root):
    """inode -> small id, in sorted path order of the initial tree."""
    snap = snapshot(root, with_times=False)
    ids = {}
    for rel in sorted(snap):
        v = snap[rel]
        if v[0] in ("file", "link", "other") and v[1] not in ids:
            ids[v[1]] = len(ids) + 1
    return snap, ids


def canon(snap, ids, root):
    """snapshot -> {relpath: ('d',) | ('f', id, hash) | ('l', id, target)} with stable ids."""
    out = {}
    for rel, v in snap.items():
        if v[0] == "dir":
            out[rel] = ("d",)
        elif v[0] == "file":
            out[rel] = ("f", ids.get(v[1], 1000 + len(ids)), v[2])
        elif v[0] == "link":
            t = v[2]
            out[rel] = ("l", ids.get(v[1], 1000 + len(ids)), t.replace(root, "ROOT") if t.startswith(root) else t)
        else:
            out[rel] = ("o", ids.get(v[1], 0))
    return out


def run_impl(scn, keep_snapshots=True):
    """Runs the real CLI on a fresh materialisation of the scenario.  Returns the observation."""
    with Sandbox() as root:
        materialise(root, scn["tree"])
        snap0, ids = id_map(root)
        argv = []
        argv.append({"name": "-n", "path": "-p", "directory": "-d"}[scn["mode"]])
        argv.append({"stop": "-cs", "ignore": "-ci", "override": "-co", "manual": "-cm"}[scn["strategy"]])
        if scn["dry"]:
            argv.append("-dr")
        argv.append("x")
        argv += scn["inputs"]
        orig_build = tcli.build_pipeline
        plan = scn["plan"]

        def patched(config, registry, manual_conflict_resolver=None, **kw):
            pl = orig_build(config, registry, manual_conflict_resolver=manual_conflict_resolver, **kw)
            pl.file_gatherer = PlanGatherer(root, plan)
            pl.file_filter = lambda f: True
            pl.sorter = None
            pl.path_generator.pattern = TablePattern(root, plan)
            return pl
        tcli.build_pipeline = patched
        try:
            res = run_cli(argv, root, stdin_text="".join(a + "\n" for a in scn["answers"]), root=root,
                          fault_at=scn["fault"], snapshots=keep_snapshots)
        finally:
            tcli.build_pipeline = orig_build
        final = snapshot(root, with_times=False)
        tr = res.tracer
        calls = []
        for c in tr.calls:
            kind = {"rename": "CRename", "mkdir": "CMkdir", "move": "CMove"}.get(c["name"], "X_" + c["name"])
            out = {"ok": "COk", "fault": "CFault"}.get(c["outcome"], "CErr")
            calls.append((kind, out))
        obs = {
            "status": res.status, "exception": res.exception,
            "initial": canon(snap0, ids, root), "final": canon(final, ids, root),
            "dirs_initial": {rel: v[1] for rel, v in snap0.items() if v[0] == "dir"},
            "dirs_final": {rel: v[1] for rel, v in final.items() if v[0] == "dir"},
            "root_ino": os.lstat(root).st_ino,
            "snapshots": [canon(s, ids, root) for s in tr.snapshots] if keep_snapshots else [],
            "calls": calls, "raw_calls": [(c["name"], [a.replace(root, "ROOT") for a in c["args"]],
                                           c["cwd"].replace(root, "ROOT"), c["outcome"]) for c in tr.calls],
            "report": [(a.replace(root, ""), b.replace(root, ""), o) for a, b, o in res.report()], "prompts": min(res.prompts, len(scn["answers"])),
            "inner": list(tr.inner), "stdout": res.stdout[-1500:], "stderr": res.stderr[-1500:],
            "cwd_restored": res.cwd_after == root, "writes": [w for w in tr.opens_for_write],
            "consumed_plan": None,
        }
        return obs


def real_dir(scn, e):
    """the resolved input directory of a plan entry, relative to the sandbox root"""
    return e["dir"]


# ------------------------------------------------------------------------------- Gallina

def q_rpath(p):
    comps = [c for c in p.split("/") if c not in ("", ".")] if isinstance(p, str) else list(p)
    return q_strs(comps)


def q_upath(t):
    """a path string as passed to a syscall / stored in a symlink -> upath (ROOT = sandbox root)"""
    ab = t.startswith("/") or t.startswith("ROOT")
    if t.startswith("ROOT"):
        t = t[4:]
    comps = [c for c in t.split("/") if c not in ("", ".")]
    return "{| up_abs := %s; up_comps := %s |}" % (q_bool(ab), q_strs(comps))


def q_node(v):
    if v[0] == "d":
        return "NDir"
    if v[0] == "f":
        return "(NFile %d)" % v[1]
    if v[0] == "l":
        return "(NLink %d %s)" % (v[1], q_upath(v[2]))
    raise ValueError("unsupported entry kind %r" % (v,))


def q_fs(c):
    return q_list(["(%s, %s)" % (q_rpath(rel), q_node(c[rel])) for rel in sorted(c)], "rpath * node")


def spec_fs(spec):
    """the canonical initial filesystem straight from the spec (ids in sorted path order)"""
    out = {}
    for p, k, pl in spec:
        parts = p.split("/")
        for i in range(1, len(parts)):
            out.setdefault("/".join(parts[:i]), ("d",))
    ids = 0
    tmp = {}
    for p, k, pl in spec:
        tmp[p] = (k, pl)
    for p in sorted(set(tmp) | set(out)):
        if p in tmp and tmp[p][0] != "d":
            ids += 1
            k, pl = tmp[p]
            out[p] = ("f", ids, pl) if k == "f" else ("l", ids, pl)
        else:
            out[p] = ("d",)
    return out


VARIANTS = {
    "fixed": "fixed",
    "pre_f34": "pre_f34",        # the code before the repair of F34: no test on the directory of the destination entry
    "pre_f38": "pre_f38",        # the code before the repair of F38: deferred renames are retried without the containment tests
    "prefix": ("{| v_lexists_guard := false; v_recheck_after_mkdir := false; v_backlog_chdir := false; "
               "v_dry_abs_keys := false; v_component_containment := false; v_dest_parent_containment := false; "
               "v_backlog_recheck := false |}"),
}


def q_variant(v):
    if isinstance(v, str):
        return VARIANTS.get(v, v)
    # five / six flags: a variant written before v_dest_parent_containment (F34) / v_backlog_recheck (F38) existed
    v = tuple(v) + (True,) * (7 - len(v))
    return ("{| v_lexists_guard := %s; v_recheck_after_mkdir := %s; v_backlog_chdir := %s; "
            "v_dry_abs_keys := %s; v_component_containment := %s; v_dest_parent_containment := %s; "
            "v_backlog_recheck := %s |}") % tuple(q_bool(x) for x in v)


def q_rendered(r):
    kind, val = r
    if kind == "text":
        return "(RText %s)" % q_str(val)
    if kind == "abs":
        return "(RAbs %s)" % q_str(val)
    return "(RRaise %s)" % {"FileNotSupportedError": "ExFileNotSupported"}.get(val, "ExOther")


def q_cfg(scn):
    return ("{| c_mode := %s; c_strategy := %s; c_dry := %s; c_answers := %s; c_fault := %s; c_var := %s |}" % (
        {"name": "MName", "path": "MPath", "directory": "MDirectory"}[scn["mode"]],
        {"stop": "Stop", "ignore": "Ignore", "override": "Override", "manual": "Manual"}[scn["strategy"]],
        q_bool(scn["dry"]), q_list([q_str(a) for a in scn["answers"]], "str"),
        q_opt(scn["fault"], q_nat, "nat"), q_variant(scn.get("variant", "fixed"))))


def q_plan(scn):
    return q_list(["(%s, %s, %s)" % (q_rpath(e["dir"]), q_str(e["rel"]), q_rendered(e["r"])) for e in scn["plan"]],
                  "plan_entry")


def q_obs(obs):
    calls = q_list(["(%s, %s)" % c for c in obs["calls"]], "call")
    rep = q_list(["(%s, %s, %s)" % (q_str(a), q_str(b), q_bool(o)) for a, b, o in obs["report"]], "str * str * bool")
    return "{| o_status := %s; o_final := %s; o_calls := %s; o_report := %s; o_prompts := %s |}" % (
        q_Z(obs["status"]), q_fs(obs["final"]), calls, rep, q_nat(obs["prompts"]))


def q_case(scn, obs):
    return "(%s, %s, %s, %s)" % (q_cfg(scn), q_plan(scn), q_fs(obs["initial"]), q_obs(obs))


def modelable(obs):
    """cases the model does not describe (counted, excluded by rule): shutil.move's copy
    fallback ran, or an unexpected syscall kind was traced"""
    if any(x in ("copy2", "copyfile", "copy", "unlink", "symlink", "copytree", "rmtree") for x in obs["inner"]):
        return False
    if any(k.startswith("X_") for k, _ in obs["calls"]):
        return False
    if any(v[0] == "o" for v in obs["final"].values()):
        return False
    return True


def check_cases(chk, scns, obss, name="Corr.PipeCorr.pipe_case_ok (Pipe.Pipeline.run vs tempren.cli.main)"):
    """model vs implementation on all modelable cases; records corr failures; returns #excluded"""
    cases, idx = [], []
    for i, (s, o) in enumerate(zip(scns, obss)):
        if modelable(o):
            cases.append(q_case(s, o))
            idx.append(i)
    mism, errs = common.run_model_cases(["Py.PathLib", "FS.Model", "Pipe.Pipeline", "Corr.PipeCorr"],
                                        "pipe_case", "pipe_case_ok", cases, shard_size=120)
    for e in errs:
        chk.proof_failures.append({"what": "coqc on generated cases (%s)" % name, "log": e["output"]})
    for m in mism[:40]:
        i = idx[m]
        rc, out = common.coq_eval_term(["Py.PathLib", "FS.Model", "Pipe.Pipeline", "Corr.PipeCorr"],
                                       "(pipe_check %s, pipe_model %s)" % (cases[m], cases[m]))
        chk.corr_fail(name, slim(scns[i]), model=out[-3000:], impl=slim_obs(obss[i]))
    for m in mism[40:]:
        chk.corr_fail(name, slim(scns[idx[m]]))
    return len(scns) - len(cases)


def slim(scn):
    return {k: scn[k] for k in ("tree", "inputs", "mode", "strategy", "dry", "answers", "fault", "plan", "variant") if k in scn}


def slim_obs(o):
    return {k: o[k] for k in ("status", "exception", "final", "calls", "raw_calls", "report", "prompts", "inner", "stderr")}


# ------------------------------------------------------------------------------- filesystem primitives vs the kernel

def fs_primitive_cases(rng, n):
    """random trees x random operations executed for real; returns list of Gallina cases + metas"""
    cases, metas = [], []
    paths = ["a", "b", "c", "a/b", "a/../b", "k", "k/..", "nowhere", "a/x.txt", "0", "1", "../out", "../out/keep.txt",
             "..", "a/b/c", ".h", "n1/n2", "n1", "a b", "0/..", "ROOT/out", "ROOT/in/a", "ROOT/zz-none", "b/../in/a",
             "é", "2", "x.txt", "y.txt", "c/..", "1/2"]
    for _ in range(n):
        spec, inputs = gen_tree(rng)
        op = rng.choice(["lexists", "exists", "isdir", "realpath", "rename", "rename", "mkdir", "move"])
        a, b = rng.choice(paths), rng.choice(paths)
        with Sandbox() as root:
            materialise(root, spec)
            snap0, ids = id_map(root)
            init = canon(snap0, ids, root)
            cwd = os.path.join(root, "in")
            ra, rb = a.replace("ROOT", root), b.replace("ROOT", root)
            old = os.getcwd()
            os.chdir(cwd)
            try:
                if op == "lexists":
                    res = "(FBool %s)" % q_bool(os.path.lexists(ra)); opq = "(OpLexists %s %s)" % (q_rpath("in"), q_upath(a))
                elif op == "exists":
                    res = "(FBool %s)" % q_bool(Path(ra).exists()); opq = "(OpExists %s %s)" % (q_rpath("in"), q_upath(a))
                elif op == "isdir":
                    res = "(FBool %s)" % q_bool(os.path.isdir(ra)); opq = "(OpIsDir %s %s)" % (q_rpath("in"), q_upath(a))
                elif op == "realpath":
                    try:
                        rp = str((Path(cwd) / ra).resolve())
                        if rp == root or rp.startswith(root + "/"):
                            rp = rp[len(root):]
                        res = "(FPath %s)" % q_opt(rp, q_rpath, "rpath")
                    except (RuntimeError, OSError):
                        res = "(FPath %s)" % q_opt(None, ty="rpath")
                    opq = "(OpRealpath %s)" % q_upath("ROOT/in/" + a if not (a.startswith("/") or a.startswith("ROOT")) else a)
                else:
                    try:
                        if op == "rename":
                            os.rename(ra, rb)
                        elif op == "mkdir":
                            os.mkdir(ra)
                        else:
                            real_rename = os.rename
                            failed = []

                            def guarded(x, y, *aa, **kk):
                                try:
                                    return real_rename(x, y, *aa, **kk)
                                except OSError:
                                    failed.append(1)
                                    raise
                            os.rename = guarded
                            try:
                                shutil.move(ra, rb)
                            finally:
                                os.rename = real_rename
                            if failed:
                                continue       # the copy fallback ran: not modelled
                        ok = True
                    except (OSError, shutil.Error):
                        ok = False
                    fin = canon(snapshot(root, with_times=False), ids, root)
                    if not ok and fin != init:
                        continue               # a failing shutil.move that left traces (fallback): not modelled
                    res = "(FState %s)" % (q_opt(fin, q_fs, "fs") if ok else q_opt(None, ty="fs"))
                    if op == "mkdir":
                        opq = "(OpMkdir %s %s)" % (q_rpath("in"), q_upath(a))
                    else:
                        opq = "(%s %s %s %s)" % ("OpRename" if op == "rename" else "OpMove", q_rpath("in"), q_upath(a), q_upath(b))
            finally:
                os.chdir(old)
        cases.append("(%s, %s, %s)" % (q_fs(init), opq, res))
        metas.append({"tree": spec, "op": op, "a": a, "b": b, "result": res[:200]})
    return cases, metas


def check_fs_primitives(chk, n):
    cases, metas = fs_primitive_cases(chk.rng, n)
    mism, errs = common.run_model_cases(["Py.PathLib", "FS.Model", "Pipe.Pipeline", "Corr.PipeCorr"],
                                        "fs * fsop * fsobs", "fsop_ok", cases, shard_size=200)
    for e in errs:
        chk.proof_failures.append({"what": "coqc on generated cases (Corr.PipeCorr.fsop_ok)", "log": e["output"]})
    for m in mism:
        chk.corr_fail("Corr.PipeCorr.fsop_ok (FS.Model vs the kernel / os / shutil / pathlib)", metas[m])
    return len(cases)


# ------------------------------------------------------------------------------- shared oracles / helpers

def leaf_multiset(c):
    """non-directory entries of a canonical snapshot, without their paths"""
    return sorted((v[0], v[1], v[2]) for v in c.values() if v[0] != "d")


def is_override_answer(a):
    l = a.lower()
    return bool(l) and "override".startswith(l) and not "ignore".startswith(l) and not "stop".startswith(l)


def safe_scenario(scn):
    """the property's own reading of 'the user did not choose override'"""
    if scn["strategy"] in ("stop", "ignore"):
        return True
    if scn["strategy"] == "manual":
        return not any(is_override_answer(a) for a in scn["answers"])
    return False


def with_faults(rng, scn, obs, max_faults=3):
    """scenarios identical to scn but with an injected OSError at some of its counted calls"""
    n = len(obs["calls"])
    if n == 0:
        return []
    ks = list(range(n))
    rng.shuffle(ks)
    out = []
    for k in sorted(ks[:max_faults]):
        s2 = dict(scn)
        s2["fault"] = k
        out.append(s2)
    return out


def stats_of(scns, obss):
    import collections
    st = {"mode": collections.Counter(), "strategy": collections.Counter(), "status": collections.Counter(),
          "dry": 0, "faulted": 0, "inputs": collections.Counter(), "plan_len": collections.Counter(),
          "calls": collections.Counter(), "tree_entries": collections.Counter(), "symlinks": 0,
          "deferred_or_conflict_runs": 0, "prompts": 0, "copy_fallback_excluded": 0}
    for s, o in zip(scns, obss):
        st["mode"][s["mode"]] += 1
        st["strategy"][s["strategy"]] += 1
        st["status"][str(o["status"])] += 1
        st["dry"] += 1 if s["dry"] else 0
        st["faulted"] += 1 if s["fault"] is not None else 0
        st["inputs"][len(s["inputs"])] += 1
        st["plan_len"][min(len(s["plan"]), 10)] += 1
        st["calls"][min(len(o["calls"]), 12)] += 1
        st["tree_entries"][min(len(o["initial"]) // 5 * 5, 40)] += 1
        st["symlinks"] += sum(1 for v in o["initial"].values() if v[0] == "l")
        st["prompts"] += o["prompts"]
        if not modelable(o):
            st["copy_fallback_excluded"] += 1
    return {k: (dict(v) if hasattr(v, "items") else v) for k, v in st.items()}


# ------------------------------------------------------------------------------- plan analysis (oracles of C02/C03)

def _parts(p):
    return [c for c in p.split("/") if c not in ("", ".")]


def analyse(scn, init):
    """Independent reading of a plan.  Returns None when the scenario is outside the 'clean' family the
    C02/C03 oracles speak about (raising templates, invalid or escaping names, '..', absolute paths,
    symbolic links or missing sources on any path involved, a file designated twice), else a dict:
      moves: [(src, dst)] effective moves (dst != src), paths relative to the sandbox root
      stays: [src] selected entries whose generated path equals their own"""
    moves, stays, seen = [], [], set()
    for e in scn["plan"]:
        kind, val = e["r"]
        if kind != "text":
            return None
        src = e["dir"].split("/") + _parts(e["rel"])
        if scn["mode"] == "path":
            if val.startswith("/") or val.endswith("/") and False:
                return None
            d = _parts(val)
            if not d or ".." in d:
                return None
            dst = e["dir"].split("/") + d
        else:
            if val in ("", ".", "..") or "/" in val:
                return None
            dst = src[:-1] + [val]
        s, d = "/".join(src), "/".join(dst)
        if s in seen or s not in init:
            return None
        seen.add(s)
        if e["spelled"] != e["dir"]:
            pass
        for path, final_too in ((src, False), (dst, True)):
            for i in range(1, len(path) + 1):
                p = "/".join(path[:i])
                # a destination that IS a symbolic link "resolves elsewhere" (C06) and is refused: not in this family
                if p in init and init[p][0] == "l" and (i < len(path) or final_too):
                    return None
        if init[s][0] == "l" and False:
            return None
        if d in init and init[d][0] == "l" and False:
            return None
        if s == d:
            stays.append(s)
        else:
            moves.append((s, d))
    if scn["mode"] == "directory":
        # tempren always processes deeper directories first (PathDepthSorter); an injected order that renames a
        # directory before one of its selected descendants is not a processing order of the real program
        order = [s_ for s_, _ in moves] + stays
        seq = ["/".join(e["dir"].split("/") + _parts(e["rel"])) for e in scn["plan"]]
        for i, a in enumerate(seq):
            for b in seq[i + 1:]:
                if b.startswith(a + "/"):
                    return None
        # a selected directory beneath another selected directory: if the child is deferred and the parent renamed in
        # between, the retry uses a stale path (recorded finding F25, judged by C02): not in this family
        if any(a != b and b.startswith(a + "/") for a in seq for b in seq):
            return None
    dsts = [d for _, d in moves]
    # a selected symbolic link renamed onto a name that another entry is rendered to as well: once the real run
    # has done that rename the shared destination IS a link and "resolves elsewhere" (C06): not in this family
    if any(init[sx][0] == "l" and dsts.count(dx) > 1 for sx, dx in moves):
        return None
    nested = any(a != b and b.startswith(a + "/") for a in dsts for b in dsts) or \
        any(anc in init and init[anc][0] != "d" for d in dsts for anc in ["/".join(d.split("/")[:i]) for i in range(1, len(d.split("/")))])
    return {"moves": moves, "stays": stays, "nested": nested}


def conflicts(scn, init, an):
    """For each move: is its destination 'conflicting' in the property's sense — it already existed,
    another selected file has the same destination, or (path mode) one destination lies on/beneath another
    destination or beneath an existing non-directory."""
    out = {}
    dsts = [d for _, d in an["moves"]]
    for s, d in an["moves"]:
        c = d in init or dsts.count(d) > 1
        if scn["mode"] == "path":
            dp = d.split("/")
            for i in range(1, len(dp)):
                anc = "/".join(dp[:i])
                if anc in init and init[anc][0] != "d":
                    c = True
                if anc in dsts:
                    c = True
            if any(o != d and o.startswith(d + "/") for o in dsts):
                c = True
        out[(s, d)] = c
    return out


def expected_final(scn, init, an):
    """the plan applied simultaneously to the initial tree (name/path mode: selected entries are non-directories;
    directory mode: a renamed directory carries its subtree, renamed ancestors apply too)"""
    mv = dict(an["moves"])
    out = {}
    if scn["mode"] == "directory":
        for p, v in init.items():
            comps = p.split("/")
            new = []
            for i in range(len(comps)):
                pre = "/".join(comps[: i + 1])
                new.append(mv[pre].split("/")[-1] if pre in mv else comps[i])
            out["/".join(new)] = v
        return out
    for p, v in init.items():
        if p in mv:
            continue
        out[p] = v
    for s, d in mv.items():
        out[d] = init[s]
        dp = d.split("/")
        for i in range(1, len(dp)):
            out.setdefault("/".join(dp[:i]), ("d",))
    return out


def strip_hash(c):
    return {p: v[:2] if v[0] == "f" else v for p, v in c.items()}


def exhaustive_plans(k, mode="name", strategy="stop", roots=1):
    """Every function from k selected files to a universe of names (the selected names themselves, an
    existing unselected file, an existing dangling link, a fresh name) in EVERY processing order."""
    import itertools
    names = ["a", "b", "c", "d"][:k]
    universe = names + ["x", "lnk", "n"]
    tree = [("out", "d", None), ("in", "d", None), ("in/x", "f", "X"), ("in/lnk", "l", "nowhere")] + [("in/" + n, "f", "C" + n) for n in names]
    inputs = ["in"]
    if roots == 2:
        # a second input directory with the SAME relative names, the same plan and the same look-alikes: whatever is
        # deferred in one root is deferred in the other too, and nothing may leak from one root into the other
        tree += [("in2", "d", None), ("in2/x", "f", "other-X"), ("in2/lnk", "l", "nowhere")] + [("in2/" + n, "f", "other-C" + n) for n in names]
        inputs.append("in2")
    for dests in itertools.product(universe, repeat=k):
        for order in itertools.permutations(range(k)):
            plan = [{"dir": "in", "spelled": "in", "rel": names[i], "r": ("text", dests[i] if mode != "path" else dests[i])} for i in order]
            if roots == 2:
                other = [{"dir": "in2", "spelled": "in2", "rel": names[i], "r": ("text", dests[i])} for i in order]
                plan = [e for pair in zip(plan, other) for e in pair]      # interleaved: in, in2, in, in2, ...
            yield {"tree": list(tree), "inputs": list(inputs), "mode": mode, "strategy": strategy, "dry": False, "answers": [],
                   "fault": None, "plan": plan, "variant": FIXED_VARIANT}
