"""C05 — a dry run predicts exactly what the real run then does."""
import json
import os

import common
import pipe


def norm_rel(p):
    parts = [c for c in p.split("/") if c not in ("", ".")]
    return parts


def in_scope(scn, init):
    """The property's own restriction for path and directory mode (name mode: everything).
    Returns (True, None) or (False, reason)."""
    mode = scn["mode"]
    if mode == "name":
        return True, None
    if mode == "path":
        dests = []
        for e in scn["plan"]:
            kind, val = e["r"]
            if kind == "raise":
                continue
            if kind == "abs":
                return False, "absolute destination"
            parts = norm_rel(val)
            if ".." in parts or val.startswith("/"):
                return False, "destination with .. or absolute"
            full = e["dir"].split("/") + parts
            # ancestors must be directories or absent; the destination must not be an existing directory
            for i in range(1, len(full)):
                anc = "/".join(full[:i])
                if anc in init and init[anc][0] != "d":
                    return False, "destination beneath an existing non-directory"
            if "/".join(full) in init and init["/".join(full)][0] == "d":
                return False, "destination is an existing directory"
            dests.append(tuple(full))
        for a in dests:
            for b in dests:
                if a != b and len(a) < len(b) and b[: len(a)] == a:
                    return False, "one destination is an ancestor of another"
        if scn["strategy"] == "manual":
            return False, "manual answers in path mode may name arbitrary custom paths"
        return True, None
    # directory mode: no selected directory lies beneath another selected directory
    sel = [tuple(e["dir"].split("/") + norm_rel(e["rel"])) for e in scn["plan"]]
    for a in sel:
        for b in sel:
            if a != b and len(a) < len(b) and b[: len(a)] == a:
                return False, "a selected directory lies beneath another selected directory"
    return True, None


def oracle(chk, scn, dry, real, stats):
    ok, why = in_scope(scn, real["initial"])
    if not ok:
        stats["out_of_scope"][why] = stats["out_of_scope"].get(why, 0) + 1
        return
    stats["in_scope"] += 1
    case = {"scenario": pipe.slim(scn), "dry": {"status": dry["status"], "report": dry["report"], "stderr": dry["stderr"][-300:]},
            "real": {"status": real["status"], "report": real["report"], "stderr": real["stderr"][-300:]}}
    finding = known_finding(scn, dry, real)
    if dry["status"] != real["status"]:
        chk.oracle_fail("dry run exits with status %s, the real run with %s" % (dry["status"], real["status"]), case, finding=finding)
        return
    if dry["report"] != real["report"]:
        chk.oracle_fail("dry run reports %r, the real run %r" % (dry["report"][:4], real["report"][:4]), case, finding=finding)
        return
    # the report accounts for everything the real run did: no successful filesystem-changing call other than the reported
    # renames/moves (and, in path mode, the directories created on the way)
    allowed = {"rename", "move", "mkdir"} if scn["mode"] == "path" else {"rename"}
    extra = [c for c in real["raw_calls"] if c[3] == "ok" and c[0] not in allowed]
    if extra:
        chk.oracle_fail("the real run did something the dry run's report does not account for: %r" % ([(c[0], c[1]) for c in extra][:3],), case, finding=finding)
        return
    # the report is truthful: the i-th report line is the i-th successful rename/move of the real run
    okc = [c for c in real["raw_calls"] if c[0] in ("rename", "move") and c[3] == "ok"]
    if pipe.modelable(real) and [(c[1][0], c[1][1].replace("ROOT", "")) for c in okc] != [(a, b) for a, b, _ in real["report"]]:
        chk.oracle_fail("the report lines %r are not the successful renames %r" % (real["report"][:4], [c[1] for c in okc][:4]), case)


def dest_paths(scn):
    """(source path, destination path) of every plan entry, lexically, relative to the sandbox root"""
    out = []
    for e in scn["plan"]:
        kind, val = e["r"]
        if kind != "text":
            continue
        src = e["dir"].split("/") + norm_rel(e["rel"])
        if scn["mode"] == "path":
            dst = e["dir"].split("/") + norm_rel(val)
        else:
            dst = src[:-1] + [val]
        out.append(("/".join(src), "/".join(dst)))
    return out


def known_finding(scn, dry, real):
    """Recorded genuine defects (known_findings.json), identified by the INPUT:
    F29 — override (flag or answer) onto an existing entry of the other kind (file vs directory): os.rename refuses, the dry run cannot know;
    F30 — a destination that is, or lies beneath, an existing symbolic link: the containment check resolves it against the disk,
          which the dry run has not changed."""
    init = real["initial"]
    overriding = scn["strategy"] == "override" or (scn["strategy"] == "manual" and any(pipe.is_override_answer(a) for a in scn["answers"]))
    pairs = dest_paths(scn)
    if overriding:
        # os.rename refuses to replace an entry of the other kind or a non-empty directory (also '..'); the dry run cannot know
        if scn["mode"] == "directory":
            return "F29"
        for e in scn["plan"]:
            if e["r"][0] == "text" and e["r"][1] in ("..", "."):
                return "F29"
        for src, dst in pairs:
            if dst in init and init[dst][0] == "d":
                return "F29"
    dsts = [d for _, d in pairs]
    for src, dst in pairs:
        parts = dst.split("/")
        for i in range(1, len(parts) + 1):
            p = "/".join(parts[:i])
            if p in init and init[p][0] == "l":
                return "F30"
        # a selected symbolic link that is itself renamed onto a name another entry is rendered to: after the
        # real rename that destination IS a link on disk (and is resolved), in the dry run it is not
        if src in init and init[src][0] == "l" and dsts.count(dst) > 1:
            return "F30"
    return None


def real_stream(chk, rng, n, stats):
    """Real gatherers, sorter and templates (no plan injection), each scenario run dry and for real: input directories
    listed once, twice, nested (-r in in/sub) or together with one of their files; templates that are idempotent or not."""
    import os
    from cli_driver import run_cli
    from sandbox import Sandbox
    names = ["a.txt", "b.txt", "c.dat", "x_a.txt", "A.TXT", "noext", "é.txt"]
    for _ in range(n):
        spec = [("out/keep.txt", "f", "keep")]
        cid = 0
        for d in ("in", "in/sub", "in2"):
            for nm in rng.sample(names, rng.randrange(1, 5)):
                cid += 1
                spec.append((d + "/" + nm, "f", "c%d" % cid))
        tpl = rng.choice(["x_%Name()", "%Upper{%Name()}", "%Lower{%Name()}", "%Base()_1%Ext()", "%Count(width=2)%Ext()", "%Name()"])
        inputs = rng.choice([["in"], ["in", "in"], ["in", "in/sub"], ["in/sub", "in"], ["in", "in2", "in"], ["in", "in/" + spec[1][0].split("/")[-1]], ["in2", "in"]])
        inputs = [i for i in inputs if i in ("in", "in2", "in/sub") or any(p == i for p, _, _ in spec)]
        flags = [rng.choice(["-cs", "-ci"])] + (["-r"] if rng.random() < 0.6 else []) + (["-s", "%Name()"] if rng.random() < 0.3 else [])
        res = {}
        for dry in (True, False):
            with Sandbox() as root:
                pipe.materialise(root, spec)
                argv = ["-n"] + flags + (["-dr"] if dry else []) + ["--", tpl] + inputs
                r = run_cli(argv, root, root=root, snapshots=False)
                res[dry] = (r.status, r.report(), r.stderr[-200:])
        stats["real_stream_runs"] = stats.get("real_stream_runs", 0) + 1
        chk.count(("real", tpl, tuple(flags), tuple(inputs), json.dumps(spec)), nontrivial=bool(res[False][1]))
        if res[True][:2] != res[False][:2]:
            chk.oracle_fail("dry run: status %s, report %r; real run: status %s, report %r" % (res[True][0], res[True][1][:4], res[False][0], res[False][1][:4]),
                            {"scenario": {"mode": "name", "strategy": flags[0], "answers": [], "plan": [], "tree": spec, "argv": ["-n"] + flags + ["--", tpl] + inputs},
                             "dry": {"status": res[True][0], "report": res[True][1], "stderr": res[True][2]},
                             "real": {"status": res[False][0], "report": res[False][1], "stderr": res[False][2]}})


def run(chk):
    rng = chk.rng
    quick = chk.tier == "quick"
    n_scn = 900 if quick else 30000
    stats = {"in_scope": 0, "out_of_scope": {}}
    scns = []
    cdir = os.path.join(common.VERIF, "corpus", "C05")
    if os.path.isdir(cdir):
        for f in sorted(os.listdir(cdir)):
            if f.endswith(".json"):
                s = json.load(open(os.path.join(cdir, f)))
                s["plan"] = [dict(e, r=tuple(e["r"])) for e in s["plan"]]
                s["tree"] = [tuple(x) for x in s["tree"]]
                scns.append(s)
    for i in range(n_scn):
        mode = rng.choice(["name", "name", "name", "path", "directory"])
        scns.append(pipe.gen_scenario(rng, mode=mode, dry=False, big=(i % 6 == 0)))
    small = []
    for st in ("stop", "ignore", "override"):
        small += list(pipe.exhaustive_plans(2, strategy=st)) + list(pipe.exhaustive_plans(2, strategy=st, roots=2))
        if not quick:
            small += list(pipe.exhaustive_plans(3, strategy=st))
    stats["exhaustive_small_scope"] = len(small)
    scns += small
    all_s, all_o = [], []
    for s in scns:
        s_real = dict(s); s_real["dry"] = False
        s_dry = dict(s); s_dry["dry"] = True
        real = pipe.run_impl(s_real, keep_snapshots=False)
        dry = pipe.run_impl(s_dry, keep_snapshots=False)
        oracle(chk, s, dry, real, stats)
        chk.count((json.dumps(pipe.slim(s), sort_keys=True, default=str),), nontrivial=len(real["report"]) + len(dry["report"]) > 0)
        all_s += [s_real, s_dry]
        all_o += [real, dry]
    excluded = pipe.check_cases(chk, all_s, all_o)
    real_stream(chk, rng, 120 if quick else 5000, stats)
    for s, o in list(zip(all_s, all_o))[:4]:
        chk.sample({"mode": s["mode"], "strategy": s["strategy"], "dry": s["dry"], "plan": [(e["dir"], e["rel"], e["r"]) for e in s["plan"]][:4],
                    "status": o["status"], "report": o["report"][:3]})
    # the whole-program model (Whole/*.v), on which this property's whole-program theorems rest, against the real command line
    import whole as _whole
    import random as _random
    _ws = {}
    _whole.whole_stream(chk, _random.Random(chk.seed * 7919 + 5), 60 if chk.tier == "quick" else 2500, _ws)
    chk.notes["whole_program_tie"] = _ws
    chk.coverage["rule"] = (
        "each generated scenario (tree, 1-3 input roots with equal relative names, injected plan with free/colliding/chained/cyclic "
        "destinations, order, strategy, scripted answers) is materialised twice and run through the real tempren.cli.main() once with "
        "--dry-run and once without: exit status and the sequence of 'Renamed:/to:' lines (source, destination, override marker) must be "
        "equal and the report lines must be exactly the successful renames; name mode unrestricted, path/directory mode under the "
        "property's own restriction (counted); both runs are also compared with the Coq model")
    d = pipe.stats_of(all_s, all_o)
    d.update(stats)
    chk.coverage["input_distribution"] = d
    chk.coverage["excluded_from_model_comparison"] = excluded
    chk.coverage["trusted_base"] = common.BASE_TRUSTED + [
        "modelled, not verified: pathlib / os.path.lexists / os.path.abspath as used by DryRunRenamer; Linux rename semantics (FS/Model.v)"]
    chk.assumptions += ["both runs start from byte-identical trees (materialised twice from one description)"]


def replay(chk, obj):
    rc = 0
    stats = {"in_scope": 0, "out_of_scope": {}}
    for f in obj.get("failures", [])[:5]:
        scn = f["case"]["scenario"]
        scn["plan"] = [dict(e, r=tuple(e["r"])) for e in scn["plan"]]
        scn["tree"] = [tuple(x) for x in scn["tree"]]
        s_real = dict(scn); s_real["dry"] = False
        s_dry = dict(scn); s_dry["dry"] = True
        real = pipe.run_impl(s_real, keep_snapshots=False)
        dry = pipe.run_impl(s_dry, keep_snapshots=False)
        print("scenario:", json.dumps(pipe.slim(scn), default=str)[:1200])
        print("dry : status", dry["status"], "report", dry["report"], dry["stderr"][-200:])
        print("real: status", real["status"], "report", real["report"], real["stderr"][-200:])
        n = len(chk.oracle_failures)
        oracle(chk, scn, dry, real, stats)
        print("oracle:", "VIOLATED: " + chk.oracle_failures[-1]["what"] if len(chk.oracle_failures) > n else "holds")
        rc |= int(len(chk.oracle_failures) > n)
    return rc
