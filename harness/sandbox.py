"""Scratch directories for cases that need a real filesystem (removed right after use)."""
import os
import shutil
import tempfile

import common


class Sandbox:
    def __init__(self, prefix="verif-sbx-"):
        self.prefix = prefix

    def __enter__(self):
        self.root = os.path.realpath(tempfile.mkdtemp(prefix=self.prefix, dir=common.scratch_root()))
        return self.root

    def __exit__(self, *a):
        shutil.rmtree(self.root, ignore_errors=True)
        return False
