"""C16 — Count yields a gap-free arithmetic sequence per directory (or globally)."""
import common
from common import q_Z, q_bool, q_list, q_opt, q_str, q_strs
import impl


def gen_cfg(rng):
    r = rng.random()
    if r < 0.08:   # invalid configurations (configure must refuse)
        return rng.choice([(-1, 1, 0, False), (0, 0, 0, False), (3, 1, -2, True), (-5, 0, -1, False)])
    start = rng.choice([0, 0, 1, 2, 7, 9, 10, 99, 100, 999, 10**6, 10**18 + 7, rng.randrange(0, 50)])
    step = rng.choice([1, 1, 1, 2, 3, 10, -1, -1, -2, -3, 7, 10**9, -10**17, rng.randrange(-5, 6) or 1])
    width = rng.choice([0, 0, 1, 2, 3, 4, 5, 8, 25, rng.randrange(0, 6)])
    common_ = rng.random() < 0.3
    return (start, step, width, common_)


def cfg_args(rng, cfg):
    """Spell the configuration as template arguments (positional / named / flag mixtures)."""
    start, step, width, common_ = cfg
    style = rng.randrange(4)
    if style == 0:
        parts = [str(start), str(step), str(width)] + (["True"] if common_ else [])
        if not common_ and rng.random() < 0.5:
            parts.append("False")
    elif style == 1:
        parts = ["start=%d" % start, "step=%d" % step, "width=%d" % width]
        if common_:
            parts.append(rng.choice(["common", "common=True", "common=true"]))
        rng.shuffle(parts)
    elif style == 2:
        parts = [str(start), "width=%d" % width, "step=%d" % step] + (["common"] if common_ else [])
    else:
        parts = []
        if start != 0 or rng.random() < 0.5:
            parts.append("start=%d" % start)
        if step != 1 or rng.random() < 0.5:
            parts.append("step=%d" % step)
        if width != 0 or rng.random() < 0.5:
            parts.append("width=%d" % width)
        if common_:
            parts.append("common")
    return "(" + ", ".join(parts) + ")"


def gen_calls(rng, n):
    roots = ["/vroot/r1", "/vroot/r2/in", "/vroot/r1x"][: rng.randrange(1, 4)]
    dirs = [".", "a", "a/b", "b", "a b", "é"][: rng.randrange(1, 7)]
    out = []
    for _ in range(n):
        root = rng.choice(roots)
        d = rng.choice(dirs)
        name = "f%d.txt" % rng.randrange(1000)
        out.append((root, name if d == "." else d + "/" + name))
    return out


def q_cfg(cfg):
    return "{| cc_start := %s; cc_step := %s; cc_width := %s; cc_common := %s |}" % (
        q_Z(cfg[0]), q_Z(cfg[1]), q_Z(cfg[2]), q_bool(cfg[3]))


def q_calls(keys):
    table, idx = [], []
    for k in keys:
        if k not in table:
            table.append(k)
        idx.append(table.index(k))
    return "(%s, %s)" % (q_list([q_strs(k) for k in table], "dirkey"), q_list(["%d%%nat" % i for i in idx], "nat"))


def q_out(o):
    if o is None:
        return "CRaise"
    if isinstance(o, bool):
        raise TypeError("bool from Count")
    if isinstance(o, int):
        return "(CInt %s)" % q_Z(o)
    return "(CStr %s)" % q_str(o)


def dirkey(f):
    return impl.path_parts(f.absolute_path.parent)


def oracle_sequence(chk, cfg, files, outs, case):
    """The property itself, evaluated on what the implementation returned."""
    start, step, width, common_ = cfg
    seen = {}
    k_all = 0
    for f, o in zip(files, outs):
        key = "*" if common_ else str(f.absolute_path.parent)
        k = seen.get(key, 0)
        seen[key] = k + 1
        expected = start + k * step
        if expected < 0:
            if o is not None:
                chk.oracle_fail("value %r produced although the sequence became negative (%d)" % (o, expected), case)
                return
            continue
        if o is None:
            chk.oracle_fail("call %d for %s raised, expected %d" % (k, key, expected), case)
            return
        if width == 0:
            good = (type(o) is int and o == expected)
        else:
            s = str(expected)
            good = (type(o) is str and len(o) == max(width, len(s)) and o.endswith(s)
                    and set(o[: len(o) - len(s)]) <= {"0"})
        if not good:
            chk.oracle_fail("call %d for %s returned %r, expected %d (width %d)" % (k, key, o, expected, width), case)
            return


def link_entries(chk, stats):
    """An entry that is a symbolic link to a file in ANOTHER directory counts in the directory it stands in."""
    import os
    from cli_driver import run_cli
    from sandbox import Sandbox
    for tpl, names in (("%Count()%Ext()", {"0.txt", "1.txt"}), ("%Count(start=5,step=5,width=2)%Ext()", {"05.txt", "10.txt"})):
        for extra in ([], ["-s", "%Name()"]):
            with Sandbox() as root:
                for d in ("t/a", "t/b"):
                    os.makedirs(os.path.join(root, d))
                for rel in ("t/a/x.txt", "t/a/y.txt", "t/b/p.txt"):
                    with open(os.path.join(root, rel), "w") as fh:
                        fh.write(rel)
                os.symlink("../a/x.txt", os.path.join(root, "t/b/l.txt"))
                res = run_cli(["-r"] + extra + ["--", tpl, os.path.join(root, "t")], root, root=root, snapshots=False, trace=False)
                got = {d: set(os.listdir(os.path.join(root, "t", d))) for d in ("a", "b")}
            chk.count(("count-link-entry", tpl, tuple(extra)))
            stats["link_entry_runs"] = stats.get("link_entry_runs", 0) + 1
            if res.status != 0 or got != {"a": names, "b": names}:
                chk.oracle_fail("a directory holding a file and a link to a file elsewhere: status %s, names %r, expected %r in both directories" % (
                    res.status, {k: sorted(v) for k, v in got.items()}, sorted(names)), {"template": tpl, "argv": ["-r"] + extra + [tpl, "<root>/t"], "stderr": res.stderr[-200:]})


def cli_stream(chk, rng, n, stats):
    """%Count through the real command line: options that only concern what is printed (-v, -q), a dry run before the real run,
    recursion and several input directories must not change the numbers.  Expected names from the property itself:
    per directory (or overall with `common`), in processing order (--sort %Name()), start + k * step, zero-padded."""
    import os
    from cli_driver import run_cli
    from sandbox import Sandbox
    flagsets = [[], ["-v"], ["-v", "-v"], ["-q"], ["-q", "-q"], ["-v", "-q"]]
    for i in range(n):
        start, step, width = rng.randrange(0, 12), rng.randrange(1, 4), rng.choice([0, 0, 2, 3])
        common_ = rng.random() < 0.3
        args = ["start=%d" % start, "step=%d" % step] + (["width=%d" % width] if width else []) + (["common"] if common_ else [])
        rng.shuffle(args)
        tpl = "%%Count(%s)_%%Name()" % ", ".join(args)
        roots = ["in", "in2"][: rng.randrange(1, 3)]
        files = []
        for r in roots:
            for d in ["", "sub/", "sub/deep/"][: rng.randrange(1, 4)]:
                for nm in rng.sample(["a.txt", "b.txt", "c.dat", "d", "e.e", "f.txt"], rng.randrange(1, 5)):
                    files.append(r + "/" + d + nm)
        flags = rng.choice(flagsets)
        dry_first = rng.random() < 0.3
        with Sandbox() as root:
            for p in files:
                os.makedirs(os.path.dirname(os.path.join(root, p)), exist_ok=True)
                with open(os.path.join(root, p), "w") as fh:
                    fh.write(p)
            argv = flags + ["-r", "-s", "%Name()", "--", tpl] + roots
            if dry_first:
                run_cli(["-dr"] + argv, root, root=root, snapshots=False, trace=False)
            res = run_cli(argv, root, root=root, snapshots=False, trace=False)
            got = {}
            for dp, _dn, fns in os.walk(root):
                for fn in fns:
                    with open(os.path.join(dp, fn)) as fh:
                        got[fh.read()] = os.path.relpath(os.path.join(dp, fn), root)
        # processing order: all files sorted by name (stable: gathering order among equal names is unknown, so equal names
        # in one counting scope are avoided by construction of the expectation below)
        order = sorted(files, key=lambda p: os.path.basename(p))
        seen, exp, ambiguous = {}, {}, False
        names_in_scope = {}
        for p in order:
            key = "*" if common_ else os.path.dirname(p)
            names_in_scope.setdefault(key, []).append(os.path.basename(p))
        if any(len(v) != len(set(v)) for v in names_in_scope.values()):
            ambiguous = True          # `common` with equal names in several directories: their relative order is not determined
        for p in order:
            key = "*" if common_ else os.path.dirname(p)
            k = seen.get(key, 0)
            seen[key] = k + 1
            v = str(start + k * step)
            if width:
                v = v.rjust(width, "0")
            exp[p] = os.path.join(os.path.dirname(p), v + "_" + os.path.basename(p))
        stats["cli_runs"] = stats.get("cli_runs", 0) + 1
        chk.count(("count-cli", tpl, tuple(files), tuple(flags), dry_first))
        case = {"argv": argv, "files": files, "dry_run_first": dry_first, "status": res.status, "stderr": res.stderr[-300:]}
        if ambiguous:
            stats["cli_ambiguous_order"] = stats.get("cli_ambiguous_order", 0) + 1
            continue
        if res.status != 0:
            chk.oracle_fail("%%Count through the command line: exit status %s on a plan whose numbered names are all free" % res.status, case)
        elif got != exp:
            bad = sorted(p for p in exp if got.get(p) != exp[p])[:4]
            chk.oracle_fail("%%Count through the command line: %r" % ([(p, got.get(p), exp[p]) for p in bad],), case)


def run(chk):
    rng = chk.rng
    n_single = 3000 if chk.tier == "quick" else 60000
    n_multi = 600 if chk.tier == "quick" else 12000
    stats = {"invalid_cfg": 0, "common": 0, "negative_step": 0, "raised": 0, "width_lt_len": 0,
             "max_calls": 0, "dirs_per_case": {}, "via": {"direct": 0, "context": 0, "alias": 0, "multi": 0}}
    cases = []
    metas = []
    for i in range(n_single):
        cfg = gen_cfg(rng)
        n = rng.choice([1, 2, 3, 5, 8, 13, 30]) if rng.random() < 0.9 else rng.randrange(30, 120)
        calls = gen_calls(rng, n)
        args = cfg_args(rng, cfg)
        via = rng.choice(["direct", "direct", "context", "alias"])
        if via == "direct":
            text, reg = "%Count" + args, None
        elif via == "context":
            text, reg = "%Lower{%Count" + args + "}", None
        else:
            reg = impl.registry(aliases={"Num": "%Count" + args})
            text = "%Num()"
        stats["via"][via] += 1
        case = {"cfg": cfg, "template": text, "calls": calls, "via": via}
        try:
            with impl.quiet_streams():
                pat = impl.compile_template(text, reg)
        except impl.TemplateError as e:
            obs = None
            stats["invalid_cfg"] += 1
        else:
            files = [impl.mkfile(r, rel) for r, rel in calls]
            obs = []
            for f in files:
                try:
                    if via == "direct":
                        v = pat.sub_elements[0].process(f)     # raw value: int or str
                    else:
                        v = pat.process(f)                     # through str(): always text
                        if cfg[2] == 0 and via != "direct":
                            v = int(v) if v.lstrip("-").isdigit() else v
                    obs.append(v)
                except ValueError:
                    obs.append(None)
                    stats["raised"] += 1
            oracle_sequence(chk, cfg, files, obs, case)
            stats["dirs_per_case"][len({str(f.absolute_path.parent) for f in files})] = \
                stats["dirs_per_case"].get(len({str(f.absolute_path.parent) for f in files}), 0) + 1
            keys = [dirkey(f) for f in files]
        if cfg[3]:
            stats["common"] += 1
        if cfg[1] < 0:
            stats["negative_step"] += 1
        if cfg[2] and cfg[2] < len(str(cfg[0] + abs(cfg[1]) * n)):
            stats["width_lt_len"] += 1
        stats["max_calls"] = max(stats["max_calls"], n)
        chk.count((cfg, tuple(calls), via))
        if obs is None:
            cases.append("(%s, ([], []), None)" % q_cfg(cfg))
        else:
            cases.append("(%s, %s, Some %s)" % (
                q_cfg(cfg), q_calls(keys), q_list([q_out(o) for o in obs], "count_out")))
        metas.append(case)
        if i < 3:
            chk.sample({"template": text, "calls": calls[:6], "observed": [repr(o) for o in (obs or [])][:6]})
    # scale: hundreds of directories visited round-robin (every directory is returned to after all the others),
    # so a counter table that is bounded, evicted or reset along the way shows
    for i in range(3 if chk.tier == "quick" else 12):
        nd = rng.choice([300, 520, 1100]) if i else 300
        cfg = (rng.randrange(0, 5), rng.randrange(1, 4), rng.choice([0, 3]), False)
        text = "%Count" + cfg_args(rng, cfg)
        dirs_ = ["d%04d" % j if j % 3 else "deep/d%04d/x" % j for j in range(nd)]
        calls = [("/vroot/big", "%s/%s.txt" % (d, nm)) for nm in ("a", "b", "c") for d in dirs_]
        with impl.quiet_streams():
            pat = impl.compile_template(text, None)
        files = [impl.mkfile(r, rel) for r, rel in calls]
        obs = []
        for f in files:
            try:
                obs.append(pat.sub_elements[0].process(f))
            except ValueError:
                obs.append(None)
        case = {"cfg": cfg, "template": text, "calls": "3 rounds over %d directories" % nd, "via": "direct"}
        oracle_sequence(chk, cfg, files, obs, case)
        stats["many_directories"] = stats.get("many_directories", []) + [nd]
        chk.count((cfg, nd, "scale"))
        cases.append("(%s, %s, Some %s)" % (q_cfg(cfg), q_calls([dirkey(f) for f in files]), q_list([q_out(o) for o in obs], "count_out")))
        metas.append(case)
    mism, errs = common.run_model_cases(["Tags.Count", "Corr.CountCorr"], "count_case", "count_case_ok", cases)
    for e in errs:
        chk.proof_failures.append({"what": "coqc on generated cases (Corr.CountCorr.count_case_ok)", "log": e["output"]})
    for m in mism:
        chk.corr_fail("Corr.CountCorr.count_case_ok (Tags.Count.count_run vs tempren.tags.core.CountTag)", metas[m])

    # several Count tags in one template: each follows its own sequence
    cases2, metas2 = [], []
    for i in range(n_multi):
        k = rng.randrange(2, 4)
        cfgs = []
        while len(cfgs) < k:
            c = gen_cfg(rng)
            if c[0] >= 0 and c[1] != 0 and c[2] >= 0:
                cfgs.append(c)
        text = "".join("%Count" + cfg_args(rng, c) + "_" for c in cfgs)
        reg2 = None
        if rng.random() < 0.35:
            # one alias used several times (and through a second alias): every occurrence must be an
            # independent instance, exactly like the pattern written out k times
            cfgs = [cfgs[0]] * k
            reg2 = impl.registry(aliases={"Num": "%Count" + cfg_args(rng, cfgs[0]), "Num2": "%Num()"})
            text = "".join(rng.choice(["%Num()_", "%Num2()_", "%Lower{%Num()}_"]) for _ in range(k))
            stats["via"]["alias_twice"] = stats["via"].get("alias_twice", 0) + 1
        calls = gen_calls(rng, rng.choice([2, 4, 7, 12]))
        with impl.quiet_streams():
            pat = impl.compile_template(text, reg2)
        files = [impl.mkfile(r, rel) for r, rel in calls]
        obs, used = [], []
        for f in files:
            try:
                obs.append(pat.process(f)); used.append(f)
            except ValueError:
                obs.append(None); used.append(f)
                break   # columns would de-align after a partial render (see Corr/CountCorr.v)
        stats["via"]["multi"] += 1
        case = {"cfgs": cfgs, "template": text, "calls": calls[: len(used)]}
        # oracle: split the names and check each column
        cols_ok = all(o is None or o.count("_") == k for o in obs)
        if not cols_ok:
            chk.oracle_fail("rendered name has wrong shape", case)
        else:
            for j, c in enumerate(cfgs):
                col = []
                stop = False
                for o in obs:
                    if o is None:
                        break
                    t = o.split("_")[j]
                    col.append(int(t) if c[2] == 0 else t)
                oracle_sequence(chk, c, used[: len(col)], col, case)
        chk.count((tuple(cfgs), tuple(calls)))
        cases2.append("(%s, %s, %s)" % (
            q_list([q_cfg(c) for c in cfgs]), q_calls([dirkey(f) for f in used]),
            q_list([q_opt(o, q_str, "str") for o in obs], "option str")))
        metas2.append(case)
        if i < 2:
            chk.sample({"template": text, "calls": calls[:4], "observed": obs[:4]})
    mism, errs = common.run_model_cases(["Tags.Count", "Corr.CountCorr"], "multi_case", "multi_case_ok", cases2)
    for e in errs:
        chk.proof_failures.append({"what": "coqc on generated cases (Corr.CountCorr.multi_case_ok)", "log": e["output"]})
    for m in mism:
        chk.corr_fail("Corr.CountCorr.multi_case_ok (several Count tags in one template)", metas2[m])

    cli_stream(chk, rng, 120 if chk.tier == "quick" else 3000, stats)
    link_entries(chk, stats)
    # whole-program model against the real command line (templates with %Count among them), no plan injection
    import whole
    import random as _random
    whole.whole_stream(chk, _random.Random(chk.seed * 7919 + 16), 120 if chk.tier == "quick" else 5000, stats)
    chk.coverage["rule"] = (
        "random (start, step, width, common) incl. invalid ones, spelled positionally/named/flag; random interleavings "
        "of files over 1-3 input roots x 1-6 directories; the real CountTag driven through compiled templates "
        "(direct, inside a context, inside an alias, 2-3 Count tags in one template); a case is distinct by "
        "(configuration, call sequence, route); all are non-trivial (>= 1 call or a refused configuration)")
    chk.coverage["input_distribution"] = stats
    chk.coverage["trusted_base"] = common.BASE_TRUSTED + [
        "modelled, not verified: Python int arithmetic (Z), str(int) (Decimal via stdlib N.to_uint), str.zfill for unsigned text, defaultdict keyed by absolute parent path"]
    chk.assumptions += ["the real CountTag is exercised only on the generated call sequences (sampled tie)",
                        "directory identity = equality of the absolute parent path (pathlib), as in the code"]
