"""C15 - an alias is indistinguishable from its pattern written in place.

Three ties, all on generated alias sets / host templates (one PRNG, VERIF_SEED):

 (i)   CLI pairs: tempren.cli.main() in-process, `-a N=P ... HOST` against the INLINED text
       (Python mirror of Tpl/Alias.v `inline`, printed with the nested spelling for piped
       alias patterns) on two identically built trees -> equal exit status and final tree;
       invalid uses (arguments, context, pipe position), unparsable / unbindable / cyclic
       aliases -> exit status 3, no traced filesystem call, tree bit-identical.
 (ii)  CLI pairs in filter / sort position: `%N()` against a dictionary literal holding, per
       file, the text the inlined pattern renders to (one str value).
 (iii) library level (TemplateCompiler on the real registry): per file strings of process /
       process_as_expression for the alias-bound and the inlined template; the oracle for
       expression mode is assembled piece by piece (raw text verbatim, repr(value) of a
       top-level tag, repr(str) of what the inlined alias pattern renders); every real tag
       instance is wrapped from outside to record (factory, arguments, call number, file,
       context) -> value; the Coq model (bind / inline / run_names / run_exprs) is evaluated on
       the real parser's trees with these tables and compared (Corr/AliasCorr.v).
"""
import glob
import json
import os
import time
from pathlib import Path, PosixPath

import common
from common import q_Z, q_bool, q_list, q_nat, q_opt, q_str
import impl
import cli_driver
from sandbox import Sandbox
from tempren.alias import AliasTag, AliasTagFactory
from tempren.exceptions import MissingMetadataError
from tempren.pipeline import build_tag_registry
from tempren.primitives import File
from tempren.template.ast import RawText, TagInstance, TagPlaceholder
from tempren.template.compiler import TemplateCompiler
from tempren.template.exceptions import TemplateError
from tempren.template.parser import TemplateParser

_BASE = {}
IMPORTS = ["Py.PathLib", "Py.Repr", "Tpl.Registry", "Tpl.Signature", "Tpl.Alias", "Corr.AliasCorr"]
FUEL = 40
MAX_INLINE_DEPTH = 12

EXC_CODES = {"TemplateSyntaxError": 4, "ConfigurationError": 5, "ContextMissingError": 6,
             "ContextForbiddenError": 7, "UnknownNameError": 8, "UnknownCategoryError": 9,
             "AmbiguousNameError": 10}

# =========================================================================== generator: pattern ASTs
RAW_CHARS = "abcxyzABQ0123_-. "
RAW_EXTRA = "éßΩ"
ALIAS_NAMES = ["A", "B", "Cc", "D1", "My_x", "Zed"]
CLASH_NAMES = ["Upper", "Name", "Count"]


def raw(t):
    return {"k": "raw", "t": t}


def gen_raw(rng, expr_safe=False):
    n = rng.choice([1, 1, 2, 3, 5])
    chars = RAW_CHARS if (expr_safe or rng.random() < 0.8) else RAW_CHARS + RAW_EXTRA
    return raw("".join(rng.choice(chars) for _ in range(n)))


def p_val(v):
    if isinstance(v, bool):
        return "True" if v else "False"
    if isinstance(v, int):
        return str(v)
    return "'" + v + "'"


def p_args(args):
    out = []
    for a in args:
        if a[0] == "p":
            out.append(p_val(a[1]))
        elif a[0] == "k":
            out.append("%s=%s" % (a[1], p_val(a[2])))
        else:
            out.append(a[1])
    return ", ".join(out)


def p_node(n):
    if n["k"] == "raw":
        return n["t"]
    name = n["spell"] if n["k"] == "alias" else n["name"]
    s = "%" + name
    if n["args"] or n["ctx"] is None or not n.get("noparen"):
        s += "(" + p_args(n["args"]) + ")"
    if n["ctx"] is not None:
        s += "{" + p_seq(n["ctx"]) + "}"
    return s


def p_seq(seq):
    return "".join(p_node(e) for e in seq["els"]) + "".join("|" + p_node(t) for t in seq["pipes"])


def seq(els, pipes=()):
    return {"els": list(els), "pipes": list(pipes)}


def nested_els(s):
    """the elements of a sequence with its pipe list folded into nested contexts"""
    els = s["els"]
    for t in s["pipes"]:
        els = [dict(t, ctx=seq(els), noparen=False)]
    return els


def count_args(rng):
    return rng.choice([
        [], [("p", 5)], [("k", "start", 3)], [("p", 1), ("p", 2)],
        [("k", "start", 1), ("k", "step", 2), ("k", "width", 3)], [("k", "width", 2)],
        [("k", "common", True)], [("f", "common")], [("p", 0), ("p", 1), ("p", 0), ("p", True)],
        [("p", 10), ("k", "step", -3)], [("k", "step", 10), ("f", "common")],
    ])


def gen_tag0(rng, stateless=False):
    c = rng.random()
    if c < 0.35 and not stateless:
        return {"k": "tag", "name": rng.choice(["Count", "Count", "Core.Count", "core.Count"]),
                "args": count_args(rng), "ctx": None}
    name = rng.choice(["Name", "Base", "Ext", "Name", "Core.Name", "Size", "Filesystem.Size", "core.Ext", "Dir"])
    if name == "Dir" and rng.random() < 0.7:
        name = "Base"
    return {"k": "tag", "name": name, "args": [], "ctx": None}


def ctx_tag_head(rng):
    """(name, args, may be written without parentheses)"""
    c = rng.randrange(16)
    if c < 5:
        return rng.choice(["Upper", "Lower", "Capitalize", "Title", "Text.Upper", "text.Lower", "Unidecode", "Sanitize"]), [], True
    if c == 5:
        return "Trim", [("p", rng.choice([0, 1, 2, 3, 5, -1]))] + rng.choice([[], [("k", "left", True)], [("f", "right")]]), False
    if c == 6:
        return "Pad", [("p", rng.choice([0, 2, 4, 7]))] + rng.choice([[], [("p", "0")], [("p", "_"), ("f", "left")]]), False
    if c == 7:
        return "Strip", rng.choice([[], [("p", "ab")], [("p", "x"), ("k", "left", True)]]), False
    if c == 8:
        return "Collapse", rng.choice([[], [("p", "ab")]]), False
    if c == 9:
        return "SplitCase", rng.choice([[], [("p", "_")]]), False
    if c == 10:
        return "Replace", [("p", rng.choice(["a", "x", "b"])), ("p", rng.choice(["", "Q", "yy"]))], False
    if c == 11:
        return "Remove", [("p", rng.choice(["a", "x", "1"]))], False
    if c == 12:
        return "Default", [("p", rng.choice(["dflt", "0"]))], False
    if c == 13:
        return rng.choice(["Base", "Ext", "Name"]), [], False
    return rng.choice(["Upper", "Lower", "Title"]), [], True


def gen_ctx_tag(rng, ctx):
    name, args, bare = ctx_tag_head(rng)
    return {"k": "tag", "name": name, "args": args, "ctx": ctx, "noparen": bare and rng.random() < 0.5}


def alias_ref(rng, name, args=(), ctx=None):
    spell = rng.choice([name, name, name, "Alias." + name, "alias." + name])
    return {"k": "alias", "name": name, "spell": spell, "args": list(args), "ctx": ctx}


def gen_seq(rng, depth, refs, stateless=False, p_alias=0.3, expr_safe=False, allow_pipes=True):
    els = []
    for _ in range(rng.choice([1, 1, 2, 2, 3])):
        c = rng.random()
        if refs and c < p_alias:
            els.append(alias_ref(rng, rng.choice(refs)))
        elif c < p_alias + 0.25:
            els.append(gen_raw(rng, expr_safe))
        elif c < p_alias + 0.5 or depth <= 0:
            els.append(gen_tag0(rng, stateless))
        else:
            els.append(gen_ctx_tag(rng, gen_seq(rng, depth - 1, refs, stateless, p_alias, expr_safe)))
    pipes = []
    if allow_pipes and rng.random() < 0.25:
        for _ in range(rng.choice([1, 1, 2])):
            name, args, _b = ctx_tag_head(rng)
            pipes.append({"k": "tag", "name": name, "args": args, "ctx": None})
    return seq(els, pipes)


INVALID_BIND = ["%Nope()", "%Upper()", "%Count(){x}", "%Count(step=0)", "%Trim(){x}", "%Count(1,2,3,True,5)",
                "%Text.Nope{a}", "%Nocat.Name()", "x%Count(bogus=1)", "%Pad('w'){x}%Nope()", "%Lower{%Upper()}"]
INVALID_SYNTAX = ["%Upper{", "%", "%Name(", "x%Upper{a}}", "%Count(,)", "%{x}"]


# --------------------------------------------------------------------------- the inlining mirror (Tpl/Alias.v inline_with)

def is_alias_use(e, aliases):
    """does the placeholder resolve to one of the aliases (a bare name shared with a built-in tag
    is ambiguous, hence no alias use)"""
    if e["k"] != "alias" or e["name"] not in aliases:
        return False
    return "." in e["spell"] or e["name"] not in builtin_names()


def builtin_names():
    if "names" not in _BASE:
        _BASE["names"] = {t for _c, t, _i in base_lib().entries}
    return _BASE["names"]


def inl_seq(s, aliases, depth=0):
    els = []
    for e in s["els"]:
        r = inl_el(e, aliases, depth)
        if r is None:
            return None
        els += r
    pipes = []
    for t in s["pipes"]:
        if is_alias_use(t, aliases):
            return None                      # an alias in pipe position is given a context
        pipes.append(t)
    return seq(els, pipes)


def inl_el(e, aliases, depth):
    if e["k"] == "raw":
        return [e]
    if is_alias_use(e, aliases):
        if e["args"] or e["ctx"] is not None:
            return None
        body = aliases[e["name"]]
        if depth >= MAX_INLINE_DEPTH or not isinstance(body, dict):
            return None
        r = inl_seq(body, aliases, depth + 1)
        if r is None:
            return None
        return nested_els(r)
    if e["ctx"] is None:
        return [e]
    c = inl_seq(e["ctx"], aliases, depth)
    if c is None:
        return None
    return [dict(e, ctx=c)]


def reachable_bad(s, aliases, seen=None):
    """does binding the sequence meet an alias use that the property says must be rejected:
    arguments / context / pipe position, an unparsable or cyclic alias (followed through the
    patterns of the aliases used)"""
    seen = seen or ()
    for t in s["pipes"]:
        if is_alias_use(t, aliases):
            return True
    for e in s["els"]:
        if e["k"] == "raw":
            if e.get("bad"):
                return True
            continue
        if is_alias_use(e, aliases):
            if e["args"] or e["ctx"] is not None:
                return True
            if e["name"] in seen:
                return True
            body = aliases[e["name"]]
            if not isinstance(body, dict):
                return True              # invalid pattern text
            if reachable_bad(body, aliases, seen + (e["name"],)):
                return True
        elif e["ctx"] is not None and reachable_bad(e["ctx"], aliases, seen):
            return True
    return False


# --------------------------------------------------------------------------- case generation

TREE_NAMES = ["a.txt", "B.TXT", "img_01.jpg", "notes", "x.y.z", "b c.txt", "Qa.md", "zz9", "été.txt", "ab_AB.Txt"]


def gen_tree(rng, recursive):
    names = rng.sample(TREE_NAMES, rng.choice([2, 3, 3, 4, 5]))
    tree = [[n, "x" * rng.choice([0, 1, 2, 7, 12])] for n in names]
    if recursive:
        for n in rng.sample(TREE_NAMES, rng.choice([1, 2, 3])):
            tree.append(["sub/" + n, "y" * rng.choice([1, 3])])
        if rng.random() < 0.5:
            tree.append(["sub2/" + rng.choice(TREE_NAMES), "z"])
    return tree


def body_text(b):
    return p_seq(b) if isinstance(b, dict) else b


def gen_case(rng, kind=None):
    kind = kind or rng.choice(["valid"] * 7 + ["args", "cyclic", "invalid", "invalid", "clash", "expr", "expr", "unused"])
    stateless = kind == "expr"
    n_al = rng.choice([1, 2, 2, 3, 4])
    names = rng.sample(ALIAS_NAMES, n_al)
    if kind == "clash":
        names[0] = rng.choice(CLASH_NAMES)
    aliases = {}
    order = []
    for i, nm in enumerate(names):
        refs = order[:] if rng.random() < 0.8 else []
        aliases[nm] = gen_seq(rng, rng.choice([0, 1, 1, 2]), refs, stateless, 0.35, expr_safe=stateless)
        order.append(nm)
    host_refs = names[:]
    used = rng.choice(names)
    if kind == "cyclic":
        # close a cycle: some alias gets a reference to itself or to a later one
        i = rng.randrange(n_al)
        j = rng.randrange(i, n_al)
        aliases[names[i]]["els"].insert(rng.randrange(len(aliases[names[i]]["els"]) + 1), alias_ref(rng, names[j]))
        if j != i:
            aliases[names[j]]["els"].insert(0, alias_ref(rng, names[i]))
        used = names[rng.randrange(i, n_al)] if rng.random() < 0.5 else names[i]
    elif kind in ("invalid", "unused"):
        i = rng.randrange(n_al)
        if rng.random() < 0.35:
            aliases[names[i]] = rng.choice(INVALID_SYNTAX)
        else:
            # parses, but cannot be bound; kept verbatim (an opaque element of the generator's AST)
            aliases[names[i]] = seq([{"k": "raw", "t": rng.choice(INVALID_BIND), "bad": True}])
        used = names[i]
        if kind == "unused":
            # nobody refers to the invalid alias
            host_refs = []
            for nm in names:
                if isinstance(aliases[nm], dict):
                    strip_refs(aliases[nm], {names[i]})
            host_refs = [nm for nm in names if nm != names[i]]
    host = gen_seq(rng, rng.choice([0, 1, 2]), host_refs, stateless, 0.45)
    if kind != "unused" and not mentions(host, set(names)):
        host["els"].insert(rng.randrange(len(host["els"]) + 1), alias_ref(rng, used))
    if kind in ("cyclic", "invalid") and rng.random() < 0.7 and not mentions(host, {used}):
        host["els"].append(alias_ref(rng, used))
    if kind == "valid" and rng.random() < 0.35:
        # the same alias several times (independent instances)
        for _ in range(rng.choice([1, 2])):
            host["els"].append(alias_ref(rng, rng.choice(names)))
    if kind == "args":
        how = rng.randrange(4)
        nm = rng.choice(names)
        if how == 0:
            bad = alias_ref(rng, nm, args=rng.choice([[("p", 1)], [("k", "x", 1)], [("f", "flag")], [("p", "s"), ("p", 2)]]))
        elif how == 1:
            bad = alias_ref(rng, nm, ctx=gen_seq(rng, 0, [], False))
        elif how == 2:
            bad = alias_ref(rng, nm, ctx=seq([]))
        else:
            bad = None
            host["pipes"].append(alias_ref(rng, nm))
        if bad is not None:
            tgt = host
            if rng.random() < 0.3:
                # inside the context of a tag, or inside another alias
                other = [x for x in names if x != nm and isinstance(aliases[x], dict) and not mentions(aliases[nm], {x})]
                if other and rng.random() < 0.5:
                    tgt = aliases[other[0]]
                    if not mentions(host, {other[0]}):
                        host["els"].append(alias_ref(rng, other[0]))
                else:
                    inner = seq([gen_raw(rng)])
                    host["els"].append(gen_ctx_tag(rng, inner))
                    tgt = inner
            tgt["els"].insert(rng.randrange(len(tgt["els"]) + 1), bad)
    recursive = rng.random() < 0.35 and kind != "expr"
    mode = "path" if (rng.random() < 0.15 and kind != "expr") else "name"
    if mode == "path" and rng.random() < 0.6:
        host["els"].insert(0, raw(rng.choice(["d/", "new dir/", "k/l/"])))
    inl = inl_seq(host, aliases)
    syntax_invalid_used = any(not isinstance(aliases[n], dict) and aliases[n] in INVALID_SYNTAX for n in aliases)
    case = {
        "kind": kind,
        "aliases": [[n, body_text(aliases[n])] for n in names],
        "host": p_seq(host),
        "inlined": p_seq(inl) if inl is not None else None,
        "reject": reachable_bad(host, aliases),
        "same_registry": kind == "clash" or rng.random() < 0.3,
        "mode": mode, "recursive": recursive,
        "tree": gen_tree(rng, recursive),
        "pieces": None, "expr": None,
    }
    if inl is not None:
        case["pieces"] = [["raw", e["t"]] if e["k"] == "raw" else
                          (["alias", p_seq(inl_seq(seq([e]), aliases))] if is_alias_use(e, aliases)
                           else ["tag", p_node(inl_el(e, aliases, 0)[0])])
                          for e in nested_els(host)]
    if kind == "expr":
        case["expr"] = gen_expr(rng, names)
        case["expr_bodies"] = {}
        for nm in names:
            r = inl_seq(aliases[nm], aliases) if isinstance(aliases[nm], dict) else None
            case["expr_bodies"][nm] = p_seq(r) if r is not None else None
    return case


def strip_refs(s, drop):
    s["els"] = [e for e in s["els"] if not (e["k"] == "alias" and e["name"] in drop)] or [raw("q")]
    for e in s["els"]:
        if e["k"] != "raw" and e["ctx"] is not None:
            strip_refs(e["ctx"], drop)
    s["pipes"] = [t for t in s["pipes"] if not (t["k"] == "alias" and t["name"] in drop)]


def mentions(s, names):
    for e in s["els"] + s["pipes"]:
        if e["k"] == "alias" and e["name"] in names:
            return True
        if e["k"] != "raw" and e["ctx"] is not None and mentions(e["ctx"], names):
            return True
    return False


def gen_expr(rng, names):
    x = rng.choice(names)
    y = rng.choice(names)
    if rng.random() < 0.5:
        e = rng.choice(["%{X}()", "(len(%{X}()), %{X}())", "%{X}().lower()", "%{X}() + %Name()",
                        "(%{Y}(), %{X}())", "%Alias.{X}()"])
        opt = "-s"
    else:
        e = rng.choice(["len(%{X}()) > 3", "'a' in %{X}()", "%{X}() < 'm'", "%{X}() == %{Y}()",
                        "%{X}().isdigit()", "%{X}() != 0 and %Size() >= 1", "isinstance(%{X}(), str) and len(%{X}()) % 2 == 0",
                        "%{X}().startswith('a') or %{Y}().endswith('t')", "%alias.{X}() >= %Name()"])
        opt = "-ft"
    return {"opt": opt, "text": e.replace("{X}", x).replace("{Y}", y), "invert": rng.random() < 0.3}


# =========================================================================== the implementation, library level

class Lib:
    """the real registry for one alias set, with factory ids in registration order"""

    def __init__(self, aliases):
        with impl.quiet_streams():
            self.reg = build_tag_registry({}, dict(aliases))
        self.entries = []
        self.ids = {}
        for cat in self.reg.category_map.values():
            for t, f in cat.tag_map.items():
                self.ids[id(f)] = len(self.entries)
                self.entries.append((str(cat.name), str(t), len(self.entries)))
        self.parser = TemplateParser()

    def parse(self, text):
        with impl.quiet_streams():
            return self.parser.parse(text)

    def alias_table(self):
        out = []
        for cat in self.reg.category_map.values():
            for t, f in cat.tag_map.items():
                if isinstance(f, AliasTagFactory):
                    try:
                        body = self.parse(f._pattern_text)
                    except TemplateError:
                        body = None
                    out.append((self.ids[id(f)], body))
        return out


def base_lib():
    if "lib" not in _BASE:
        _BASE["lib"] = Lib([])
    return _BASE["lib"]


def exc_code(e):
    if isinstance(e, TemplateError):
        return EXC_CODES.get(type(e).__name__, 14)
    return 14


class Unsupported(Exception):
    pass


def args_key(u):
    return (tuple((type(a).__name__, a) for a in u.args),
            tuple((k, type(v).__name__, v) for k, v in u.kwargs.items()))


def observe(lib, text, files, expr):
    """compile + render with every real (non-alias) tag instance wrapped from outside.
    -> (obs, calls) where calls = [(fid, args_key, n, file index, ctx, out)]"""
    comp = TemplateCompiler(lib.reg)
    try:
        with impl.quiet_streams():
            pat = comp.compile(text)
    except TemplateError as e:
        return {"bind": exc_code(e), "cls": type(e).__name__, "msg": str(e)[:200], "render": []}, []
    except Exception as e:   # anything else escapes cli.main's TemplateError clause
        return {"bind": 14, "cls": type(e).__name__, "msg": str(e)[:200], "render": []}, []
    calls = []
    cur = {"file": None}

    def wrap(tag, fid, akey):
        orig = tag.process
        st = {"n": 0}

        def spy(file, context):
            n = st["n"]
            st["n"] += 1
            try:
                v = orig(file, context)
            except MissingMetadataError:
                calls.append((fid, akey, n, cur["file"], context, ("missing",)))
                raise
            except Exception as exc:
                calls.append((fid, akey, n, cur["file"], context, ("raise", type(exc).__name__)))
                raise
            calls.append((fid, akey, n, cur["file"], context, ("val", v)))
            return v
        tag.process = spy

    def instrument(u_els, b_els):
        if len(u_els) != len(b_els):
            raise Unsupported("bound tree shape")
        for u, b in zip(u_els, b_els):
            if isinstance(u, RawText):
                continue
            if not isinstance(u, TagPlaceholder) or not isinstance(b, TagInstance):
                raise Unsupported("bound tree shape")
            fac = lib.reg.get_tag_factory(u.tag_name)
            if isinstance(b.tag, AliasTag):
                instrument(lib.parse(fac._pattern_text).sub_elements, b.tag.pattern.sub_elements)
            else:
                wrap(b.tag, lib.ids[id(fac)], args_key(u))
                if u.context is not None:
                    instrument(u.context.sub_elements, b.context.sub_elements)
    instrumented = True
    try:
        instrument(lib.parse(text).sub_elements, pat.sub_elements)
    except Unsupported:
        instrumented = False
    renders = []
    for i, f in enumerate(files):
        cur["file"] = i
        try:
            s = pat.process_as_expression(f) if expr else pat.process(f)
            renders.append(["s", s])
        except Exception as e:
            renders.append(["e", type(e).__name__])
            break
    return {"bind": None, "render": renders, "instrumented": instrumented}, calls


def expected_expr(lib0, pieces, files):
    """expression mode assembled piece by piece from the INLINED texts (no alias anywhere)"""
    comp = TemplateCompiler(lib0.reg)
    pats = []
    for kind, text in pieces:
        if kind == "raw":
            pats.append(("raw", text))
        else:
            with impl.quiet_streams():
                pats.append((kind, comp.compile(text)))
    out = []
    for f in files:
        try:
            s = ""
            for kind, p in pats:
                if kind == "raw":
                    s += p
                elif kind == "alias":
                    s += repr(p.process(f))          # the rendered text, one str value
                else:
                    s += p.process_as_expression(f)
            out.append(["s", s])
        except Exception as e:
            out.append(["e", type(e).__name__])
            break
    return out


# =========================================================================== Gallina

def q_argval(v):
    if isinstance(v, bool):
        return "(ABool %s)" % q_bool(v)
    if isinstance(v, int):
        return "(AInt %s)" % q_Z(v)
    if isinstance(v, str):
        return "(AStr %s)" % q_str(v)
    raise Unsupported("argument %r" % (v,))


def q_targs(args, kwargs):
    return "(mkArgs %s %s)" % (q_list([q_argval(a) for a in args], "argval"),
                               q_list(["(%s, %s)" % (q_str(k), q_argval(v)) for k, v in kwargs.items()], "str * argval"))


def q_targs_key(akey):
    pos, kw = akey
    return "(mkArgs %s %s)" % (q_list([q_argval(v) for _t, v in pos], "argval"),
                               q_list(["(%s, %s)" % (q_str(k), q_argval(v)) for k, _t, v in kw], "str * argval"))


def q_qname(qn):
    cat = str(qn.category) if qn.category is not None else None
    return "(%s, %s)" % (q_opt(cat, q_str, "str"), q_str(str(qn.name)))


def q_utree(u):
    if isinstance(u, RawText):
        return "(URaw %s)" % q_str(u.text)
    if isinstance(u, TagPlaceholder):
        hc = u.context is not None
        return "(UTag %s %s %s %s)" % (q_qname(u.tag_name), q_targs(u.args, u.kwargs), q_bool(hc),
                                       q_upat(u.context.sub_elements) if hc else "(@nil utree)")
    raise Unsupported("element %r" % (u,))


def q_upat(els):
    return q_list([q_utree(e) for e in els], "utree")


def q_value(v):
    if v is None:
        return "VNone"
    if type(v) is bool:
        return "(VBool %s)" % q_bool(v)
    if type(v) is int:
        return "(VInt %s)" % q_Z(v)
    if type(v) is str:
        return "(VStr %s)" % q_str(v)
    if type(v) is PosixPath:
        root = len(v.root)
        parts = [x for x in v.parts if x != v.root] if v.root else list(v.parts)
        return "(VPath {| pp_root := %d%%nat; pp_parts := %s |})" % (root, q_list([q_str(x) for x in parts], "str"))
    raise Unsupported("value %r" % (v,))


def q_tout(o):
    if o[0] == "val":
        return "(OVal %s)" % q_value(o[1])
    if o[0] == "missing":
        return "OMissing"
    return "(ORaise ExOther)"


def q_side(obs):
    rs = []
    for k, v in obs["render"]:
        rs.append("(RStr %s)" % q_str(v) if k == "s" else "RErr")
    return "(mkSide %s %s)" % (q_opt(obs["bind"], lambda c: "%d" % c, "N"), q_list(rs, "robs"))


def q_entry(e):
    return "(%s, %s, %d)" % (q_str(e[0]), q_str(e[1]), e[2])


def walk_placeholders(els, f):
    for u in els:
        if isinstance(u, TagPlaceholder):
            f(u)
            if u.context is not None:
                walk_placeholders(u.context.sub_elements, f)


def printable_ranges_of(strings):
    pts = sorted({ord(ch) for s in strings for ch in s if ord(ch) >= 0x80 and ch.isprintable()})
    return q_list(["(%d,%d)" % (c, c) for c in pts], "N * N")


def model_case(lib, lib0, case, host_u, inl_u, expr, obs_a, calls_a, obs_i, calls_i, nfiles):
    """-> Gallina term of type alias_case (raises Unsupported)"""
    base_n = len(base_lib().entries)
    if lib.entries[:base_n] != base_lib().entries:
        raise Unsupported("registry prefix")
    extra = lib.entries[base_n:]
    table = lib.alias_table()
    alias_ids = {fid for fid, _b in table}
    # every (non-alias factory, arguments) that any binder run can meet
    checks = {}

    def visit(u):
        try:
            fac = lib.reg.get_tag_factory(u.tag_name)
        except TemplateError:
            return
        fid = lib.ids[id(fac)]
        if fid in alias_ids:
            return
        key = (fid, args_key(u))
        if key in checks:
            return
        try:
            with impl.quiet_streams():
                tag = fac(*u.args, **u.kwargs)
            checks[key] = (True, tag.require_context, q_targs(u.args, u.kwargs))
        except Exception:
            checks[key] = (False, None, q_targs(u.args, u.kwargs))
    walk_placeholders(host_u, visit)
    for _fid, body in table:
        if body is not None:
            walk_placeholders(body.sub_elements, visit)
    if inl_u is not None:
        walk_placeholders(inl_u, visit)
    q_checks = q_list(["((%d, %s), (%s, %s))" % (fid, qa, q_bool(ok), q_opt(rc, q_bool, "bool"))
                       for (fid, _k), (ok, rc, qa) in checks.items()], "(fid * targs) * (bool * option bool)")
    sem = {}
    strings = []
    for fid, akey, n, fi, ctx, out in list(calls_a) + list(calls_i):
        k = (fid, akey, n, fi, ctx)
        if k not in sem:
            sem[k] = out
        if out[0] == "val" and isinstance(out[1], str):
            strings.append(out[1])
        elif out[0] == "val" and isinstance(out[1], PosixPath):
            strings.append(str(out[1]))
    q_sem = q_list(["((%d, %s, %s, %d, %s), %s)" % (fid, q_targs_key(akey), q_nat(n), fi, q_opt(ctx, q_str, "str"), q_tout(out))
                    for (fid, akey, n, fi, ctx), out in sem.items()], "sem_key * tout")
    for o in (obs_a, obs_i):
        if o:
            strings += [v for k, v in o["render"] if k == "s"]
    return "(mkCase %s %s %s %s %s %s %s %s %s %s %s %s)" % (
        q_list([q_entry(e) for e in extra], "reg_entry"),
        q_list(["(%d, %s)" % (fid, q_opt(b, lambda x: q_upat(x.sub_elements), "upat")) for fid, b in table], "fid * option upat"),
        q_nat(FUEL), q_upat(host_u), q_opt(inl_u, q_upat, "upat"),
        q_checks, q_sem, q_list(["%d" % i for i in range(nfiles)], "N"), q_bool(expr),
        printable_ranges_of(strings), q_side(obs_a),
        q_opt(obs_i, q_side, "side_obs"))


def prelude():
    return "Definition base_regs : list reg_entry := %s." % q_list([q_entry(e) for e in base_lib().entries], "reg_entry")


# =========================================================================== library-level tie (iii)

def lib_case(chk, case, files, stats, cases, metas):
    aliases = [(n, t) for n, t in case["aliases"]]
    try:
        lib = Lib(aliases)
    except Exception as e:
        chk.oracle_fail("build_tag_registry raised %s: %s" % (type(e).__name__, e), case)
        return
    lib0 = lib if case["same_registry"] else base_lib()
    for expr in (False, True):
        meta = dict(case, expr_mode=expr, tie="library")
        chk.count(("lib", case["host"], tuple(map(tuple, case["aliases"])), expr))
        obs_a, calls_a = observe(lib, case["host"], files, expr)
        stats["lib_runs"] += 1
        stats["bind_" + ("ok" if obs_a["bind"] is None else str(obs_a["bind"]))] = \
            stats.get("bind_" + ("ok" if obs_a["bind"] is None else str(obs_a["bind"])), 0) + 1
        obs_i, calls_i = (None, [])
        # ---- oracle
        if case["reject"]:
            if obs_a["bind"] is None or obs_a["bind"] == 14:
                chk.oracle_fail("alias use that must be rejected as a template error: compile() gave %s" % (
                    "a pattern" if obs_a["bind"] is None else obs_a["cls"] + ": " + obs_a["msg"]), meta)
        if case["inlined"] is not None:
            obs_i, calls_i = observe(lib0, case["inlined"], files, expr)
            if (obs_a["bind"] is None) != (obs_i["bind"] is None):
                chk.oracle_fail("alias template %s, inlined template %s" % (
                    "accepted" if obs_a["bind"] is None else "rejected (%s)" % obs_a["cls"],
                    "accepted" if obs_i["bind"] is None else "rejected (%s)" % obs_i["cls"]), meta)
            elif obs_a["bind"] is not None:
                if not (obs_a["bind"] != 14 and obs_i["bind"] != 14):
                    chk.oracle_fail("rejected, but not with a template error: %s / %s" % (obs_a["cls"], obs_i["cls"]), meta)
            elif not expr:
                if obs_a["render"] != obs_i["render"]:
                    chk.oracle_fail("name mode: alias template renders %r, inlined text renders %r" % (
                        obs_a["render"], obs_i["render"]), meta)
            elif case.get("pieces") is not None:
                try:
                    exp = expected_expr(lib0, case["pieces"], files)
                except TemplateError as e:
                    exp = None
                if exp is not None and obs_a["render"] != exp:
                    chk.oracle_fail("expression mode: alias template renders %r, expected (rendered text as one str value) %r" % (
                        obs_a["render"], exp), meta)
        # ---- model case
        try:
            host_u = lib.parse(case["host"]).sub_elements
        except TemplateError:
            stats["host_unparsable"] += 1
            continue
        try:
            inl_u = lib.parse(case["inlined"]).sub_elements if case["inlined"] is not None else None
        except TemplateError:
            inl_u = None
            obs_i = None
        if not obs_a.get("instrumented", True) or (obs_i and not obs_i.get("instrumented", True)):
            stats["unsupported"] += 1
            continue
        if expr and obs_i is not None:
            # the inlined TEXT in expression mode is a different expression (top-level aliases
            # dissolve); the model side for it is evaluated in name mode only
            obs_i_model = None
        else:
            obs_i_model = obs_i
        if lib0 is not lib and obs_i_model is not None:
            # the inlined text was compiled against the registry WITHOUT the Alias category; the
            # model binds it in the registry with it: identical unless a name clashes, which the
            # generator excludes for these cases
            pass
        try:
            term = model_case(lib, lib0, case, host_u, inl_u, expr, obs_a, calls_a, obs_i_model,
                              calls_i if obs_i_model is not None else [], len(files))
        except Unsupported as e:
            stats["unsupported"] += 1
            continue
        cases.append(term)
        metas.append(meta)


# =========================================================================== CLI ties (i), (ii)

def tree_state(root):
    return {rel: (v[0],) + tuple(v[2:3]) for rel, v in cli_driver.snapshot(root, with_times=False).items()}


def run_tree(case, argv_tail, template, extra=()):
    """build the case's tree in a fresh sandbox, run main(), return (status, final tree, result, untouched)"""
    with Sandbox("verif-c15-") as root:
        ind = os.path.join(root, "in")
        os.makedirs(ind)
        cli_driver.build_tree(ind, [(rel, "f", content) for rel, content in case["tree"]])
        before = cli_driver.strict_snapshot(ind)
        argv = list(extra)
        if case["recursive"]:
            argv.append("-r")
        if case["mode"] == "path":
            argv.append("-p")
        # "--": a template that starts with "-" is a positional argument, not an option
        argv += list(argv_tail) + ["--", template, ind]
        res = cli_driver.run_cli(argv, root, root=ind, snapshots=False)
        after = cli_driver.strict_snapshot(ind)
        return res.status, tree_state(ind), res, (before == after and not res.tracer.calls)


def alias_argv(case):
    out = []
    for n, t in case["aliases"]:
        out += ["-a", "%s=%s" % (n, t)]
    return out


def cli_pair(chk, case, stats):
    meta = dict(case, tie="cli")
    chk.count(("cli", case["host"], tuple(map(tuple, case["aliases"])), case["mode"], case["recursive"]))
    st_a, tree_a, res_a, untouched_a = run_tree(case, alias_argv(case), case["host"])
    stats["cli_runs"] += 1
    stats["status_%s" % st_a] = stats.get("status_%s" % st_a, 0) + 1
    if case["reject"]:
        if st_a != 3 or not untouched_a:
            chk.oracle_fail("alias use that must be reported as a template error before any file is touched: "
                            "status %r, %s; stderr %r" % (st_a, "tree untouched" if untouched_a else "TREE CHANGED / filesystem calls made",
                                                         res_a.stderr[-300:]), meta)
    if case["inlined"] is None:
        return
    st_b, tree_b, res_b, _u = run_tree(case, alias_argv(case) if case["same_registry"] else [], case["inlined"])
    stats["cli_runs"] += 1
    if st_a != st_b or tree_a != tree_b:
        chk.oracle_fail("alias run: status %r, inlined run: status %r; final trees %s; alias stderr %r inlined stderr %r" % (
            st_a, st_b, "equal" if tree_a == tree_b else "DIFFER: %r vs %r" % (sorted(tree_a), sorted(tree_b)),
            res_a.stderr[-200:], res_b.stderr[-200:]), meta)
    if st_a == 3 and not untouched_a:
        chk.oracle_fail("template error (status 3) reported after the tree was touched", meta)


def esc_text(s):
    return s.replace("{", "\\{").replace("}", "\\}")


def cli_expr_pair(chk, case, stats):
    """filter / sort position: %N() against a per-file dictionary literal of the rendered text"""
    meta = dict(case, tie="cli-expr")
    ex = case["expr"]
    chk.count(("cli-expr", ex["text"], tuple(map(tuple, case["aliases"]))))
    name_t = "%Count(width=2)_%Name()" if ex["opt"] == "-s" else "S_%Name()"
    opts = [ex["opt"], ex["text"]]
    if ex["invert"]:
        opts.insert(0, "-si" if ex["opt"] == "-s" else "-fi")
    st_a, tree_a, res_a, untouched_a = run_tree(case, alias_argv(case) + opts, name_t)
    stats["cli_runs"] += 1
    stats["status_%s" % st_a] = stats.get("status_%s" % st_a, 0) + 1
    # the text each alias renders to, per file, from the inlined patterns (library level)
    names = [rel for rel, _c in case["tree"]]
    text_b = ex["text"]
    with Sandbox("verif-c15-") as root:
        ind = os.path.join(root, "in")
        os.makedirs(ind)
        cli_driver.build_tree(ind, [(rel, "f", content) for rel, content in case["tree"]])
        comp = TemplateCompiler(base_lib().reg)
        alias_texts = dict((n, t) for n, t in case["aliases"])
        bodies = case["expr_bodies"]
        for n in sorted(bodies, key=len, reverse=True):
            if ("." + n + "()") not in text_b and ("%" + n + "()") not in text_b:
                continue
            if not bodies[n]:
                return
            table = {}
            try:
                with impl.quiet_streams():
                    pat = comp.compile(bodies[n])
                for rel in names:
                    table[rel] = pat.process(File(Path(ind), Path(rel)))
            except Exception:
                return               # not a stateless valid alias: nothing to compare
            lit = esc_text("{" + ", ".join("%r: %r" % (k, v) for k, v in table.items()) + "}") + "[%Name()]"
            for sp in ("%Alias." + n + "()", "%alias." + n + "()", "%" + n + "()"):
                text_b = text_b.replace(sp, lit)
    opts_b = [ex["opt"], text_b]
    if ex["invert"]:
        opts_b.insert(0, "-si" if ex["opt"] == "-s" else "-fi")
    st_b, tree_b, res_b, _u = run_tree(case, opts_b, name_t)
    stats["cli_runs"] += 1
    if st_a != st_b or tree_a != tree_b:
        chk.oracle_fail("%s %r with aliases: status %r; with the rendered text as a str literal (%r): status %r; final trees %s; stderr %r / %r" % (
            ex["opt"], ex["text"], st_a, text_b, st_b,
            "equal" if tree_a == tree_b else "DIFFER: %r vs %r" % (sorted(tree_a), sorted(tree_b)),
            res_a.stderr[-200:], res_b.stderr[-200:]), meta)


# =========================================================================== driver

LIB_TREE = [["a.txt", "x"], ["B.TXT", "xx"], ["sub/img_01.jpg", "1234567"], ["sub/notes", ""],
            ["sub2/été.txt", "abc"], ["ab_AB.Txt", "zzzz"]]


def corpus_cases():
    out = []
    for p in sorted(glob.glob(os.path.join(common.VERIF, "corpus", "C15", "*.json"))):
        obj = json.load(open(p))
        for c in (obj if isinstance(obj, list) else [obj]):
            c.setdefault("kind", "corpus")
            c.setdefault("same_registry", False)
            c.setdefault("mode", "name")
            c.setdefault("recursive", False)
            c.setdefault("tree", [["a.txt", "x"], ["b.md", "yy"], ["c", ""]])
            c.setdefault("pieces", None)
            c.setdefault("expr", None)
            c["corpus_file"] = os.path.basename(p)
            out.append(c)
    return out


def eval_cases(chk, cases, metas):
    if not cases:
        return
    mism, errors = common.run_model_cases(IMPORTS, "alias_case", "alias_case_ok base_regs", cases,
                                          shard_size=60, prelude=prelude())
    for e in errors:
        chk.proof_failures.append({"what": "coqc on generated C15 cases (shard at %d)" % e["shard_offset"],
                                   "log": e["output"]})
    for i in mism[:40]:
        rc, out = common.coq_eval_term(IMPORTS, "alias_case_model base_regs %s" % cases[i], prelude=prelude())
        chk.corr_fail("Corr.AliasCorr.alias_case_ok (Tpl.Alias.bind_list / inline_list / run_names / run_exprs)",
                      metas[i], model=out[-1500:], impl=None)
    for i in mism[40:]:
        chk.corr_fail("Corr.AliasCorr.alias_case_ok", metas[i])



def cli_option_stream(chk, rng, stats):
    """Through the command line, with options that only concern what is printed (-v, -q) and with a dry run before the real
    one: `-a N=P` + a host template using %N() must give the same names as the host with P written in place and no such
    option.  (In-process compilation cannot see what an option of the command line does to the rendering.)"""
    import os
    pairs = [("%Count(start=1,width=3)", "%N()_%Name()", "{P}_%Name()"),
             ("%Count(step=2)", "%N()%N()_%Name()", "{P}{P}_%Name()"),
             ("%Upper{%Base()}", "%Lower{%N()}%Ext()", "%Lower{{P}}%Ext()"),
             ("%Base()-%Count(start=5)", "%N()|%Upper()", "{P}|%Upper()"),
             ("x%Count()", "%Upper{%N()_%N()}%Ext()", "%Upper{{P}_{P}}%Ext()"),
             # a pattern written over several lines (the lexer skips line breaks and tabs)
             ("%Base()\n_v2", "%N()%Ext()", "{P}%Ext()"), ("%Upper(){\n%Base()\n}\t-", "%N()x", "{P}x"),
             # constant patterns (no tag at all) with escapes, and constant patterns that are not valid templates
             ("\\{draft\\}", "%N()_%Name()", "{P}_%Name()"), ("a\\|b", "%N()%Ext()", "{P}%Ext()"), ("a}b", "%N()_%Name()", "{P}_%Name()"),
             ("x{y", "%Name()%N()", "%Name(){P}"), ("plain", "%N()_%Name()", "{P}_%Name()"),
             # a tag that cannot read the files at hand: the failure is the same through the alias
             ("%Image.Width()", "%N()_%Name()", "{P}_%Name()"), ("%Audio.Title()", "%Upper{%N()}%Ext()", "%Upper{{P}}%Ext()")]
    flagsets = [["-v"], ["-v", "-v"], ["-q"], ["-v", "-q"], []]
    files = ["in/a.txt", "in/b.txt", "in/c.dat", "in/sub/d.txt", "in/sub/e.txt"]

    def run(argv):
        with Sandbox("verif-c15-cli-") as root:
            for p in files:
                os.makedirs(os.path.dirname(os.path.join(root, p)), exist_ok=True)
                with open(os.path.join(root, p), "w") as fh:
                    fh.write(p)
            res = cli_driver.run_cli(argv + [os.path.join(root, "in")], root, root=root, snapshots=False, trace=False)
            got = {}
            for dp, _dn, fns in os.walk(root):
                for fn in fns:
                    with open(os.path.join(dp, fn)) as fh:
                        got[fh.read()] = os.path.relpath(os.path.join(dp, fn), root)
            return res.status, got
    n = 0
    for body, host, inplace in pairs:
        want = run(["-r", "-s", "%Name()", "--", inplace.replace("{P}", body)])
        for flags in flagsets:
            got = run(flags + ["-r", "-s", "%Name()", "-a", "N=" + body, "--", host])
            n += 1
            chk.count(("alias-cli", body, host, tuple(flags)))
            if got != want:
                chk.oracle_fail("alias N=%r in %r with options %r: status/names %r, the pattern written in place gives %r" % (
                    body, host, flags, (got[0], sorted(got[1].values())[:4]), (want[0], sorted(want[1].values())[:4])),
                    {"alias": body, "host": host, "options": flags})
    # acyclic chains of aliases, deeper than anyone would write by hand: A1 = %A2(), ..., Ak = P
    for depth in (2, 9, 12, 25):
        body = "%Upper{%Base()}-%Count(start=3)"
        al = []
        for i in range(1, depth):
            al += ["-a", "A%d=%%A%d()" % (i, i + 1)]
        al += ["-a", "A%d=%s" % (depth, body)]
        want = run(["-r", "-s", "%Name()", "--", "pre_" + body + "%Ext()"])
        got = run(["-r", "-s", "%Name()"] + al + ["--", "pre_%A1()%Ext()"])
        n += 1
        chk.count(("alias-chain", depth))
        if got != want:
            chk.oracle_fail("a chain of %d aliases: status/names %r, the pattern written in place gives %r" % (
                depth, (got[0], sorted(got[1].values())[:4]), (want[0], sorted(want[1].values())[:4])), {"alias_chain_depth": depth, "pattern": body})
    stats["cli_option_runs"] = n


def run(chk):
    rng = chk.rng
    quick = chk.tier == "quick"
    n_lib = int(os.environ.get("C15_N_LIB", 500 if quick else 7000))
    n_cli = int(os.environ.get("C15_N_CLI", 170 if quick else 2500))
    stats = {"lib_runs": 0, "cli_runs": 0, "unsupported": 0, "host_unparsable": 0, "kinds": {}}
    cases, metas = [], []
    with Sandbox("verif-c15-lib-") as root:
        ind = os.path.join(root, "in")
        os.makedirs(ind)
        cli_driver.build_tree(ind, [(rel, "f", c) for rel, c in LIB_TREE])
        files = [File(Path(ind), Path(rel)) for rel, _c in LIB_TREE]
        corpus = corpus_cases()
        for c in corpus:
            lib_case(chk, c, files, stats, cases, metas)
            if c["expr"] is None:
                cli_pair(chk, c, stats)
        stats["corpus"] = len(corpus)
        t0 = time.time()
        for i in range(n_lib):
            case = gen_case(rng)
            stats["kinds"][case["kind"]] = stats["kinds"].get(case["kind"], 0) + 1
            if i < 4:
                chk.sample({"aliases": case["aliases"], "host": case["host"], "inlined": case["inlined"],
                            "reject": case["reject"], "kind": case["kind"]})
            lib_case(chk, case, files, stats, cases, metas)
            if i < n_cli:
                if case["expr"] is not None:
                    cli_expr_pair(chk, case, stats)
                else:
                    cli_pair(chk, case, stats)
        stats["impl_wall_s"] = round(time.time() - t0, 1)
    t0 = time.time()
    eval_cases(chk, cases, metas)
    stats["model_wall_s"] = round(time.time() - t0, 1)
    stats["model_cases"] = len(cases)
    chk.notes["c15"] = stats
    _cs = {}
    cli_option_stream(chk, chk.rng, _cs)
    # the whole-program model (Whole/*.v), on which this property's whole-program theorems rest, against the real command line
    import whole as _whole
    import random as _random
    _ws = {}
    _whole.whole_stream(chk, _random.Random(chk.seed * 7919 + 15), 60 if chk.tier == "quick" else 2500, _ws)
    chk.notes["whole_program_tie"] = _ws
    chk.coverage["rule"] = (
        "one evaluation = one (alias set, host template, mode) driven through the implementation: a pair of "
        "tempren.cli.main() runs on identical trees (alias vs inlined text, or alias vs str literal in -s/-ft), or one "
        "library-level compile+render over 6 files in name or expression mode compared with the inlined text, the "
        "piecewise expression oracle and the Coq model; distinct = distinct (aliases, host, mode) keys")
    chk.coverage["input_distribution"] = (
        "alias sets of 1-4 aliases over text/core tags (nested contexts to depth 2, pipe lists, Count with 11 argument "
        "shapes, qualified and case-variant category spellings), bodies referring to earlier aliases (acyclic chains); "
        "kinds: valid 7/15, args/context/pipe misuse 1/15, cyclic (self and mutual) 1/15, unbindable or unparsable "
        "pattern 2/15, name clash with a built-in tag 1/15, expression position 2/15, unused invalid alias 1/15; hosts "
        "use aliases at top level, inside contexts and before pipe lists, repeatedly; trees of 2-9 files, 35% recursive, "
        "15% path mode; " + json.dumps(stats["kinds"], sort_keys=True))
    chk.coverage["trusted_base"] = common.BASE_TRUSTED + [
        "harness/c15.py: generator, the text-level inlining mirror (AST of the generator, printed), observation by wrapping "
        "tag.process of every bound non-alias instance from outside, serialisation of the real parser's trees",
        "tag behaviour enters the model as tables of observed values (factory accepts arguments / require_context; "
        "value per call), so the model's tags are exactly the implementation's on the inputs run",
        "Tpl/Registry.v (C12) as the name resolution used by the binder model",
    ]
    chk.assumptions[:] = [
        "tag semantics, argument acceptance and per-instance state are Section variables of Tpl/Alias.v: the theorems hold for "
        "every tag library whose instances do not share state; validated by the Count-twice cases (two independent sequences)",
        "fuel models the interpreter's recursion limit: exhausted fuel = RecursionError reported as TemplateSyntaxError (fix F10) "
        "(observed: status 3 for self-referential and mutually recursive aliases)",
        "an invalid alias that no compiled template uses is never compiled and not reported (DESIGN section 5 reading choice)",
        "the text->tree parser is not part of this model (C10); the harness feeds the real parser's trees to Coq",
    ]


def replay(chk, obj):
    fails = obj.get("failures") or [{"case": c.get("case")} for c in obj.get("broken_correspondence", [])]
    rc = 0
    with Sandbox("verif-c15-lib-") as root:
        ind = os.path.join(root, "in")
        os.makedirs(ind)
        cli_driver.build_tree(ind, [(rel, "f", c) for rel, c in LIB_TREE])
        files = [File(Path(ind), Path(rel)) for rel, _c in LIB_TREE]
        for f in fails[:10]:
            case = f.get("case")
            if not case:
                continue
            print("case:", json.dumps({k: case.get(k) for k in ("aliases", "host", "inlined", "reject", "expr", "kind")}, ensure_ascii=True))
            sub = common.Check(chk.pid, chk.tier, chk.seed)
            stats = {"lib_runs": 0, "cli_runs": 0, "unsupported": 0, "host_unparsable": 0, "kinds": {}}
            cases, metas = [], []
            lib_case(sub, case, files, stats, cases, metas)
            if case.get("expr") is not None and "expr_bodies" in case:
                cli_expr_pair(sub, case, stats)
            elif case.get("expr") is None:
                cli_pair(sub, case, stats)
            for t in cases:
                r, out = common.coq_eval_term(IMPORTS, "(alias_case_ok base_regs %s, alias_case_model base_regs %s)" % (t, t),
                                              prelude=prelude())
                print("model:", out[-1200:])
            lib = Lib([(n, t) for n, t in case["aliases"]])
            for expr in (False, True):
                print("implementation (expression mode %s): alias" % expr, observe(lib, case["host"], files, expr)[0])
                if case.get("inlined") is not None:
                    print("implementation (expression mode %s): inlined" % expr, observe(base_lib(), case["inlined"], files, expr)[0])
            for o in sub.oracle_failures:
                print("ORACLE FAILS:", o["what"])
                rc = 1
            if not sub.oracle_failures:
                print("oracle: holds on this case")
    return rc
