"""Regenerates /verif/MANIFEST.json from the table below (run after adding a property)."""
import json
import os

VERIF = os.path.dirname(os.path.dirname(os.path.abspath(__file__)))

CHECKS = {
    "C16": dict(
        technique="Coq proof (induction over the call sequence) of the Count state machine + correspondence check against the real CountTag",
        text="Proof: closed form start+k*step per directory / globally for every interleaving, injectivity (no repeats), "
             "raise iff negative, zfill never truncates and reads back, distinct values give distinct names — all proved in Coq "
             "for unbounded inputs about the Gallina model Tags/Count.v; the model is tied to tempren/tags/core.py by running the "
             "real tag through compiled templates on generated call sequences and evaluating the model inside Coq on the same sequences.",
        design_ref="DESIGN.md §4 C16, §3.7",
        note="Trusted: Coq kernel + vm_compute; axioms none; harness/c16.py + Corr/CountCorr.v; modelled not verified: Python int/str/zfill/defaultdict. "
             "The tie to the code is sampled (differential), the theorems are about the model."),
    "C17": dict(
        technique="Coq proof of pathlib algebra (stem++suffix, parse/str round trip, with_name identity) + exhaustive correspondence with pathlib on short strings and CLI no-op runs",
        text="Proof: stem ++ suffix = name for every name; Base/Ext/Name agree for every context; str(parent)/name parses back to the path and "
             "with_name(own name) is the identity for every normal relative path — proved in Coq about Py/PathLib.v, a model of the slice of "
             "pathlib tempren uses. The model is compared with CPython's pathlib on every string over a 9-character alphabet up to length 5 (6 in the "
             "thorough tier), the real tags are run with every such context, and the three no-op templates are run through the CLI on generated trees.",
        design_ref="DESIGN.md §4 C17, §3.6",
        note="Trusted: Coq kernel + vm_compute; axioms none; harness/c17.py + Corr/PathCorr.v; pathlib is modelled, not verified (tie is exhaustive on short strings only). "
             "The pipeline half of the no-op claim (skip when generated path equals the relative path) is checked on the implementation by CLI runs; its Coq statement lives with the pipeline model."),
    "C18": dict(
        technique="Coq proofs of the shape contracts of Trim/Pad/Strip/Collapse/SplitCase and of idempotence/ASCII lifting for character maps + correspondence through compiled templates",
        text="Proof: length/prefix/suffix laws of Trim, length/containment of Pad, contiguity and clean ends of Strip, no-adjacent/subsequence/keeps-unlisted of Collapse, "
             "exact splice characterisation of SplitCase, and the lifting of per-code-point idempotence/ASCII-range to all strings — proved for all strings and arguments about Tags/TextTags.v. "
             "Partial: Unicode case tables, unidecode, pathvalidate and user regexes are oracles (their per-code-point hypotheses are checked exhaustively over all code points, not proved). "
             "All 13 tags are run through compiled templates on different files, instances and orders; the five modelled ones are compared value by value with the model.",
        design_ref="DESIGN.md §4 C18, §3.7",
        note="Trusted: Coq kernel + vm_compute; axioms none; harness/c18.py + Corr/TextCorr.v; str slicing/just/strip and re.sub for two fixed regex shapes are modelled, not verified. "
             "Lone surrogate code points are excluded for the oracle-only tags (not well-formed text)."),
    "C19": dict(
        technique="Coq proofs of the read-loop, streaming law, bit-level CRC-32 chaining/range and %08x + correspondence with zlib/hashlib and an independent reference",
        text="Proof: the chunked read loop (and any schedule of short reads) concatenates to the whole content; chunked update equals one-shot update for every streaming digest obeying "
             "hashlib's update law; CRC-32 chaining equals the one-shot value for every split; CRC stays below 2^32; %08x yields eight lower-case digits that read back to the value. "
             "Partial: the MD5/SHA compression functions are not modelled (the update law is a stated hypothesis); those tags are compared with hashlib one-shot and an independent pure-Python implementation.",
        design_ref="DESIGN.md §4 C19, §3.7",
        note="Trusted: Coq kernel + vm_compute; axioms none; harness/c19.py + Corr/HashCorr.v; zlib.crc32 modelled bit by bit and compared (random vectors + all 1-/2-byte strings); "
             "BufferedReader.read semantics modelled (read sizes observed by wrapping open())."),
}

NOT_YET = {
}


def main():
    props = [json.loads(l) for l in open(os.path.join(VERIF, "properties.jsonl"))]
    checks = []
    na = []
    for p in props:
        pid = p["id"]
        if pid in CHECKS:
            c = CHECKS[pid]
            checks.append({
                "property_id": pid,
                "quick_cmd": "./check %s --tier quick" % pid,
                "thorough_cmd": "./check %s --tier thorough" % pid,
                "evidence_file": "/verif/evidence/%s.json" % pid,
                "replay_cmd_template": "./check %s --replay {path}" % pid,
                "engine": "coq-model+correspondence",
                "level_claimed": {"category": "proof", "text": c["text"], "design_ref": c["design_ref"]},
                "level_note": c["note"],
                "technique": c["technique"],
            })
        else:
            na.append({"property_id": pid,
                       "reason": NOT_YET.get(pid, "not claimed yet: the Coq model and correspondence check for this property are still being built (see DESIGN.md §8 for the order of work)")})
    man = {
        "version": 1,
        "setup_cmd": "cd /verif/coq && export OCAMLRUNPARAM=o=200 && /venv/bin/python /verif/harness/setup.py",
        "hooks": {
            "guard": "TEMPREN_VERIF",
            "enable": "no source hooks are used: all observation (syscall tracer, fault injector, plan injection) is done from outside by monkey-patching in the harness process; the guard name is reserved",
            "baseline_off_cmd": "cd /repo && /venv/bin/python -m pytest -ra -q -p no:cacheprovider --timeout=900 --continue-on-collection-errors",
            "source_commits": [],
            "add_only": True,
        },
        "engines": [{
            "name": "coq-model+correspondence",
            "path": "/verif/coq (Gallina models, proofs, Properties/Cxx.v), /verif/harness (correspondence check), /verif/check",
            "serves_properties": sorted(CHECKS),
            "kind_free_text": "machine-checked proof in Coq 8.16.1 about hand-written executable models, tied to /repo's working tree on every run by a correspondence check (model evaluated inside Coq by vm_compute on the inputs the implementation was run on) plus a property oracle on the implementation's behaviour",
        }],
        "checks": checks,
        "not_applicable": na,
        "notes": "See DESIGN.md. ./check <id> [--tier quick|thorough] [--replay FILE]; known findings in known_findings.json.",
    }
    with open(os.path.join(VERIF, "MANIFEST.json"), "w") as fh:
        json.dump(man, fh, indent=1)


if __name__ == "__main__":
    main()
