"""Regenerates /verif/MANIFEST.json from the table below (run after adding a property)."""
import json
import os

VERIF = os.path.dirname(os.path.dirname(os.path.abspath(__file__)))

def load_checks():
    d = os.path.join(VERIF, "harness", "manifest")
    out = {}
    for f in sorted(os.listdir(d)):
        if f.endswith(".json"):
            out[f[:-5]] = json.load(open(os.path.join(d, f)))
    return out


CHECKS = load_checks()   # one file per claimed property: technique, text, design_ref, note

NOT_YET = {
}


def main():
    props = [json.loads(l) for l in open(os.path.join(VERIF, "properties.jsonl"))]
    checks = []
    na = []
    for p in props:
        pid = p["id"]
        if pid in CHECKS:
            c = CHECKS[pid]
            checks.append({
                "property_id": pid,
                "quick_cmd": "./check %s --tier quick" % pid,
                "thorough_cmd": "./check %s --tier thorough" % pid,
                "evidence_file": "/verif/evidence/%s.json" % pid,
                "replay_cmd_template": "./check %s --replay {path}" % pid,
                "engine": "coq-model+correspondence",
                "level_claimed": {"category": "proof", "text": c["text"], "design_ref": c["design_ref"]},
                "level_note": c["note"],
                "technique": c["technique"],
            })
        else:
            na.append({"property_id": pid,
                       "reason": NOT_YET.get(pid, "not claimed yet: the Coq model and correspondence check for this property are still being built (see DESIGN.md §8 for the order of work)")})
    man = {
        "version": 1,
        "setup_cmd": "cd /verif/coq && export OCAMLRUNPARAM=o=200 && /venv/bin/python /verif/harness/setup.py",
        "hooks": {
            "guard": "TEMPREN_VERIF",
            "enable": "no source hooks are used: all observation (syscall tracer, fault injector, plan injection) is done from outside by monkey-patching in the harness process; the guard name is reserved",
            "baseline_off_cmd": "cd /repo && /venv/bin/python -m pytest -ra -q -p no:cacheprovider --timeout=900 --continue-on-collection-errors",
            "source_commits": [],
            "add_only": True,
        },
        "engines": [{
            "name": "coq-model+correspondence",
            "path": "/verif/coq (Gallina models, proofs, Properties/Cxx.v), /verif/harness (correspondence check), /verif/check",
            "serves_properties": sorted(CHECKS),
            "kind_free_text": "machine-checked proof in Coq 8.16.1 about hand-written executable models, tied to /repo's working tree on every run by a correspondence check (model evaluated inside Coq by vm_compute on the inputs the implementation was run on) plus a property oracle on the implementation's behaviour",
        }],
        "checks": checks,
        "not_applicable": na,
        "notes": "See DESIGN.md. ./check <id> [--tier quick|thorough] [--replay FILE]; known findings in known_findings.json.",
    }
    with open(os.path.join(VERIF, "MANIFEST.json"), "w") as fh:
        json.dump(man, fh, indent=1)


if __name__ == "__main__":
    main()
