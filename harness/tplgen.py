"""Template-language generators and drivers shared by the front-end checks (C10, C11; reusable
for C09): lexeme-sequence streams, random / exhaustive well-formed trees, a Python mirror of the
model's printer (coq/theories/Tpl/Printer.v), the real-parser driver with an ADDITIONAL lexer
observer, canonical trees and their Gallina serialisation."""
import itertools
import os
import sys

from common import q_str, q_Z, q_bool, q_list, q_opt

# --------------------------------------------------------------------------- canonical trees
# pattern  = [element]
# element  = ("raw", text) | ("tag", category|None, name, [value], [(key, value)], pattern|None)
# value    = ("i", int) | ("b", bool) | ("s", str)


def canon_value(v):
    if isinstance(v, bool):
        return ("b", v)
    if isinstance(v, int):
        return ("i", v)
    if isinstance(v, str):
        return ("s", v)
    return ("?", repr(v))


def canon(seq):
    """tempren PatternElementSequence -> canonical pattern (kwargs in dict order)"""
    from tempren.template.ast import RawText, TagPlaceholder
    out = []
    for e in seq.sub_elements:
        if isinstance(e, RawText):
            out.append(("raw", e.text))
        elif isinstance(e, TagPlaceholder):
            cat = e.tag_name.category
            out.append(("tag", None if cat is None else str(cat), str(e.tag_name.name),
                        [canon_value(a) for a in e.args],
                        [(str(k), canon_value(v)) for k, v in e.kwargs.items()],
                        None if e.context is None else canon(e.context)))
        else:
            out.append(("?", repr(e)))
    return out


def norm(p):
    """kwargs as a sorted list: the order of keyword arguments is not an observable"""
    out = []
    for e in p:
        if e[0] == "tag":
            out.append(("tag", e[1], e[2], list(e[3]), sorted(e[4]), None if e[5] is None else norm(e[5])))
        else:
            out.append(e)
    return out


def jsonable(p):
    return [list(e[:3]) + [[list(v) for v in e[3]], [[k, list(v)] for k, v in e[4]],
                           None if e[5] is None else jsonable(e[5])] if e[0] == "tag" else list(e) for e in p]


def from_json(p):
    out = []
    for e in p:
        if e[0] == "tag":
            out.append(("tag", e[1], e[2], [tuple(v) for v in e[3]], [(k, tuple(v)) for k, v in e[4]],
                        None if e[5] is None else from_json(e[5])))
        else:
            out.append(tuple(e))
    return out


def tree_size(p):
    return sum(1 + (tree_size(e[5]) if e[0] == "tag" and e[5] is not None else 0) for e in p)


def tree_depth(p):
    return 1 + max([tree_depth(e[5]) for e in p if e[0] == "tag" and e[5] is not None] or [0])


# --------------------------------------------------------------------------- Gallina literals

def q_val(v):
    k, x = v
    if k == "i":
        return "(VInt %s)" % q_Z(x)
    if k == "b":
        return "(VBool %s)" % q_bool(x)
    return "(VStr %s)" % q_str(x)


def q_pat(p):
    s = "PNil"
    for e in reversed(p):
        if e[0] == "raw":
            el = "(RawText %s)" % q_str(e[1])
        else:
            _, cat, name, args, kw, ctx = e
            el = "(Tag %s %s %s %s %s %s)" % (
                q_opt(cat, q_str, "str"), q_str(name), q_list([q_val(v) for v in args], "argval"),
                q_list(["(%s, %s)" % (q_str(k), q_val(v)) for k, v in kw], "str * argval"),
                q_bool(ctx is not None), q_pat(ctx or []))
        s = "(PCons %s %s)" % (el, s)
    return s


def q_style(sty):
    return "(Build_style %s %s %s %d %s %s)" % (q_bool(sty["dq"]), q_bool(sty["lower"]), q_bool(sty["flag"]),
                                                 sty["order"], q_bool(sty["parens"]), q_str(sty["ws"]))


# --------------------------------------------------------------------------- printer mirror (Printer.v)

def escape(esc, s):
    return "".join("\\" + c if c in esc else c for c in s)


def tok_of_val(sty, v):
    k, x = v
    if k == "i":
        return str(x)
    if k == "b":
        w = "true" if x else "false"
        return w if sty["lower"] else w.capitalize()
    q = '"' if sty["dq"] else "'"
    return q + escape(q + "\\", x) + q


def cargs_of(sty, args, kw):
    """list of token lists, one per argument, in the order the style dictates"""
    ps = [[tok_of_val(sty, v)] for v in args]
    ks = []
    for k, v in kw:
        if v == ("b", True) and sty["flag"]:
            ks.append([k])
        else:
            ks.append([k, "=", tok_of_val(sty, v)])
    if sty["order"] == 0:
        return ps + ks
    if sty["order"] == 1:
        return ks + ps
    out = []
    a, b = ps, ks
    while a:                      # Printer.alternate
        out.append(a[0])
        a = a[1:]
        if not b:
            out.extend(a)
            a = []
        else:
            out.append(b[0])
            b = b[1:]
    return out + b


def print_pat(sty, p):
    """Python mirror of Tpl/Printer.v [print]; compared with the model's own [print] inside Coq
    on every round-trip case (rt_case_ok)."""
    ws = sty["ws"]
    out = []
    for e in p:
        if e[0] == "raw":
            out.append(escape("{}|", e[1]))
            continue
        _, cat, name, args, kw, ctx = e
        out.append("%")
        if cat is not None:
            out.append(cat + ".")
        out.append(name)
        if args or kw or ctx is None or sty["parens"]:
            toks = ["("]
            for i, a in enumerate(cargs_of(sty, args, kw)):
                if i:
                    toks.append(",")
                toks.extend(a)
            out.append("".join(t + ws for t in toks) + ")")
        if ctx is not None:
            out.append("{" + print_pat(sty, ctx) + "}")
    return "".join(out)


# --------------------------------------------------------------------------- well-formed trees (Ast.v wf_pat)

BOOL_WORDS = ("True", "true", "False", "false")
ID_START = "_abcxyzABCXYZ"
ID_CHARS = ID_START + "019"
TEXT_CHARS = list("ab xyzAZ09_-.,:;()=!#&*+<>?@[]^~`'\"\\\\{{}}||") + \
    ["é", "ß", "漢", "Ж", "\U0001F600", "\x00", "\x0b", "\x0c", "\x7f", " ", " ", "́", "\ud800"]
STR_CHARS = TEXT_CHARS + ["%", "\t", "\n", "\r", "'", '"', "\\"]
NAMES = ["T", "Tag", "Upper", "x", "_", "_a1", "A_b", "TRUE", "True_", "true1", "falsE", "f", "t", "k9", "Name", "e"]
WS_CHOICES = ["", "", " ", "  ", "\t", " \n", "\r ", " \t\r\n"]


def gen_id(rng):
    if rng.random() < 0.6:
        return rng.choice(NAMES)
    return rng.choice(ID_START) + "".join(rng.choice(ID_CHARS) for _ in range(rng.randrange(0, 6)))


def gen_text(rng, chars=TEXT_CHARS, maxlen=8):
    while True:
        s = "".join(rng.choice(chars) for _ in range(rng.randrange(1, maxlen + 1)))
        if not s.endswith("\\"):
            return s


def gen_int(rng):
    r = rng.random()
    if r < 0.35:
        return rng.randrange(-20, 21)
    if r < 0.7:
        return rng.randrange(-10 ** 6, 10 ** 6)
    d = rng.randrange(10, 60) if r < 0.985 else rng.randrange(100, 400)
    return rng.choice((-1, 1)) * rng.randrange(10 ** (d - 1), 10 ** d)


def gen_value(rng):
    r = rng.random()
    if r < 0.3:
        return ("i", gen_int(rng))
    if r < 0.5:
        return ("b", rng.random() < 0.5)
    if r < 0.55:
        return ("s", "")
    while True:
        s = "".join(rng.choice(STR_CHARS) for _ in range(rng.randrange(1, 9)))
        if not s.endswith("\\"):
            return ("s", s)


def gen_tag(rng, depth, ctx_prob=0.5):
    cat = gen_id(rng) if rng.random() < 0.3 else None
    name = gen_id(rng)
    args = [gen_value(rng) for _ in range(rng.choice((0, 0, 1, 1, 2, 3)))]
    kw = []
    for _ in range(rng.choice((0, 0, 1, 1, 2, 3))):
        k = gen_id(rng)
        if k in BOOL_WORDS or any(k == k2 for k2, _ in kw):
            continue
        kw.append((k, gen_value(rng) if rng.random() < 0.7 else ("b", True)))
    ctx = None
    if depth > 1 and rng.random() < ctx_prob:
        ctx = gen_pat(rng, depth - 1)
    elif rng.random() < 0.1:
        ctx = []
    return ("tag", cat, name, args, kw, ctx)


def gen_pat(rng, depth, maxlen=4):
    n = rng.randrange(0, maxlen + 1) if depth < 5 else rng.randrange(1, maxlen + 1)
    out = []
    for _ in range(n):
        if rng.random() < 0.45 and not (out and out[-1][0] == "raw"):
            out.append(("raw", gen_text(rng)))
        else:
            out.append(gen_tag(rng, depth))
    return out


def gen_style(rng):
    return {"dq": rng.random() < 0.5, "lower": rng.random() < 0.5, "flag": rng.random() < 0.5,
            "order": rng.randrange(0, 3), "parens": rng.random() < 0.5, "ws": rng.choice(WS_CHOICES)}


def wf_pat(p):
    """Python mirror of Ast.wf_pat (used to double-check the generators)."""
    prev_raw = False
    for e in p:
        if e[0] == "raw":
            s = e[1]
            if prev_raw or not s or any(c in "%\t\n\r" for c in s) or s.endswith("\\"):
                return False
            prev_raw = True
            continue
        prev_raw = False
        _, cat, name, args, kw, ctx = e
        if not is_id(name) or (cat is not None and not is_id(cat)):
            return False
        for v in args + [v for _, v in kw]:
            if v[0] == "s" and v[1].endswith("\\"):
                return False
        keys = [k for k, _ in kw]
        if len(set(keys)) != len(keys) or any((not is_id(k)) or k in BOOL_WORDS for k in keys):
            return False
        if ctx is not None and not wf_pat(ctx):
            return False
    return True


def is_id(s):
    return bool(s) and s.isascii() and (s[0].isalpha() or s[0] == "_") and all(c.isalnum() or c == "_" for c in s)


# exhaustive small scope: trees of <= n nodes over a 12-character alphabet with every metacharacter
SMALL_ALPHABET = ["a", " ", "\\", "{", "}", "|", "'", '"', "(", ")", ",", "é"]


def small_texts(maxlen):
    for n in range(1, maxlen + 1):
        for t in itertools.product(SMALL_ALPHABET, repeat=n):
            s = "".join(t)
            if not s.endswith("\\"):
                yield s


def small_trees(max_nodes, text_len=1):
    """every pattern with at most max_nodes nodes; raw texts over SMALL_ALPHABET (length <= text_len),
    tags named T with no argument, one string argument, or one keyword"""
    texts = list(small_texts(text_len))
    arg_shapes = [([], [])] + [([("s", c)], []) for c in SMALL_ALPHABET if c != "\\"] + [([], [("k", ("b", True))])]

    def pats(n, first_may_be_raw=True):
        yield []
        if n == 0:
            return
        if first_may_be_raw:
            for s in texts:
                for rest in pats(n - 1, False):
                    yield [("raw", s)] + rest
        for k in range(0, n):                         # k nodes inside the context
            for args, kw in (arg_shapes if n <= 2 else arg_shapes[:1] + arg_shapes[-1:]):
                ctxs = [None] if k == 0 else []
                ctxs += list(pats(k))
                for ctx in ctxs:
                    used = 1 + (tree_size(ctx) if ctx else 0)
                    for rest in pats(n - used, True):
                        yield [("tag", None, "T", list(args), list(kw), ctx)] + rest
    seen = set()
    for p in pats(max_nodes):
        key = repr(p)
        if key not in seen:
            seen.add(key)
            yield p


# --------------------------------------------------------------------------- lexeme-sequence streams
# One representative lexeme per token kind of the three modes plus characters no rule accepts in
# tag / argument mode.  A "sequence" is the concatenation of lexemes: what is tested is the string.
LEXEMES = ["x", "a\\{", "%", "|", "{", "}", "T", ".", "(", ")", ",", "=", "1", "-2", "true", "'s'", '"q"', "k",
           " ", "é", "-", "'", "\t", "\\"]


def all_lexeme_sequences(maxlen, lexemes=LEXEMES):
    for n in range(0, maxlen + 1):
        for t in itertools.product(lexemes, repeat=n):
            yield "".join(t)


def random_lexeme_sequence(rng, minlen, maxlen, lexemes=LEXEMES):
    return "".join(rng.choice(lexemes) for _ in range(rng.randrange(minlen, maxlen + 1)))


MUT_CHARS = list("%{}|().,='\"\\ -1aT\té")


def mutate(rng, s, n=1):
    """delete / duplicate / transpose / replace / insert characters of a (valid) template"""
    s = list(s)
    for _ in range(n):
        op = rng.randrange(5)
        i = rng.randrange(len(s) + 1) if s else 0
        if op == 0 and s:
            del s[min(i, len(s) - 1)]
        elif op == 1 and s:
            j = min(i, len(s) - 1)
            s.insert(j, s[j])
        elif op == 2 and len(s) > 1:
            j = min(i, len(s) - 2)
            s[j], s[j + 1] = s[j + 1], s[j]
        elif op == 3 and s:
            s[min(i, len(s) - 1)] = rng.choice(MUT_CHARS)
        else:
            s.insert(i, rng.choice(MUT_CHARS))
    return "".join(s)


# --------------------------------------------------------------------------- the real parser

_installed = False
_lex_errors = []


def install_lexer_observer():
    """An ADDITIONAL observer on the real lexer: tempren.template.parser constructs its lexer from
    the module-level name TagTemplateLexer; that name is rebound to a subclass which records every
    'token recognition error' (absolute start index of the offending token) and then behaves as
    before.  Nothing of the implementation's own listeners is changed."""
    global _installed
    if _installed:
        return
    import impl  # noqa: F401
    import tempren.template.parser as tp

    base = tp.TagTemplateLexer

    class ObservedLexer(base):
        def notifyListeners(self, e):
            _lex_errors.append(self._tokenStartCharIndex)
            return super().notifyListeners(e)
    ObservedLexer.__name__ = base.__name__
    tp.TagTemplateLexer = ObservedLexer
    _installed = True


def real_parse(text):
    """-> ("acc", canonical tree) | ("rej", first lexer error index | None, exception class, message)
       | ("crash", ...) when something other than a TemplateError escapes"""
    install_lexer_observer()
    from tempren.template.parser import TemplateParser
    from tempren.template.exceptions import TemplateError
    del _lex_errors[:]
    try:
        pat = TemplateParser().parse(text)
    except TemplateError as e:
        return ("rej", _lex_errors[0] if _lex_errors else None, type(e).__name__, str(e)[:200],
                getattr(getattr(e, "location", None), "column", None))
    except RecursionError as e:
        return ("crash", _lex_errors[0] if _lex_errors else None, "RecursionError", "")
    except Exception as e:
        return ("crash", _lex_errors[0] if _lex_errors else None, type(e).__name__, str(e)[:200])
    return ("acc", canon(pat), _lex_errors[0] if _lex_errors else None, real_token_counts(text))


def real_token_counts(text):
    """content tokens of the REAL lexer on text: #TEXT, #TAG_ID, #values, #ARG_NAME"""
    from antlr4 import InputStream
    import tempren.template.parser as tp
    L = tp.TagTemplateLexer
    lexer = L(InputStream(text))
    lexer.removeErrorListeners()
    n = {"text": 0, "id": 0, "val": 0, "name": 0}
    for t in lexer.getAllTokens():
        if t.type == L.TEXT:
            n["text"] += 1
        elif t.type == L.TAG_ID:
            n["id"] += 1
        elif t.type in (L.NUMERIC_VALUE, L.BOOLEAN_VALUE, L.STRING_VALUE):
            n["val"] += 1
        elif t.type == L.ARG_NAME:
            n["name"] += 1
    return n


def _pool_init():
    devnull = os.open(os.devnull, os.O_WRONLY)
    os.dup2(devnull, 2)
    sys.stderr = open(os.devnull, "w", errors="backslashreplace")   # like a real stderr: never raises on lone surrogates
    install_lexer_observer()


def _parse_chunk(texts):
    return [real_parse(t) for t in texts]


def real_parse_many(texts, jobs=16, chunk=400):
    """the real parser on many texts, in worker processes (ANTLR's Python runtime is slow)"""
    texts = list(texts)
    if len(texts) < 600:
        import impl
        with impl.quiet_streams():
            return [real_parse(t) for t in texts]
    import multiprocessing as mp
    chunks = [texts[i:i + chunk] for i in range(0, len(texts), chunk)]
    with mp.get_context("fork").Pool(jobs, initializer=_pool_init) as pool:
        res = pool.map(_parse_chunk, chunks)
    return [r for part in res for r in part]


def q_obs(r):
    """parse_obs literal (Corr/TplCorr.v) of a real_parse result"""
    if r[0] == "acc":
        return "(OAcc %s)" % q_pat(r[1])
    return "(ORej %s)" % q_opt(r[1], lambda n: "%d" % n, "N")


def q_parse_case(text, r):
    return "(%s, %s)" % (q_str(text), q_obs(r))
