"""C13 — built-in help tells the truth about every tag's context and arguments.

For every tag of the working tree's registry (built-in, ad-hoc, alias) and for generated tag
classes with random signatures: read the first line of `--help Cat.Tag` (through
tempren.cli.main()), read it with a Python mirror of the model's reader AND let the Coq model
read it, run the real TemplateCompiler.compile on a family of calls, classify what the
implementation did from the exception chain and compare with (a) the property's clauses
evaluated on the documented signature (oracle) and (b) the model's bind/ctx_check evaluated
inside Coq (correspondence).  A sample of rejected calls is re-run through the CLI on a small
tree: exit status 3, tree untouched, no mutating call."""
import itertools
import os
import re
import typing

import cli_driver
import common
import impl
from common import q_bool, q_list, q_opt, q_str
from sandbox import Sandbox

import tempren.cli as tcli
from tempren.primitives import CategoryName, QualifiedTagName, Tag
from tempren.template.compiler import (ConfigurationError, ContextForbiddenError,
                                       ContextMissingError, TemplateCompiler)
from tempren.template.exceptions import TagError, TemplateError
from tempren.template.registry import (AmbiguousNameError, TagRegistry, UnknownCategoryError,
                                       UnknownNameError)

IMPORTS = ["Tpl.Signature", "Corr.SigCorr"]
CORR = "Corr.SigCorr.tag_case_ok (Tpl.Signature.parse_line/bind/ctx_check vs --help + TemplateCompiler.compile)"
CORR_RENDER = "Corr.SigCorr.render_case_ok (Tpl.Signature.render_line vs TagFactoryFromClass.configuration_signature)"

ADHOC = {"Ech": "/bin/echo", "Kat": "/bin/cat"}
ALIASES = {"Al": "%Upper{%Name()}", "Num": "%Count(start=1, width=3)", "Broken": "%NoSuchTag()"}


# ------------------------------------------------------------------ reading a help line

IDENT = re.compile(r"[A-Za-z0-9_]+")


def _top_level_split(text, sep):
    """split at `sep` characters that are outside brackets and outside Python string literals"""
    out, cur, depth, quote, i = [], [], 0, None, 0
    while i < len(text):
        c = text[i]
        if quote:
            cur.append(c)
            if c == "\\" and i + 1 < len(text):
                cur.append(text[i + 1]); i += 1
            elif c == quote:
                quote = None
        elif c in "'\"":
            quote = c; cur.append(c)
        elif c in "([{":
            depth += 1; cur.append(c)
        elif c in ")]}":
            depth -= 1; cur.append(c)
        elif c == sep and depth == 0:
            out.append("".join(cur)); cur = []
        else:
            cur.append(c)
        i += 1
    out.append("".join(cur))
    return out


def _closing_paren(text):
    """index of the parenthesis closing text[0] == '(' (bracket / quote aware), or -1"""
    depth, quote, i = 0, None, 0
    while i < len(text):
        c = text[i]
        if quote:
            if c == "\\":
                i += 1
            elif c == quote:
                quote = None
        elif c in "'\"":
            quote = c
        elif c in "([{":
            depth += 1
        elif c in ")]}":
            depth -= 1
            if depth == 0:
                return i
        i += 1
    return -1


def _read_named(t):
    m = IDENT.match(t)
    if not m:
        return None
    name, tail = m.group(0), t[m.end():]
    if tail == "":
        return (name, "", None)
    if tail.startswith("="):
        return (name, "", tail[1:])
    if tail.startswith(": "):
        r = tail[2:]
        parts = _top_level_split(r, "=")
        if len(parts) == 1:
            return (name, r, None) if r else None
        ann, d = parts[0], "=".join(parts[1:])
        if not ann.endswith(" ") or not d.startswith(" ") or len(ann) < 2:
            return None
        return (name, ann[:-1], d[1:])
    return None


def read_line(line):
    """Python mirror of Tpl.Signature.parse_line, more liberal about the opaque annotation and
    default texts (bracket/quote aware).  Returns a dict or (None, reason)."""
    if not line.startswith("%"):
        return None, "does not start with %"
    m = IDENT.match(line, 1)
    if not m:
        return None, "no tag name"
    name, rest = m.group(0), line[m.end():]
    if rest.endswith("[{...}]"):
        ctx, sigtext = None, rest[:-7]
    elif rest.endswith("{...}"):
        ctx, sigtext = True, rest[:-5]
    else:
        ctx, sigtext = False, rest
    rd = {"name": name, "ctx": ctx, "pos": [], "varpos": None, "kwonly": [], "varkw": None, "in_grammar": True}
    if sigtext == "":
        if ctx is True:
            return rd, None
        return None, "no parameter list"
    if not sigtext.startswith("("):
        return None, "no parameter list"
    end = _closing_paren(sigtext)
    if end < 0:
        return None, "unbalanced parameter list"
    after = sigtext[end + 1:]
    if after:
        if after.startswith(" -> "):
            rd["in_grammar"] = False      # a return annotation: harmless, outside the model's grammar
        else:
            return None, "text after the parameter list"
    body = sigtext[1:end]
    if body == "":
        return rd, None
    pieces = _top_level_split(body, ",")
    phase, star_pending = 0, False
    for i, pc in enumerate(pieces):
        if i > 0:
            if not pc.startswith(" "):
                return None, "separator"
            pc = pc[1:]
        if pc == "/":
            return None, "unsupported: positional-only parameters"
        if pc == "*":
            if phase != 0:
                return None, "misplaced *"
            phase, star_pending = 1, True
            continue
        if pc.startswith("**"):
            r = _read_named(pc[2:])
            if r is None or r[2] is not None or phase == 2:
                return None, "bad **parameter"
            rd["varkw"] = (r[0], r[1]); phase = 2
            continue
        if pc.startswith("*"):
            r = _read_named(pc[1:])
            if r is None or r[2] is not None or phase != 0:
                return None, "bad *parameter"
            rd["varpos"] = (r[0], r[1]); phase = 1
            continue
        r = _read_named(pc)
        if r is None or phase == 2:
            return None, "bad parameter %r" % pc
        if phase == 0:
            rd["pos"].append(r)
        else:
            rd["kwonly"].append(r); star_pending = False
    if star_pending:
        return None, "bare * without keyword-only parameter"
    for (n, ann, d) in rd["pos"] + rd["kwonly"] + [v + (None,) for v in (rd["varpos"], rd["varkw"]) if v]:
        if "," in ann or "=" in ann or (d is not None and "," in d):
            rd["in_grammar"] = False
    return rd, None


def documented(rd, npos, kws):
    """The statement's reading of a signature (declarative; independent of the binder model)."""
    pos_names = [p[0] for p in rd["pos"]]
    by_name = pos_names + [p[0] for p in rd["kwonly"]]
    if npos > len(pos_names) and rd["varpos"] is None:
        return False
    filled_pos = pos_names[:npos]
    if len(set(kws)) != len(kws):
        return False
    for k in kws:
        if k in filled_pos or k == "self":    # the receiver of the factory call / of configure is taken
            return False
        if k not in by_name and rd["varkw"] is None:
            return False
    for (n, ann, d) in rd["pos"] + rd["kwonly"]:
        if d is None and n not in filled_pos and n not in kws:
            return False
    return True


# ------------------------------------------------------------------ Gallina

def q_param(p):
    return "{| p_name := %s; p_ann := %s; p_dflt := %s |}" % (q_str(p[0]), q_str(p[1]), q_opt(p[2], q_str, "str"))


def q_vparam(v):
    return "{| v_name := %s; v_ann := %s |}" % (q_str(v[0]), q_str(v[1]))


def q_sig(rd):
    return "{| s_pos := %s; s_varpos := %s; s_kwonly := %s; s_varkw := %s |}" % (
        q_list([q_param(p) for p in rd["pos"]], "param"), q_opt(rd["varpos"], q_vparam, "vparam"),
        q_list([q_param(p) for p in rd["kwonly"]], "param"), q_opt(rd["varkw"], q_vparam, "vparam"))


def q_ctx(c):
    return q_opt(c, q_bool, "bool")


def q_reading(rd):
    if rd is None:
        return "(@None reading)"
    return "(Some (%s, %s, %s))" % (q_str(rd["name"]), q_sig(rd), q_ctx(rd["ctx"]))


def q_obs(o):
    k = o[0]
    if k == "accept":
        return "OAccept"
    if k == "ctx_missing":
        return "OCtxMissing"
    if k == "ctx_forbidden":
        return "OCtxForbidden"
    if k == "value":
        return "OValue"
    if k == "bind":
        sub = o[1]
        if sub[0] == "too_many":
            return "(OBind BcTooMany)"
        if sub[0] == "unexpected":
            return "(OBind (BcUnexpected %s))" % q_str(sub[1])
        if sub[0] == "multiple":
            return "(OBind (BcMultiple %s))" % q_str(sub[1])
        if sub[0] == "missing":
            return "(OBind (BcMissing %s))" % common.q_strs(sub[1])
        return "(OBind BcOther)"
    raise ValueError(o)


def q_call(c):
    return "(%d%%nat, %s, %s, %s)" % (c["npos"], common.q_strs(c["kws"]), q_bool(c["ctx"]), q_obs(c["obs"]))


def q_tag_case(t):
    calls = [c for c in t.calls if c["obs"][0] not in ("other", "lookup", "factory")]
    return "(%s, %s, %s, %s)" % (q_str(t.line), q_reading(t.reading),
                                 q_bool(bool(t.reading and t.reading["in_grammar"])),
                                 q_list([q_call(c) for c in calls], "call"))


# ------------------------------------------------------------------ implementation side

BIND_PATTERNS = [
    (re.compile(r"takes (from \d+ to )?\d+ positional arguments? but \d+ "), "too_many"),
    (re.compile(r"got an unexpected keyword argument '([^']*)'"), "unexpected"),
    (re.compile(r"got multiple values for argument '([^']*)'"), "multiple"),
    (re.compile(r"missing \d+ required (positional|keyword-only) arguments?: (.*)$"), "missing"),
    (re.compile(r"got some positional-only arguments passed as keyword arguments"), "other"),
]


def classify(exc, qualified):
    """observation of one compile() from the exception chain (never from the message of tempren's
    own errors; CPython's TypeError wording is used only to sub-classify a binding error)"""
    if exc is None:
        return ("accept",)
    if isinstance(exc, ContextMissingError):
        return ("ctx_missing",)
    if isinstance(exc, ContextForbiddenError):
        return ("ctx_forbidden",)
    if isinstance(exc, ConfigurationError):
        cause = exc.__cause__
        frames = []
        tb = cause.__traceback__ if cause is not None else None
        while tb is not None:
            frames.append(tb.tb_frame.f_code.co_name)
            tb = tb.tb_next
        if "configure" in frames:
            return ("value",)          # raised by (or below) the body of configure: binding had succeeded
        if isinstance(cause, TypeError) and frames and frames[-1] in ("_rewrite_tag_placeholder", "__call__"):
            # raised by a call instruction itself (no frame of the callee exists): a binding error
            msg = str(cause)
            for rx, kind in BIND_PATTERNS:
                m = rx.search(msg)
                if m:
                    if kind in ("unexpected", "multiple"):
                        return ("bind", (kind, m.group(1)))
                    if kind == "missing":
                        return ("bind", ("missing", re.findall(r"'([^']*)'", m.group(2))))
                    return ("bind", (kind,))
            return ("bind", ("other",))
        return ("factory",)            # refused by the factory before configure was reached
    if isinstance(exc, (UnknownNameError, UnknownCategoryError, AmbiguousNameError)) and \
            str(getattr(exc, "tag_name", "")) == qualified:
        return ("lookup", type(exc).__name__)
    if isinstance(exc, TemplateError):
        return ("factory",)    # e.g. an alias whose own pattern does not compile (before configure is called)
    return ("other", "%s: %s" % (type(exc).__name__, str(exc)[:200]))


def lit(v):
    """a Python value as template argument text"""
    if isinstance(v, bool):
        return "True" if v else "False"
    if isinstance(v, int):
        return str(v)
    return "'" + v.replace("\\", "\\\\").replace("'", "\\'") + "'"


STR_POOL = ["a", " ", "m", "km", "KB", "%H", "image", "Make", "1", "x y", "MiB", "hour"]


def candidates(ann):
    if "int" in ann:
        return [1, -1, 2, 0, 10]
    if "bool" in ann:
        return [True, False]
    if "str" in ann:
        return STR_POOL
    if "float" in ann:
        return [1, 2]
    return ["a", 1, " "]


class TagUnderTest:
    def __init__(self, compiler, category, name, extra_cli, origin, source=None):
        self.compiler = compiler
        self.category = category
        self.name = name
        self.qualified = "%s.%s" % (category, name)
        self.extra_cli = extra_cli
        self.origin = origin
        self.source = source
        self.line = None
        self.reading = None
        self.calls = []
        self.base_found = False
        self.exhaustive = False

    def template(self, posvals, kwvals, ctx):
        args = [lit(v) for v in posvals] + ["%s=%s" % (k, lit(v)) for k, v in kwvals]
        text = "%" + self.qualified + "(" + ", ".join(args) + ")"
        if ctx == "x":
            text += "{x}"
        elif ctx == "":
            text += "{}"
        return text

    def compile(self, text):
        try:
            with impl.quiet_streams():
                self.compiler.compile(text)
        except BaseException as e:   # noqa: BLE001 — everything is an observation
            if isinstance(e, (KeyboardInterrupt, SystemExit)):
                raise
            return classify(e, self.qualified)
        return ("accept",)


def value_vectors(rd, names, base_vals, variant):
    """a value for each named parameter: the base value where known, else the variant-th candidate"""
    anns = {p[0]: p[1] for p in rd["pos"] + rd["kwonly"]}
    out = {}
    for n in names:
        c = candidates(anns.get(n, ""))
        if n in base_vals and variant < 3:
            out[n] = base_vals[n]
        else:
            out[n] = c[variant % len(c)]
    return out


def find_base(t, rd):
    """values for the required parameters (plus, if that is not enough, for one optional parameter
    passed by name) that configure accepts — search over the candidate pools"""
    req = [p for p in rd["pos"] + rd["kwonly"] if p[2] is None]
    opt = [p for p in rd["pos"] + rd["kwonly"] if p[2] is not None]
    ctx = "x" if rd["ctx"] is True else None
    pools = [candidates(p[1]) for p in req]
    extras = [None] + [(p[0], v) for p in opt for v in candidates(p[1])[:3]]
    n = 0
    for extra in extras:
        for combo in itertools.product(*pools):
            n += 1
            if n > 600:
                break
            vals = dict(zip([p[0] for p in req], combo))
            posvals = [vals[p[0]] for p in rd["pos"] if p[2] is None]
            kwvals = [(p[0], vals[p[0]]) for p in rd["kwonly"] if p[2] is None] + ([extra] if extra else [])
            if t.compile(t.template(posvals, kwvals, ctx)) == ("accept",):
                return vals, extra, True
    return {p[0]: candidates(p[1])[0] for p in req}, None, False


def call_shapes(rd, rng, n_random):
    """(npos, [keyword names], n_extra_positional_values) — the call family of the property"""
    pos = [p[0] for p in rd["pos"]]
    kwo = [p[0] for p in rd["kwonly"]]
    req_pos = [p[0] for p in rd["pos"] if p[2] is None]
    req_kwo = [p[0] for p in rd["kwonly"] if p[2] is None]
    nreq = len(req_pos)           # required positionals are a prefix of pos (Python rule)
    declared = set(pos + kwo)
    for v in (rd["varpos"], rd["varkw"]):
        if v:
            declared.add(v[0])
    undeclared = next(n for n in ["undeclared", "zz", "q_", "nope"] if n not in declared)
    shapes = []
    add = lambda why, npos, kws: shapes.append((why, npos, list(kws)))
    add("base", nreq, req_kwo)
    add("required by name", 0, req_pos + req_kwo)
    for i, p in enumerate(pos):
        # p by name: everything before it that is required goes positionally when contiguous
        k = min(i, nreq)
        add("named " + p, k, [q for q in req_pos[k:] if q != p] + [p] + req_kwo)
        add("positional " + p, i + 1, [q for q in req_pos[i + 1:]] + req_kwo)
        if i < max(nreq, 1) or True:
            add("twice " + p, i + 1, [q for q in req_pos[i + 1:]] + [p] + req_kwo)
    for p in kwo:
        add("named " + p, nreq, [q for q in req_kwo if q != p] + [p])
    add("all positional", len(pos), kwo)
    add("all named", 0, pos + kwo)
    for p in req_pos:
        i = pos.index(p)
        add("omitted " + p, min(i, nreq), [q for q in req_pos if q != p and pos.index(q) >= min(i, nreq)] + req_kwo)
    for p in req_kwo:
        add("omitted " + p, nreq, [q for q in req_kwo if q != p])
    add("undeclared name", nreq, req_kwo + [undeclared])
    add("one positional too many", len(pos) + 1, req_kwo)
    add("three positionals too many", len(pos) + 3, req_kwo)
    if rd["varpos"]:
        add("name of *args as keyword", nreq, req_kwo + [rd["varpos"][0]])
    if rd["varkw"]:
        add("name of **kwargs as keyword", nreq, req_kwo + [rd["varkw"][0]])
    for _ in range(n_random):
        npos = rng.randrange(0, len(pos) + 3)
        names = [n for n in pos + kwo if rng.random() < 0.5]
        if rng.random() < 0.25:
            names.append(undeclared)
        if rng.random() < 0.15:
            names.append(rng.choice(["zz2", "Start", "self", "context", "file"]))
        rng.shuffle(names)
        add("random", npos, names)
    seen, out = set(), []
    for why, npos, kws in shapes:
        key = (npos, tuple(kws))
        if len(set(kws)) != len(kws) or key in seen:
            continue
        seen.add(key)
        out.append((why, npos, kws))
    return out


def exercise(t, rd, rng, n_random, stats):
    base_vals, extra, t.base_found = find_base(t, rd)
    pos_names = [p[0] for p in rd["pos"]]
    for why, npos, kws0 in (exhaustive_calls(rd) if t.exhaustive else call_shapes(rd, rng, n_random)):
        for ctx in ("x", None) + (("",) if why in ("base", "random") else ()):
            obs, text, kws = None, None, kws0
            attempts = [(kws0, v) for v in range(5)]
            if extra and extra[0] not in kws0 and extra[0] not in pos_names[:npos]:
                # the tag needs one of its optional parameters (e.g. Pad: left or right)
                attempts = [(kws0, 0), (kws0 + [extra[0]], 0)] + [(kws0 + [extra[0]], v) for v in range(1, 4)]
            for kws, variant in attempts:
                vals = value_vectors(rd, pos_names[:npos] + kws, base_vals, variant)
                if extra and variant == 0:
                    vals[extra[0]] = extra[1]
                posvals = []
                for i in range(npos):
                    if i < len(rd["pos"]):
                        posvals.append(vals[rd["pos"][i][0]])
                    else:
                        va = rd["varpos"][1] if rd["varpos"] else ""
                        posvals.append(candidates(va)[0] if va else "a")
                kwvals = [(k, vals.get(k, 1)) for k in kws]
                text = t.template(posvals, kwvals, ctx)
                obs = t.compile(text)
                if obs[0] != "value":
                    break
            t.calls.append({"why": why, "npos": npos, "kws": kws, "ctx": ctx is not None, "template": text, "obs": obs})
            key = obs[0] if obs[0] != "bind" else "bind:" + obs[1][0]
            stats["obs"][key] = stats["obs"].get(key, 0) + 1
            # the same call written twice in one template (side by side, and once inside a context of the other): what one
            # occurrence may do must not depend on the other occurrences of the tag in the same text
            if obs[0] == "accept" and kws and getattr(t, "_twice", 0) < 4 and text is not None and "|" not in text:
                t._twice = getattr(t, "_twice", 0) + 1
                for text2 in (text + "_" + text, text + "-x-" + text + "_" + text):
                    obs2 = t.compile(text2)
                    t.calls.append({"why": why + " (written twice in one template)", "npos": npos, "kws": kws, "ctx": ctx is not None,
                                    "template": text2, "obs": obs2})
                    stats["obs"]["twice:" + obs2[0]] = stats["obs"].get("twice:" + obs2[0], 0) + 1


def oracle_call(chk, t, rd, c):
    """the property's clauses on one call"""
    o = c["obs"][0]
    case = {"origin": t.origin, "tag": t.qualified, "help_line": t.line, "template": c["template"],
            "npos": c["npos"], "kws": c["kws"], "ctx": c["ctx"],
            "observed": list(c["obs"]), "cli_options": t.extra_cli, "class_source": t.source}
    if o == "other":
        chk.oracle_fail("a call is refused with something that is not a template error: %s" % (c["obs"][1],), case)
        return
    if o == "lookup":
        chk.oracle_fail("the tag shown by --help cannot be used in a template (%s)" % c["obs"][1], case)
        return
    if "(written twice in one template)" in c["why"] and o != "accept":
        chk.oracle_fail("a call that is accepted when written once is rejected when the same tag occurs twice in the template: %r" % (c["obs"],), case)
        return
    doc_bind = documented(rd, c["npos"], c["kws"])
    doc_ctx = rd["ctx"] is None or rd["ctx"] == c["ctx"]
    if not doc_bind:
        if o == "accept":
            chk.oracle_fail("a call outside the documented signature is accepted (%s)" % c["why"], case)
    elif not doc_ctx:
        if o == "accept":
            chk.oracle_fail("shown %s but accepted %s a context" % (
                "with {...}" if rd["ctx"] else "without a context marker", "without" if rd["ctx"] else "with"), case)
    else:
        if o in ("bind", "ctx_missing", "ctx_forbidden"):
            chk.oracle_fail("a documented call is rejected (%s): %r" % (c["why"], c["obs"]), case)


# ------------------------------------------------------------------ the CLI level

def help_first_line(argv_prefix, qualified, patch=None):
    res = cli_driver.run_cli(list(argv_prefix) + ["--help", qualified], "/", trace=False, before_main=patch)
    lines = [l for l in res.stdout.split("\n") if l.strip()]
    if res.status != 0 or not lines:
        return None, res
    l = lines[0]
    return (l[2:] if l.startswith("  ") else l), res


TREE = [("in/a.txt", "f", "A"), ("in/b.jpg", "f", "BB"), ("in/sub/c", "f", "C"), ("decoy.txt", "f", "D")]


def cli_rejections(chk, tags, per_tag, stats, patch=None):
    """each rejected call again through tempren.cli.main() on a real tree: status 3, nothing touched"""
    with Sandbox("verif-c13-") as root:
        cli_driver.build_tree(root, TREE)
        before = cli_driver.strict_snapshot(root)
        for t in tags:
            picked, kinds = [], set()
            for c in t.calls:
                o = c["obs"]
                kind = o[0] if o[0] != "bind" else "bind:" + o[1][0]
                if o[0] in ("bind", "ctx_missing", "ctx_forbidden", "value", "factory") and kind not in kinds:
                    kinds.add(kind); picked.append(c)
                if len(picked) >= per_tag:
                    break
            # (the generated registry has no Core category: there the host template is static text)
            host_tail, host_name = ("", "xname") if t.origin == "generated" else ("_%Core.Name()", "x%Core.Name()")
            # a documented call with positional values, with the options that only change what is printed: never a template error
            okc = [c for c in t.calls if c["obs"][0] == "accept" and c["npos"] > 0 and c["template"] and "twice" not in c["why"]][:1]
            for c in okc:
                for flags in (["-v"], ["-v", "-v"], ["-q"]):
                    res = cli_driver.run_cli(t.extra_cli + flags + ["-dr", "-r", "--", "x" + c["template"] + host_tail, os.path.join(root, "in")],
                                             root, root=root, snapshots=False, before_main=patch)
                    stats["cli_runs"] += 1
                    chk.count(("cli-accepted", t.qualified, c["template"], tuple(flags)))
                    if res.status in (2, 3):
                        chk.oracle_fail("a documented call is rejected (status %s) when run with %r" % (res.status, flags),
                                        {"origin": t.origin, "tag": t.qualified, "help_line": t.line, "template": c["template"], "cli_options": t.extra_cli + flags,
                                         "class_source": t.source, "cli_status": res.status, "stderr": res.stderr[-400:]})
            for ci, c in enumerate(picked):
                # the rejected call in the name template over a directory, or in the sort / filter template over explicitly named files
                shape = ci % 3
                if shape == 0:
                    argv = ["-r", "--", c["template"], os.path.join(root, "in")]
                elif shape == 1:
                    argv = ["-s", c["template"], "--", host_name, os.path.join(root, "in", "a.txt"), os.path.join(root, "in", "b.jpg")]
                else:
                    argv = ["-ft", c["template"] + " != 1", "--", host_name, os.path.join(root, "in", "a.txt"), os.path.join(root, "in")]
                res = cli_driver.run_cli(t.extra_cli + argv, root, root=root, snapshots=False, before_main=patch)
                after = cli_driver.strict_snapshot(root)
                stats["cli_runs"] += 1
                chk.count(("cli", t.qualified, c["template"]))
                case = {"origin": t.origin, "tag": t.qualified, "help_line": t.line, "template": c["template"],
                        "observed": list(c["obs"]), "cli_options": t.extra_cli, "class_source": t.source,
                        "cli_status": res.status, "stderr": res.stderr[-400:]}
                if res.status != 3:
                    chk.oracle_fail("rejected call gives exit status %r instead of 3" % (res.status,), case)
                elif after != before or res.tracer.calls or res.tracer.opens_for_write:
                    chk.oracle_fail("rejected call touched the tree", case)
                    before = after


# ------------------------------------------------------------------ generated tag classes

NAMES = ["a", "b", "width", "left", "fmt", "_x", "a1", "timeout_ms", "type", "format", "kw", "args", "pattern",
         "n", "unit", "Up", "kwargs", "value", "x_y", "Z9"]
ANNS = [("", 3), ("int", 3), ("str", 3), ("bool", 3), ("Optional[int]", 1), ("Dict[str, int]", 0.25)]
DEFAULTS = {
    "": ["None", "1", "'q'"],
    "int": ["0", "10", "-3"],
    "str": ["'x'", "' '", "''", "'a=b'", "\"it's\"", "'a, b'", "'(%'"],
    "bool": ["False", "True"],
    "Optional[int]": ["None", "5"],
    "Dict[str, int]": ["None"],
}


def gen_signature(rng):
    names = rng.sample(NAMES, 9)
    pick_ann = lambda: rng.choices([a for a, _ in ANNS], [w for _, w in ANNS])[0]
    npos = rng.choice([0, 0, 1, 1, 2, 2, 3, 4])
    ndef = rng.randrange(0, npos + 1)
    pos = []
    for i in range(npos):
        ann = pick_ann()
        d = rng.choice(DEFAULTS[ann]) if i >= npos - ndef else None
        pos.append((names.pop(), ann, d))
    varpos = (names.pop(), rng.choice(["", "str", "int"])) if rng.random() < 0.3 else None
    kwonly = []
    for _ in range(rng.choice([0, 0, 0, 1, 1, 2, 3])):
        ann = pick_ann()
        kwonly.append((names.pop(), ann, rng.choice(DEFAULTS[ann]) if rng.random() < 0.6 else None))
    varkw = (names.pop(), rng.choice(["", "str"])) if rng.random() < 0.25 else None
    ctx = rng.choice([None, True, False])
    return {"pos": pos, "varpos": varpos, "kwonly": kwonly, "varkw": varkw, "ctx": ctx}


def py_param(p):
    n, ann, d = p
    if ann:
        return n + ": " + ann + (" = " + d if d is not None else "")
    return n + ("=" + d if d is not None else "")


def gen_class_source(idx, sg, rng):
    parts = ["self"] + [py_param(p) for p in sg["pos"]]
    if sg["varpos"]:
        parts.append("*" + py_param(sg["varpos"] + (None,)))
    elif sg["kwonly"]:
        parts.append("*")
    parts += [py_param(p) for p in sg["kwonly"]]
    if sg["varkw"]:
        parts.append("**" + py_param(sg["varkw"] + (None,)))
    body = ["pass"]
    ordinary = sg["pos"] + sg["kwonly"]
    r = rng.random() if rng is not None else 1.0
    if ordinary and r < 0.35:
        p = rng.choice(ordinary)
        body = ["if %s in (-1, ' ', 'a'):" % p[0], "    raise ValueError('refused value')"]
    elif ordinary and r < 0.45:
        p = rng.choice(ordinary)
        body = ["if %s in (-1, ' ', 2):" % p[0], "    _helper()   # TypeError raised inside configure"]
    elif r < 0.5:
        body = ["assert False, 'never configurable'"]
    src = ["class G%dTag(Tag):" % idx, '    """Generated tag %d"""' % idx,
           "    require_context = %r" % (sg["ctx"],),
           "    def configure(%s):" % ", ".join(parts),
           '        """configure"""'] + ["        " + b for b in body] + \
          ["    def process(self, file, context):", "        return 'v'"]
    return "\n".join(src)


def exhaustive_signatures():
    """every shape with <= 2 positional parameters (defaults a suffix), optional *args, <= 1 keyword-only
    parameter (with / without default), optional **kwargs, each context requirement: 216 signatures"""
    out = []
    for npos in range(3):
        for ndef in range(npos + 1):
            for varpos in (None, ("rest", "str")):
                for kwo in ([], [("k", "int", None)], [("k", "int", "0")]):
                    for varkw in (None, ("extra", "")):
                        for ctx in (None, True, False):
                            pos = [(["a", "b"][i], ["int", ""][i], ("1" if i >= npos - ndef else None))
                                   for i in range(npos)]
                            out.append({"pos": pos, "varpos": varpos, "kwonly": list(kwo), "varkw": varkw,
                                        "ctx": ctx, "exhaustive": True})
    return out


def exhaustive_calls(rd):
    """all calls with 0..len(pos)+1 positional values and any subset of declared names + one undeclared"""
    names = [p[0] for p in rd["pos"] + rd["kwonly"]] + ["undeclared"]
    out = []
    for npos in range(len(rd["pos"]) + 2):
        for mask in range(1 << len(names)):
            out.append(("exhaustive", npos, [n for i, n in enumerate(names) if mask >> i & 1]))
    return out


def build_generated(rng, n, extra=()):
    """a fresh TagRegistry holding n generated classes (plus the given signatures) in category Gen"""
    reg = TagRegistry()
    cat = reg.register_category(CategoryName("Gen"))
    ns = {"Tag": Tag, "Optional": typing.Optional, "Dict": typing.Dict, "_helper": (lambda required: None)}
    out = []
    sigs = [gen_signature(rng) for _ in range(n)] + list(extra)
    for i, sg in enumerate(sigs):
        src = gen_class_source(i, sg, rng) if not sg.get("exhaustive") else gen_class_source(i, sg, None)
        exec(src, ns)     # noqa: S102 — harness-generated source
        cat.register_tag_class(ns["G%dTag" % i])
        out.append((i, sg, src))
    return reg, out


# ------------------------------------------------------------------ driver

def collect_tags(chk, stats, n_generated, extra_sigs=()):
    """[TagUnderTest] for the working tree's registry and for generated classes, help lines read
    through the CLI"""
    from pathlib import Path
    adhoc = {k: Path(v) for k, v in ADHOC.items() if os.path.exists(v)}
    reg = impl.registry(adhoc, dict(ALIASES))
    compiler = TemplateCompiler(reg)
    cli_opts = []
    for k, v in sorted(adhoc.items()):
        cli_opts += ["-ah", "%s=%s" % (k, v)]
    for k, v in sorted(ALIASES.items()):
        cli_opts += ["-a", "%s=%s" % (k, v)]
    tags = []
    for cat_key, cat in reg.category_map.items():
        for tag_name in cat.tag_map:
            origin = {"AdHoc": "ad-hoc", "Alias": "alias"}.get(str(cat_key), "built-in")
            t = TagUnderTest(compiler, str(cat_key), str(tag_name), cli_opts, origin)
            t.line, res = help_first_line(cli_opts, t.qualified)
            if t.line is None:
                chk.oracle_fail("--help %s gives no signature line (status %r)" % (t.qualified, res.status),
                                {"origin": origin, "tag": t.qualified, "cli_options": cli_opts,
                                 "stderr": res.stderr[-300:]})
                continue
            tags.append(t)
            stats["tags"][origin] = stats["tags"].get(origin, 0) + 1
    # generated classes: the CLI is pointed at a fresh registry by wrapping cli.build_tag_registry
    gen_reg, gens = build_generated(chk.rng, n_generated, extra_sigs)
    gen_compiler = TemplateCompiler(gen_reg)
    real = tcli.build_tag_registry

    def patch():
        tcli.build_tag_registry = lambda adhoc_tags, aliases: gen_reg
    render_cases, render_meta = [], []
    try:
        for idx, sg, src in gens:
            t = TagUnderTest(gen_compiler, "Gen", "G%d" % idx, [], "generated", src)
            t.line, res = help_first_line([], t.qualified, patch)
            t.gen_sig = sg
            t.exhaustive = bool(sg.get("exhaustive"))
            if t.line is None:
                chk.oracle_fail("--help %s gives no signature line" % t.qualified,
                                {"origin": "generated", "tag": t.qualified, "class_source": src,
                                 "stderr": res.stderr[-300:]})
                continue
            tags.append(t)
            stats["tags"]["generated"] = stats["tags"].get("generated", 0) + 1
            grammar_ok = all("," not in p[1] and (p[2] is None or "," not in p[2]) for p in sg["pos"] + sg["kwonly"])
            if grammar_ok:
                rd_like = dict(sg)
                render_cases.append("(%s, %s, %s, %s)" % (q_str(t.name), q_sig(rd_like), q_ctx(sg["ctx"]), q_str(t.line)))
                render_meta.append({"tag": t.qualified, "class_source": src, "help_line": t.line})
    finally:
        tcli.build_tag_registry = real
    return tags, (gen_reg, patch, real), render_cases, render_meta


class shared_unit_registry:
    """pint.UnitRegistry() costs ~2 s and AsDistance builds one per tag instance: hand out one shared
    instance while the check runs (third-party object, irrelevant to binding and context decisions)"""
    def __enter__(self):
        try:
            import pint
        except ImportError:
            self.pint = None
            return self
        self.pint, self.real, cache = pint, pint.UnitRegistry, {}

        def cached(*a, **k):
            if a or k:
                return self.real(*a, **k)
            if "u" not in cache:
                cache["u"] = self.real()
            return cache["u"]
        pint.UnitRegistry = cached
        return self

    def __exit__(self, *a):
        if self.pint is not None:
            self.pint.UnitRegistry = self.real
        return False


def run(chk):
    with shared_unit_registry():
        _run(chk)


def _run(chk):
    rng = chk.rng
    quick = chk.tier == "quick"
    n_generated = 200 if quick else 1000
    n_random = 10 if quick else 60
    stats = {"tags": {}, "obs": {}, "cli_runs": 0, "no_satisfiable_base": [], "outside_model_grammar": [],
             "unreadable_lines": [], "ctx_marker": {"optional": 0, "required": 0, "forbidden": 0},
             "shapes": {"varpos": 0, "varkw": 0, "kwonly": 0, "no_params": 0}}
    extra = exhaustive_signatures()
    if quick:
        extra = chk.rng.sample(extra, 12)
    stats["exhaustive_small_signatures"] = len(extra)
    tags, (gen_reg, patch, real), render_cases, render_meta = collect_tags(chk, stats, n_generated, extra)

    tested = []
    for t in tags:
        rd, why = read_line(t.line)
        case0 = {"origin": t.origin, "tag": t.qualified, "help_line": t.line, "cli_options": t.extra_cli,
                 "class_source": t.source}
        if rd is None:
            if why.startswith("unsupported"):
                stats["unreadable_lines"].append((t.qualified, why))
                continue
            chk.oracle_fail("the first line of --help is not a signature a user can read: %s" % why, case0)
            continue
        if rd["name"] != t.name:
            chk.oracle_fail("--help %s shows the signature of another tag (%s)" % (t.qualified, rd["name"]), case0)
            continue
        t.reading = rd
        if not rd["in_grammar"]:
            stats["outside_model_grammar"].append(t.qualified)
        stats["ctx_marker"][{None: "optional", True: "required", False: "forbidden"}[rd["ctx"]]] += 1
        for k in ("varpos", "varkw", "kwonly"):
            if rd[k]:
                stats["shapes"][k] += 1
        if not (rd["pos"] or rd["kwonly"] or rd["varpos"] or rd["varkw"]):
            stats["shapes"]["no_params"] += 1
        exercise(t, rd, rng, n_random, stats)
        if not t.base_found:
            stats["no_satisfiable_base"].append(t.qualified)
        for c in t.calls:
            chk.count((t.origin, t.line, c["npos"], tuple(c["kws"]), c["ctx"]))
            oracle_call(chk, t, rd, c)
        tested.append(t)
        if t.origin != "generated" and rd["pos"]:
            chk.sample({"tag": t.qualified, "help_line": t.line,
                        "calls": [(c["template"], c["obs"][0]) for c in t.calls[:5]]}, limit=4)
        elif t.origin == "generated":
            chk.sample({"tag": t.qualified, "help_line": t.line,
                        "calls": [(c["template"], c["obs"][0]) for c in t.calls[:5]]}, limit=6)

    # the same calls written inside an alias body: what the signature forbids is refused when the template that USES the
    # alias is compiled, what it allows is accepted (a misuse hidden in an alias must not wait for the first file)
    from tempren.template.exceptions import TemplateError as _TE
    al, expect = {}, {}
    for i, t in enumerate(x for x in tested if x.origin == "built-in" and x.category.lower() not in ("adhoc", "alias")):
        rej = [c for c in t.calls if c["obs"][0] in ("bind", "ctx_missing", "ctx_forbidden") and c["template"] and "|" not in c["template"]]
        acc = [c for c in t.calls if c["obs"][0] == "accept" and c["template"] and "|" not in c["template"] and "twice" not in c["why"]]
        if rej:
            al["Zr%d" % i] = rej[i % len(rej)]["template"]; expect["Zr%d" % i] = (False, t.qualified)
        if acc:
            al["Za%d" % i] = acc[i % len(acc)]["template"]; expect["Za%d" % i] = (True, t.qualified)
    if al:
        with impl.quiet_streams():
            comp_al = impl.compiler(impl.registry(aliases=al))
        for nm, (want_ok, q) in expect.items():
            for host in ("%" + nm + "()", "x_%Alias." + nm + "()_%Core.Name()"):
                try:
                    with impl.quiet_streams():
                        comp_al.compile(host)
                    got_ok, err = True, None
                except _TE as e:
                    got_ok, err = False, e
                except Exception as e:      # noqa: BLE001
                    got_ok, err = None, e
                chk.count(("alias-body", nm, host))
                stats["alias_body_calls"] = stats.get("alias_body_calls", 0) + 1
                if got_ok is not want_ok:
                    chk.oracle_fail("%s inside an alias body (%r): compiling %r %s, the same call written in the template is %s" % (
                        q, al[nm], host, "succeeds" if got_ok else "fails with %r" % (err,), "accepted" if want_ok else "rejected"),
                        {"origin": "alias body", "tag": q, "alias": {nm: al[nm]}, "template": host})

    # a documented parameter name with a character next to it that is not part of the template language ("start$", "#width"):
    # not a documented name, and not a name at all - refused
    comp0 = impl.compiler()
    n_stray = 0
    for t in (x for x in tested if x.origin == "built-in" and x.category.lower() not in ("adhoc", "alias")):
        rd = t.reading
        names_ = [p_[0] for p_ in (rd["pos"] + rd["kwonly"])][:2]
        for nm_ in names_:
            for text in ("%%%s(%s$=1){x}" % (t.qualified, nm_), "%%%s(#%s=1)" % (t.qualified, nm_), "%%%s(%s@)" % (t.qualified, nm_)):
                try:
                    with impl.quiet_streams():
                        comp0.compile(text)
                    ok = True
                except _TE:
                    ok = False
                except Exception:      # noqa: BLE001
                    ok = None
                n_stray += 1
                chk.count(("stray-char-name", text))
                if ok is not False:
                    chk.oracle_fail("a parameter name with a stray character is %s: %r" % ("accepted" if ok else "not refused as a template error", text),
                                    {"origin": "stray character next to a documented name", "tag": t.qualified, "help_line": t.line, "template": text})
    stats["stray_character_names"] = n_stray

    # CLI level (real registry, then generated registry)
    per_tag = 2 if quick else 5
    cli_rejections(chk, [t for t in tested if t.origin != "generated"], per_tag, stats)
    try:
        cli_rejections(chk, [t for t in tested if t.origin == "generated"][: (60 if quick else 500)],
                       per_tag, stats, patch)
    finally:
        tcli.build_tag_registry = real

    # correspondence: the model reads the line and binds the calls inside Coq
    cases = [q_tag_case(t) for t in tested]
    mism, errs = common.run_model_cases(IMPORTS, "tag_case", "tag_case_ok", cases, shard_size=40)
    for e in errs:
        chk.proof_failures.append({"what": "coqc on generated cases (%s)" % CORR, "log": e["output"]})
    for n_m, m in enumerate(mism):
        t = tested[m]
        rc, out = common.coq_eval_term(IMPORTS, "tag_case_report %s" % cases[m]) if n_m < 5 else (0, "(not re-evaluated)")
        kept = [c for c in t.calls if c["obs"][0] not in ("other", "lookup", "factory")]
        bad = []
        mm = re.search(r"=\s*\((true|false),\s*(\[[^\]]*\]|nil)\)", out)
        if mm and mm.group(2) != "nil":
            bad = [int(x.replace("%nat", "").strip()) for x in mm.group(2).strip("[]").split(";") if x.strip()]
        chk.corr_fail(CORR, {"origin": t.origin, "tag": t.qualified, "help_line": t.line, "class_source": t.source,
                             "cli_options": t.extra_cli,
                             "harness_reading": {k: t.reading[k] for k in ("pos", "varpos", "kwonly", "varkw", "ctx")},
                             "disagreeing_calls": [{"template": kept[i]["template"], "npos": kept[i]["npos"],
                                                    "kws": kept[i]["kws"], "ctx": kept[i]["ctx"],
                                                    "impl": list(kept[i]["obs"])} for i in bad[:10]]},
                      model=out[-600:], impl="see case")
    if render_cases:
        mism, errs = common.run_model_cases(IMPORTS, "render_case", "render_case_ok", render_cases, shard_size=100)
        for e in errs:
            chk.proof_failures.append({"what": "coqc on generated cases (%s)" % CORR_RENDER, "log": e["output"]})
        for m in mism:
            chk.corr_fail(CORR_RENDER, render_meta[m])
        for _ in render_cases:
            chk.count(("render", _))

    stats["generated_classes"] = n_generated
    stats["calls_per_tag_avg"] = round(sum(len(t.calls) for t in tested) / max(1, len(tested)), 1)
    chk.coverage["rule"] = (
        "every tag enumerated from build_tag_registry of the working tree (built-in, ad-hoc -ah, alias -a) plus generated "
        "tag classes with random signatures in a fresh TagRegistry; first line of `--help Cat.Tag` obtained through "
        "tempren.cli.main(); per tag the call family {context, no context, empty context} x {base, each parameter by name / by "
        "position / twice, all, each required one omitted, undeclared name, too many positionals, names of *args/**kwargs as "
        "keywords, random calls}; thorough: all 216 signatures with <= 2 positional, <= 1 keyword-only parameter, *args, **kwargs x all calls "
        "with <= len+1 positionals and any subset of names + an undeclared one (quick: 12 of them); values from the annotation with a search for a satisfiable base; each call compiled by the "
        "real TemplateCompiler; a case is distinct by (origin, help line, number of positionals, keyword names, context); "
        "plus one CLI run on a real tree per sampled rejection and one render comparison per generated class")
    chk.coverage["input_distribution"] = stats
    chk.coverage["trusted_base"] = common.BASE_TRUSTED + [
        "modelled, not verified: CPython's argument binding (order of checks), inspect.Signature.__str__, the except chain of cli.main",
        "the harness's classification of the exception chain (ConfigurationError.__cause__ is a TypeError raised with no configure frame "
        "= binding error; sub-class from CPython's TypeError wording, unrecognised wording compares equal to any binding class)",
        "the harness's own reader of the help line (bracket/quote aware) used by the oracle; the model's reader is compared with it on every line "
        "that has no comma inside an annotation or default"]
    chk.assumptions += [
        "values refused by a configure body (value errors) are outside the property; such calls only check that binding succeeded",
        "annotation and default texts are opaque; the model's reader requires them free of ',' (annotations also of '='); lines outside "
        "that grammar are read by the harness only (listed under outside_model_grammar)",
        "positional-only parameters and return annotations are not modelled (none occur; such a tag would be listed under unreadable_lines)",
        "sampled tie: agreement of model and compiler is established on the generated calls only"]


def replay(chk, obj):
    """re-run the stored calls on the implementation and on the model"""
    from pathlib import Path
    items = obj.get("failures") or [{"case": c["case"], "what": c.get("correspondence")} for c in obj.get("broken_correspondence", [])]
    rc = 0
    for it in items[:20]:
        case = it["case"]
        print("---", it.get("what"))
        print("tag:", case.get("tag"), "| help line:", case.get("help_line"))
        if case.get("origin") == "generated" and case.get("class_source"):
            reg = TagRegistry()
            ns = {"Tag": Tag, "Optional": typing.Optional, "Dict": typing.Dict, "_helper": (lambda required: None)}
            exec(case["class_source"], ns)   # noqa: S102
            cls = [v for k, v in ns.items() if k.endswith("Tag") and k != "Tag"][0]
            reg.register_category(CategoryName("Gen")).register_tag_class(cls)
        else:
            reg = impl.registry({k: Path(v) for k, v in ADHOC.items() if os.path.exists(v)}, dict(ALIASES))
        comp = TemplateCompiler(reg)
        cat, name = case["tag"].split(".")
        fac = reg.get_tag_factory(QualifiedTagName(name, cat))
        line = fac.configuration_signature.split("\n")[0]
        print("help line now:", line)
        rd, why = read_line(line)
        templates = [case["template"]] if case.get("template") else [c["template"] for c in case.get("disagreeing_calls", [])]
        for text in templates:
            t = TagUnderTest(comp, cat, name, [], case.get("origin"))
            obs = t.compile(text)
            print("template:", text, "-> implementation:", obs)
            if rd is not None:
                m = re.match(r"%[\w.]+\((.*)\)(\{.*\})?$", text, re.S)
                args = _top_level_split(m.group(1), ",") if m and m.group(1).strip() else []
                kws = [a.strip().split("=")[0] for a in args if re.match(r"\s*[A-Za-z_]\w*=", a)]
                npos = len(args) - len(kws)
                has_ctx = bool(m and m.group(2))
                if "npos" in case and len(templates) == 1:
                    npos, kws, has_ctx = case["npos"], case["kws"], case["ctx"]
                ok = documented(rd, npos, kws) and (rd["ctx"] is None or rd["ctx"] == has_ctx)
                print("  documented call:", ok)
                _, out = common.coq_eval_term(IMPORTS, "bind_call %s %s true %d%%nat %s %s" % (
                    q_sig(rd), q_ctx(rd["ctx"]), npos, common.q_strs(kws), q_bool(has_ctx)))
                print("  model:", out[-300:])
                if (obs[0] == "accept") != ok and obs[0] not in ("value", "factory"):
                    rc = 1
                if obs[0] in ("other", "lookup"):
                    rc = 1
    print("oracle verdict:", "FAIL" if rc else "ok")
    return rc
