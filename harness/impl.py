"""Access to the implementation under test: always imported from /repo's working tree."""
import io
import logging
import os
import sys
from pathlib import Path

REPO = os.environ.get("TEMPREN_REPO", "/repo")
if REPO not in sys.path:
    sys.path.insert(0, REPO)

import tempren  # noqa: E402

assert os.path.realpath(os.path.dirname(tempren.__file__)) == os.path.realpath(os.path.join(REPO, "tempren")), \
    "tempren must be imported from the repository working tree, got %s" % tempren.__file__

from tempren.primitives import File  # noqa: E402
from tempren.pipeline import build_tag_registry  # noqa: E402
from tempren.template.compiler import TemplateCompiler  # noqa: E402
from tempren.template.exceptions import TemplateError  # noqa: E402

logging.getLogger("antlr4").setLevel(logging.ERROR)


def registry(adhoc=None, aliases=None):
    return build_tag_registry(adhoc or {}, aliases or {})


_default_compiler = None


def compiler(reg=None):
    global _default_compiler
    if reg is not None:
        return TemplateCompiler(reg)
    if _default_compiler is None:
        _default_compiler = TemplateCompiler(registry())
    return _default_compiler


def compile_template(text, reg=None):
    return compiler(reg).compile(text)


def mkfile(input_dir, rel):
    return File(Path(input_dir), Path(rel))


def path_parts(p):
    """absolute Path -> list of components without the root"""
    return [x for x in Path(p).parts if x != "/"]


class quiet_streams:
    """Silence ANTLR's console error listener etc. while calling the implementation."""
    def __enter__(self):
        self.o, self.e = sys.stdout, sys.stderr
        sys.stdout, sys.stderr = io.StringIO(), io.StringIO()
        return self

    def __exit__(self, *a):
        self.out, self.err = sys.stdout.getvalue(), sys.stderr.getvalue()
        sys.stdout, sys.stderr = self.o, self.e
        return False
