#!/bin/sh
# Vendored probe program of the C20 check (ad-hoc tags).  POSIX sh, no compilation.
# It is registered with tempren as an ad-hoc tag (`-ah P=<copy or link of this file>`).
# On every invocation it records, into a fresh directory $PROBE_CFG/rec/<k> (k = 0,1,2,...
# in invocation order; tempren runs its programs sequentially):
#   name   basename of $0 (which registered tag this is)
#   argv   "$0" "$@" exactly, NUL-terminated each
#   cwd    physical working directory
#   fd0    what standard input is (link target of /proc/$$/fd/0)
#   stdin  every byte readable from standard input
# and then behaves as configured by files next to the record directory:
#   $PROBE_CFG/<name>.out   bytes copied to standard output   (absent = nothing)
#   $PROBE_CFG/<name>.err   bytes copied to standard error    (absent = nothing)
#   $PROBE_CFG/<name>.exit  exit status                       (absent = 0)
# Template arguments are never interpreted: everything is controlled by $PROBE_CFG.
d=$PROBE_CFG
[ -n "$d" ] && [ -d "$d/rec" ] || exit 97
name=${0##*/}
k=0
while ! mkdir "$d/rec/$k" 2>/dev/null; do
  k=$((k + 1))
  [ "$k" -gt 100000 ] && exit 98
done
r=$d/rec/$k
printf '%s' "$name" > "$r/name"
printf '%s\0' "$0" "$@" > "$r/argv"
printf '%s' "$(pwd -P)" > "$r/cwd"
printf '%s' "$(readlink "/proc/$$/fd/0")" > "$r/fd0"
cat > "$r/stdin"
[ -f "$d/$name.out" ] && cat "$d/$name.out"
[ -f "$d/$name.err" ] && cat "$d/$name.err" >&2
code=0
[ -f "$d/$name.exit" ] && code=$(cat "$d/$name.exit")
: > "$r/done"
exit "$code"
