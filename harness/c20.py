"""C20 — ad-hoc tags pass arguments, context and file path to the program verbatim.

Implementation side: the real `tempren.cli.main()` in-process with `-ah NAME=<link to probe.sh>`
(name and path mode, sort / filter expressions, several roots, nested directories, explicit file
inputs) and direct `AdHocTag.configure/process` calls for the inputs a one-line template cannot
spell.  The vendored probe (harness/probe.sh) records argv, stdin, cwd and what fd 0 is into a
side directory; the oracle compares them with what the property says, the correspondence
compares them (and the returned value) with Tags/AdHoc.v evaluated inside Coq."""
import json
import os
import random
import shutil
import stat
import subprocess
import sys
from pathlib import Path

import common
from common import q_Z, q_list, q_opt, q_str, q_strs
import impl
import cli_driver
from sandbox import Sandbox

import tempren.adhoc as tadhoc
from tempren.exceptions import MissingMetadataError, ExecutionTimeoutError

PROBE = os.path.join(os.path.dirname(os.path.abspath(__file__)), "probe.sh")
MARKER = b"C20-HARNESS-STDIN-MARKER: an ad-hoc program must never read this\n"
CANARY = "C20CANARY"

WS_TABLE = [9, 10, 11, 12, 13, 28, 29, 30, 31, 32, 133, 160, 5760, 8192, 8193, 8194, 8195, 8196, 8197,
            8198, 8199, 8200, 8201, 8202, 8232, 8233, 8239, 8287, 12288]    # = Tags/AdHoc.v ws_table


# --------------------------------------------------------------------------- plumbing

class HarnessStdin:
    """Gives the harness process a recognisable standard input (a regular file holding MARKER)
    for the duration of the check, so that a program which wrongly inherits tempren's stdin is
    detected (fd 0 of the child is that file) and can never block on a terminal or pipe."""

    def __enter__(self):
        d = common.scratch_root()
        self.path = os.path.realpath(os.path.join(d, "verif-c20-stdin-%d" % os.getpid()))
        with open(self.path, "wb") as fh:
            fh.write(MARKER)
        try:
            self.saved = os.dup(0)
        except OSError:
            self.saved = None
        fd = os.open(self.path, os.O_RDONLY)
        os.dup2(fd, 0)
        os.close(fd)
        return self

    def __exit__(self, *a):
        if self.saved is not None:
            os.dup2(self.saved, 0)
            os.close(self.saved)
        else:
            os.close(0)
        try:
            os.unlink(self.path)
        except OSError:
            pass
        return False


class ProcessSpy:
    """Records, from outside, every AdHocTag.process call (which program, which file, which
    context, what came back) in order.  The i-th call corresponds to the i-th probe record."""

    def __init__(self):
        self.calls = []

    def __enter__(self):
        self.orig = tadhoc.AdHocTag.process
        spy = self

        def process(tag, file, context):
            rec = {"exe": str(tag.executable), "dir": str(file.input_directory),
                   "rel": str(file.relative_path), "ctx": context, "harness_cwd": os.getcwd()}
            spy.calls.append(rec)
            # timeouts are outside C20: machine load must not turn into a false alarm
            tag.timeout_ms = max(tag.timeout_ms, 120000)
            try:
                v = spy.orig(tag, file, context)
            except MissingMetadataError:
                rec["outcome"] = ("missing", None); raise
            except UnicodeDecodeError:
                rec["outcome"] = ("decode", None); raise
            except UnicodeEncodeError:
                rec["outcome"] = ("encode", None); raise
            except ExecutionTimeoutError:
                rec["outcome"] = ("timeout", None); raise
            except BaseException as e:
                rec["outcome"] = ("other", "%s: %s" % (type(e).__name__, e)); raise
            rec["outcome"] = ("value", v)
            return v
        tadhoc.AdHocTag.process = process
        return self

    def __exit__(self, *a):
        tadhoc.AdHocTag.process = self.orig
        return False


def read_records(cfg, marker_path):
    out = []
    d = os.path.join(cfg, "rec")
    k = 0
    while os.path.isdir(os.path.join(d, str(k))):
        r = os.path.join(d, str(k))

        def rd(n):
            try:
                with open(os.path.join(r, n), "rb") as fh:
                    return fh.read()
            except OSError:
                return None
        argv_raw = rd("argv")
        argv = argv_raw.split(b"\0")[:-1] if argv_raw is not None else None
        fd0 = (rd("fd0") or b"").decode("utf-8", "surrogateescape")
        inherited = os.path.realpath(fd0) == marker_path if fd0.startswith("/") else False
        out.append({"name": (rd("name") or b"").decode(), "argv": argv, "cwd": (rd("cwd") or b"").decode("utf-8", "surrogateescape"),
                    "fd0": fd0, "inherited": inherited, "stdin": rd("stdin"), "done": rd("done") is not None})
        k += 1
    return out


def setup_cfg(cfg, behaviours):
    """behaviours: name -> (stdout bytes, stderr bytes, exit)."""
    os.makedirs(os.path.join(cfg, "rec"))
    for name, (o, e, x) in behaviours.items():
        with open(os.path.join(cfg, name + ".out"), "wb") as fh:
            fh.write(o)
        with open(os.path.join(cfg, name + ".err"), "wb") as fh:
            fh.write(e)
        with open(os.path.join(cfg, name + ".exit"), "w") as fh:
            fh.write(str(x))


def ws_strip(s):
    """Surrounding whitespace removed — written out, not str.strip()."""
    a, b = 0, len(s)
    while a < b and ord(s[a]) in WS_SET:
        a += 1
    while b > a and ord(s[b - 1]) in WS_SET:
        b -= 1
    return s[a:b]


WS_SET = set(WS_TABLE)


def expected_value(beh):
    o, e, x = beh
    if x != 0:
        return ""
    return ws_strip(o.decode("utf-8"))


def canaries(root):
    out = []
    for dp, dn, fn in os.walk(root):
        for n in dn + fn:
            if n == CANARY:          # exactly what `touch C20CANARY` / `> C20CANARY` run by a shell would leave
                out.append(os.path.join(dp, n))
    return out


# --------------------------------------------------------------------------- generators

HOSTILE_ARGS = [
    "", " ", "a b", "  two  spaces ", "'", "\"", "it's", "say \"hi\"", "$(touch %s)" % CANARY, "`touch %s`" % CANARY,
    "; touch %s" % CANARY, "&& touch %s" % CANARY, "| tee %s" % CANARY, "> %s" % CANARY, "$HOME", "${PATH}", "*", "?", "[a-z]*", "~",
    "-", "--", "-n", "-rf", "--help", "-e", "a;b", "a&b", "a|b", "(x)", "{a,b}", "{", "}", "%", "%Name()", "#c", "!", "!!",
    "é", "ñandú", "日本語", "\U0001F600", "a\u00a0b", "\u200b", "x=y", "a,b", "a, b", "1", "-1", "007", "true", "False",
    "tab\there", "line1\nline2", "\n", "cr\rx", " lead", "trail ", "a\\b", "C:\\dir", "a'b\"c", "$(", "$((1+1))", "\"; touch %s; \"" % CANARY,
    "' ; touch %s ; '" % CANARY, "<in", "2>&1", "&", "a  b", "\x7f", "\x01", "ａ", "\u0301", "ß", "İ",
]

HOSTILE_NAMES = [
    "-x", "--help", "-rf", "a b", "semi;colon", "$(touch %s)" % CANARY, "`touch %s`" % CANARY, "star*", "q?", "[x]", "am&p", "pi|pe",
    "quo'te", "dq\"x", "dollar$HOME", "gt>%s" % CANARY, "é.txt", "日本.jpg", "noext", "with.ext", "a.tar.gz", "tab\tname", "nl\nname",
    "back\\slash", "{brace}", "%Name()", "#hash", "!bang", "~tilde", " lead", "trail ", "x", "y.e", "\U0001F600.png", "-",
]

DIR_NAMES = ["sub", "sub dir", "-d", "$(touch %s)" % CANARY, "é", "a;b", "deep", "*", "q'q"]

ROOT_NAMES = ["in", "in two", "in;$(touch %s)" % CANARY, "-in", "ïn", "in*"]

OUT_TEXTS = ["v", "value", " v", "v ", "  v  ", "\tv\n", "v\n", "\n\nv\r\n", "a b", "a  b\n", "l1\nl2\n", "é\n", "日本\n", " \u00a0x\u2003\n",
             "\x1cx\x1f", "\x85y\u2028", "x\u200b ", "\u200bx", "", " ", "\n", " \t\r\n\x0b\x0c", "-", "--x", "$(touch %s)" % CANARY, "*", "a'b", "\U0001F600 ",
             "[x]", "]x[", "  inner \u3000 sp  ", "x\u3000", "\ufeffx "]

ERR_TEXTS = ["", "STDERRLEAK", "STDERRLEAK: warning\n", " STDERRLEAK é\n", "STDERRLEAK\nSTDERRLEAK2\n"]


def gen_args(rng, direct=False):
    n = rng.choice([0, 1, 1, 2, 2, 3, 4, 5])
    out = []
    for _ in range(n):
        r = rng.random()
        if r < 0.75:
            a = rng.choice(HOSTILE_ARGS)
        elif r < 0.9:
            a = rng.choice(HOSTILE_ARGS) + rng.choice([" ", "", "-", "\n"]) + rng.choice(HOSTILE_ARGS)
        else:
            a = "".join(rng.choice(" ab'\"$`*;-é\\\n{}|%()") for _ in range(rng.randrange(0, 9)))
        out.append(a)
    return out


# Template spelling of a string argument, independent of any model of the parser: the quote mark
# and (doubled) the backslash are the only escapes.  Arguments in the domain of the known C10
# findings F15/F16 (sequential unescape: a backslash directly before one of \ ' " { } | or at the
# end; a double quote inside a double-quoted string) are not routed through templates — the
# template -> argument step is C10's; they are exercised by the direct route instead.
ESC_FOLLOW = set("\\'\"{}|")


def template_safe_arg(a):
    for i, c in enumerate(a):
        if c == "\\" and (i + 1 == len(a) or a[i + 1] in ESC_FOLLOW):
            return False
    return True


def quote_arg(rng, a):
    q = "'"
    if '"' not in a and rng.random() < 0.4:
        q = '"'
    return q + a.replace("\\", "\\\\").replace(q, "\\" + q) + q


def quote_text(t):
    """Literal context text: { } | escaped; characters that raw text cannot carry are excluded by
    the generator (%, tab, newline, CR, backslash)."""
    return t.replace("{", "\\{").replace("}", "\\}").replace("|", "\\|")


TEXT_OK = lambda t: not any(c in t for c in "%\t\n\r\\")   # noqa: E731

CTX_TEXTS = ["x", "hello world", " lead", "trail ", "  ", "é", "日本語 テキスト", "\U0001F600", "a'b", "say \"hi\"", "$(touch %s)" % CANARY,
             "`touch %s`" % CANARY, "; touch %s" % CANARY, "*", "-n", "--", "{braces}", "a|b", "}{", "> %s" % CANARY, "a  b", "\u00a0",
             "#", "(x)", "a,b", "x=y"]


# --------------------------------------------------------------------------- one CLI run

def make_tree(rng, root, force_names=None):
    """Returns (roots, files) with files = [(input_dir, rel)] of regular files created."""
    if force_names:
        rp = os.path.join(root, "in")
        os.makedirs(os.path.join(rp, "sub dir"))
        files = []
        for i, n in enumerate(force_names):
            rel = n if i % 2 == 0 else os.path.join("sub dir", n)
            with open(os.path.join(rp, rel), "w") as fh:
                fh.write("content")
            files.append((rp, rel))
        return ["in"], files
    n_roots = rng.choice([1, 1, 2, 3])
    roots = rng.sample(ROOT_NAMES, n_roots)
    files = []
    for rn in roots:
        rp = os.path.join(root, rn)
        os.makedirs(rp)
        dirs = [""]
        for _ in range(rng.choice([0, 0, 1, 2, 3])):
            parent = rng.choice(dirs)
            d = os.path.join(parent, rng.choice(DIR_NAMES)) if parent else rng.choice(DIR_NAMES)
            if d not in dirs:
                dirs.append(d)
                os.makedirs(os.path.join(rp, d))
        used = set()
        for _ in range(rng.choice([1, 1, 2, 3])):
            d = rng.choice(dirs)
            n = rng.choice(HOSTILE_NAMES)
            rel = os.path.join(d, n) if d else n
            if rel in used or rel in dirs:
                continue
            used.add(rel)
            with open(os.path.join(rp, rel), "w") as fh:
                fh.write("content")
            files.append((rp, rel))
    return roots, files


def listing(root, skip):
    out = []
    for dp, dn, fn in os.walk(root):
        if dp.startswith(skip):
            continue
        for n in fn:
            p = os.path.join(dp, n)
            if not p.startswith(skip):
                out.append(os.path.relpath(p, root))
    return sorted(out)


def pure_suffix(name):
    return Path(name).suffix


def cli_case(chk, case_seed, stats, coq_cases, metas, force=None):
    """One tempren.cli.main() run with 1-3 probe tags, generated from its own seed (stored in the
    case, so that --replay can regenerate exactly this run).  Returns number of probe invocations."""
    rng = random.Random(case_seed)
    with Sandbox(prefix="verif-c20-") as root:
        cfg = os.path.join(root, "cfg")
        bindir = os.path.join(root, "cfg", "bin")
        tree = os.path.join(root, "t")
        os.makedirs(tree)
        beh = {}
        for name in ("P", "Q", "S"):
            o = rng.choice(OUT_TEXTS)
            if name == "Q" and rng.random() < 0.6:
                o = rng.choice(["l1\nl2", " multi\nline\ttab\n", "é\nñ\n\n", "\n x \n y \n", "a\r\nb"])
            x = 0 if rng.random() < 0.8 else rng.choice([1, 2, 127, 255])
            beh[name] = (o.encode("utf-8"), rng.choice(ERR_TEXTS).encode("utf-8"), x)
        setup_cfg(cfg, beh)
        os.makedirs(bindir)
        exe_style = rng.choice(["link", "link", "copy", "spacey"])
        exes = {}
        for name in ("P", "Q", "S"):
            d = bindir
            if exe_style == "spacey":
                d = os.path.join(bindir, "dir with space;$(touch %s)" % CANARY)
                os.makedirs(d, exist_ok=True)
            p = os.path.join(d, name)
            if exe_style == "copy":
                shutil.copy(PROBE, p)
                os.chmod(p, 0o755)
            else:
                os.symlink(PROBE, p)
            exes[name] = p
        roots, files = make_tree(rng, tree, (force or {}).get("names"))
        if not files:
            return 0
        mode = rng.choice(["name", "name", "path"])
        # ---- the template
        args = {}
        for name in ("P", "Q", "S"):
            a = gen_args(rng)
            args[name] = [x for x in a if template_safe_arg(x)]
        if force and "args_P" in force:
            args["P"] = list(force["args_P"])
        ctx_kind = rng.choice(["none", "none", "text", "text", "empty", "ext", "name", "probe", "probe_ctx"])
        call = lambda n: "%" + n + "(" + ", ".join(quote_arg(rng, a) for a in args[n]) + ")"   # noqa: E731
        ctx_text = None
        if ctx_kind == "none":
            ptag = call("P")
        elif ctx_kind == "text":
            ctx_text = rng.choice([t for t in CTX_TEXTS if TEXT_OK(t)])
            ptag = call("P") + "{" + quote_text(ctx_text) + "}"
        elif ctx_kind == "empty":
            ctx_text = ""
            ptag = call("P") + "{}"
        elif ctx_kind == "ext":
            ptag = call("P") + "{%Ext()}"
        elif ctx_kind == "name":
            ptag = call("P") + "{%Name()}"
        elif ctx_kind == "probe":
            ptag = call("P") + "{" + call("Q") + "}"
        else:
            ctx_text = rng.choice([t for t in CTX_TEXTS if TEXT_OK(t)])
            ptag = call("P") + "{" + call("Q") + "{" + quote_text(ctx_text) + "}}"
        body = "%Name()[" + ptag + "]"
        template = ("%Dir()/o/" + body) if mode == "path" else body
        argv = ["-ih"]
        if any("/" in rel for _, rel in files) or rng.random() < 0.5:
            argv.append("-r")
        recursive = "-r" in argv
        argv.append("-p" if mode == "path" else "-n")
        rel_exe = rng.random() < 0.4        # the program named relative to the caller's working directory (with a directory part)
        for name in ("P", "Q", "S"):
            argv += ["-ah", "%s=%s" % (name, os.path.relpath(exes[name], root) if rel_exe else exes[name])]
        stats["relative_executable_paths"] = stats.get("relative_executable_paths", 0) + (1 if rel_exe else 0)
        use_sort = rng.random() < 0.3
        use_filter = (not use_sort) and rng.random() < 0.15
        if use_sort:
            argv += ["-s", call("S")]
        if use_filter:
            argv += ["-ft", call("S") + " == " + call("S")]
        explicit = (not recursive) and rng.random() < 0.2
        if explicit:
            inputs = [os.path.join(rp, rel) for rp, rel in files]
        else:
            inputs = [os.path.join(tree, r) for r in roots]
        argv += ["--", template] if rng.random() < 0.5 else [template]
        argv += inputs
        case = {"route": "cli", "case_seed": case_seed, "force": force, "argv": [a.replace(root, "<root>") for a in argv], "behaviour": {k: [v[0].decode(), v[1].decode(), v[2]] for k, v in beh.items()},
                "files": [[rp.replace(root, "<root>"), rel] for rp, rel in files], "args": args, "ctx_kind": ctx_kind}
        before = listing(tree, cfg)
        os.environ["PROBE_CFG"] = cfg
        os.lseek(0, 0, os.SEEK_SET)
        with ProcessSpy() as spy:
            res = cli_driver.run_cli(argv, root, trace=False)
        os.environ.pop("PROBE_CFG", None)
        recs = read_records(cfg, chk.c20_marker)
        after = listing(tree, cfg)
        stats["cli_runs"] += 1
        stats["mode"][mode] = stats["mode"].get(mode, 0) + 1
        stats["ctx_kind"][ctx_kind] = stats["ctx_kind"].get(ctx_kind, 0) + 1
        stats["roots"][len(roots)] = stats["roots"].get(len(roots), 0) + 1
        if use_sort:
            stats["with_sort"] += 1
        if use_filter:
            stats["with_filter"] += 1
        if explicit:
            stats["explicit_file_inputs"] += 1
        chk.count(("cli", tuple(case["argv"]), tuple(map(tuple, case["files"])), json.dumps(case["behaviour"], sort_keys=True)))
        # ---- oracle
        cn = canaries(root)
        if cn:
            chk.oracle_fail("a file only a shell would create appeared: %r" % cn[:3], case)
        if res.status != 0:
            chk.oracle_fail("tempren exit status %r (expected 0); stderr tail %r" % (res.status, res.stderr[-400:]), case)
            return len(recs)
        if len(recs) != len(spy.calls):
            chk.oracle_fail("%d AdHocTag.process calls but %d program invocations recorded" % (len(spy.calls), len(recs)), case)
            return len(recs)
        values = {n: expected_value(beh[n]) for n in beh}
        n_inv = 0
        seen_files = set()
        for call_rec, rec in zip(spy.calls, recs):
            n_inv += 1
            name = rec["name"]
            exe = exes[name]
            # which created file is this call about?  (dir, rel) expected from the tree and the inputs,
            # not from what the implementation says
            ab = os.path.join(call_rec["dir"], call_rec["rel"])
            hit = [(a, b) for a, b in files if os.path.join(a, b) == ab]
            if not hit:
                chk.oracle_fail("processed file %r is not one of the created files" % ab, dict(case, invocation=n_inv))
                continue
            rp, rel = hit[0]
            if explicit:
                rp, rel = os.path.dirname(ab), os.path.basename(ab)
            seen_files.add(hit[0])
            # what the template says this invocation must look like
            if name == "S":
                want_ctx = None
            elif name == "Q":
                want_ctx = ctx_text if ctx_kind == "probe_ctx" else None
            else:
                want_ctx = {"none": None, "text": ctx_text, "empty": "", "ext": pure_suffix(os.path.basename(rel)),
                            "name": os.path.basename(rel), "probe": values["Q"], "probe_ctx": values["Q"]}[ctx_kind]
            want_argv = [exe] + args[name] + ([rel] if want_ctx is None else [])
            want_argv_b = [a.encode("utf-8", "surrogateescape") for a in want_argv]
            sub = dict(case, invocation=n_inv - 1, tag=name, file=[rp.replace(root, "<root>"), rel])
            if call_rec["exe"] != exe:
                chk.oracle_fail("tag %s ran %r instead of %r" % (name, call_rec["exe"], exe), sub)
            if (call_rec["dir"], call_rec["rel"]) != (rp, rel):
                chk.oracle_fail("file presented as (%r, %r), expected input directory %r and relative path %r" % (
                    call_rec["dir"], call_rec["rel"], rp, rel), sub)
            if rec["argv"] != want_argv_b:
                chk.oracle_fail("argv received %r, expected %r" % (rec["argv"], want_argv_b), sub)
            if rec["cwd"] != os.path.realpath(rp):
                chk.oracle_fail("working directory %r, expected the input directory %r" % (rec["cwd"], rp), sub)
            if want_ctx is not None:
                stats["with_context"] += 1
                if want_ctx == "":
                    stats["empty_context"] += 1
                if "\n" in want_ctx:
                    stats["multiline_context"] += 1
                if any(ord(c) > 127 for c in want_ctx):
                    stats["nonascii_context"] += 1
                if rec["inherited"]:
                    chk.oracle_fail("context %r given but the program inherited tempren's standard input (read %r) instead of "
                                    "receiving the context bytes" % (want_ctx, rec["stdin"][:40]), sub,
                                    finding="F24" if want_ctx == "" else None)
                elif rec["stdin"] != want_ctx.encode("utf-8"):
                    chk.oracle_fail("stdin received %r, expected %r" % (rec["stdin"], want_ctx.encode("utf-8")), sub)
            oc = call_rec.get("outcome", ("other", "no outcome"))
            want_oc = ("value", values[name]) if beh[name][2] == 0 else ("missing", None)
            # a failed program contributes "" to the name: raising MissingMetadataError (rendered as "" by
            # TagInstance.process) and returning "" are the same to the user
            if oc != want_oc and not (beh[name][2] != 0 and oc == ("value", "")):
                chk.oracle_fail("tag %s gave %r, expected %r (stdout %r, exit %d)" % (name, oc, want_oc, beh[name][0], beh[name][2]), sub)
            stats["argc"][len(args[name])] = stats["argc"].get(len(args[name]), 0) + 1
            if beh[name][2] != 0:
                stats["nonzero_exit"] += 1
            # correspondence case: the model of AdHocTag.process on what process was given
            coq_cases.append(q_case(exe, args[name], rel, rp, call_rec["ctx"], beh[name], rec, oc))
            metas.append(sub)
        # final names: Name[value] (under out/ in path mode), nothing of stderr
        pv = values["P"]
        want_after = []
        for rp, rel in files:
            if (rp, rel) not in seen_files:
                chk.oracle_fail("no program invocation for the file %r" % rel, case)
            base = os.path.basename(rel)
            new = os.path.join(rp, os.path.dirname(rel), ("o/" if mode == "path" else "") + base + "[" + pv + "]")
            want_after.append(os.path.relpath(new, tree))
        bad_names = [n for n in after if "STDERRLEAK" in n]
        if bad_names:
            chk.oracle_fail("standard error text leaked into names: %r" % bad_names[:3], case)
        collide = len(set(want_after)) != len(want_after)
        if not collide and sorted(want_after) != after:
            chk.oracle_fail("final names %r, expected %r" % (after, sorted(want_after)), case)
        if stats["cli_runs"] <= 3:
            chk.sample({"argv": case["argv"], "before": before, "after": after,
                        "probe_argv": [[a.decode("utf-8", "replace") for a in r["argv"]] for r in recs][:3]})
        return n_inv


def repeated_tag_case(chk, case_seed, stats):
    """One ad-hoc tag used several times in ONE run with different argument lists (twice in the name
    template — once with a context —, and in the sort expression): every occurrence is its own
    instance, so every invocation must carry exactly the arguments written at ITS occurrence."""
    rng = random.Random(case_seed)
    with Sandbox(prefix="verif-c20r-") as root:
        cfg = os.path.join(root, "cfg")
        bindir = os.path.join(cfg, "bin")
        tree = os.path.join(root, "t")
        os.makedirs(os.path.join(tree, "in"))
        beh = {"P": (b"v\n", b"STDERRLEAK\n", 0)}
        setup_cfg(cfg, beh)
        os.makedirs(bindir)
        exe = os.path.join(bindir, "P")
        os.symlink(PROBE, exe)
        names = rng.sample(["a.txt", "b c.dat", "-d", "e'f"], rng.randrange(1, 4))
        for n in names:
            with open(os.path.join(tree, "in", n), "w") as fh:
                fh.write(n)
        pool = [a for a in HOSTILE_ARGS if template_safe_arg(a)] + ["one", "two", "three", "", "x y"]
        occ = [[rng.choice(pool) for _ in range(rng.randrange(0, 4))] for _ in range(3)]
        if occ[0] == occ[1]:
            occ[1] = occ[1] + ["differs"]
        call = lambda a: "%P(" + ", ".join(quote_arg(rng, x) for x in a) + ")"   # noqa: E731
        template = "%Name()[" + call(occ[0]) + "][" + call(occ[1]) + "{ctx}]"
        argv = ["-ih", "-n", "-ah", "P=" + exe]
        use_sort = rng.random() < 0.5
        if use_sort:
            argv += ["-s", call(occ[2])]
        argv += ["--", template, os.path.join(tree, "in")]
        case = {"route": "cli-repeated", "case_seed": case_seed, "argv": [a.replace(root, "<root>") for a in argv], "occurrences": occ}
        os.environ["PROBE_CFG"] = cfg
        os.lseek(0, 0, os.SEEK_SET)
        res = cli_driver.run_cli(argv, root, trace=False)
        os.environ.pop("PROBE_CFG", None)
        recs = read_records(cfg, chk.c20_marker)
        stats["repeated_tag_runs"] = stats.get("repeated_tag_runs", 0) + 1
        chk.count(("cli-repeated", tuple(case["argv"])))
        if res.status != 0:
            chk.oracle_fail("tempren exit status %r (expected 0); stderr tail %r" % (res.status, res.stderr[-300:]), case)
            return len(recs)
        enc = lambda l: [x.encode("utf-8", "surrogateescape") for x in l]   # noqa: E731
        want = []
        for n in names:
            want.append(enc([exe] + occ[0] + [n]))
            want.append(enc([exe] + occ[1]))
            if use_sort:
                want.append(enc([exe] + occ[2] + [n]))
        got = [r["argv"] for r in recs]
        if sorted(map(tuple, got)) != sorted(map(tuple, want)):
            chk.oracle_fail("one tag used %d times with different arguments: the programs received %r, expected (in any order) %r"
                            % (3 if use_sort else 2, got[:6], want[:6]), case)
        return len(recs)


# --------------------------------------------------------------------------- Gallina

def q_bytes(b):
    return q_str(b) if b else "(@nil N)"


def q_cps(s):
    """str -> code points; surrogate escapes (undecodable file-name bytes) stay as lone surrogates."""
    return q_str(s)


def q_outcome(oc):
    kind, v = oc
    if kind == "value":
        return "(OValue %s)" % q_str(v)
    if kind == "missing":
        return "OMissing"
    if kind == "decode":
        return "ODecodeError"
    if kind == "encode":
        return "OEncodeError"
    return "OOther"


def q_case(exe, args, rel, d, ctx, beh, rec, oc):
    """adhoc_case := (exe, args, rel, dir, ctx, (exit, stdout, stderr), observation)."""
    if rec is None:
        obs = "None"
    else:
        argv = [a.decode("utf-8", "surrogateescape") for a in rec["argv"]]
        stdin = None if rec["inherited"] else rec["stdin"]
        obs = "(Some (%s, %s, %s))" % (q_strs(argv), q_opt(stdin, q_bytes, "list N"), q_str(rec["cwd"]))
    return "(%s, %s, %s, %s, %s, (%s, %s, %s), %s, %s)" % (
        q_str(exe), q_strs(args), q_str(rel), q_str(d), q_opt(ctx, q_str, "str"),
        q_Z(beh[2]), q_bytes(beh[0]), q_bytes(beh[1]), obs, q_outcome(oc))


# --------------------------------------------------------------------------- direct route

DIRECT_CTX = [None, None, "", "x", "multi\nline\n", "\n", "tab\there", "é", "日本語\nテキスト", "\U0001F600", "a\x00b", " sp ", "\r\n",
              "$(touch %s)" % CANARY, "\ud800", "ok\udfffx", "\U0010ffff", "\ud7ff\ue000", "x" * 5000]

DIRECT_OUT = [b"v", b" v \n", b"", b"\n", b"\xc3\xa9\n", b"\xff", b"\xc0\x80", b"\xed\xa0\x80", b"\xf4\x90\x80\x80", b"\xe2\x82", b"a\x00b",
              b"\xc2\x85x\xe2\x80\xa8", b"\xef\xbb\xbfx", b"x\xe3\x80\x80", b"\x1c\x1d\x1e\x1fq", b"q\xc2\xa0", b"\xf0\x9f\x98\x80 ", b"\xe1\x9a\x80z",
              # output that LOOKS like a number, a boolean or nothing: it is text all the same
              b"007", b"42\n", b" 0010 ", b"0", b"-5", b"1e3", b"3.50", b"True", b"None", b"\xd9\xa3", b"0x1F", b"1_000"]

DIRECT_ERR = [b"", b"STDERRLEAK\n", b"\xff\xfe", b"STDERRLEAK \xc3\xa9", b"\xc3"]


def direct_case(chk, rng, stats, coq_cases, metas, fixed=None):
    with Sandbox(prefix="verif-c20-") as root:
        cfg = os.path.join(root, "cfg")
        if fixed:
            args, ctx, o, e, x, rel = fixed["args"], fixed["ctx"], fixed["out"], fixed["err"], fixed["exit"], fixed["rel"]
        else:
            args = gen_args(rng, direct=True)
            ctx = rng.choice(DIRECT_CTX)
            o = rng.choice(DIRECT_OUT) if rng.random() < 0.7 else rng.choice(OUT_TEXTS).encode("utf-8")
            e = rng.choice(DIRECT_ERR)
            x = 0 if rng.random() < 0.65 else rng.choice([1, 2, 3, 126, 255])
            d = rng.choice(["", "sub dir", "-d/deep", "é"])
            n = rng.choice(HOSTILE_NAMES)
            rel = os.path.join(d, n) if d else n
        args = [a for a in args if "\x00" not in a]
        beh = {"P": (o, e, x)}
        setup_cfg(cfg, beh)
        exe = os.path.join(cfg, "P")
        os.symlink(PROBE, exe)
        ind = os.path.join(root, rng.choice(ROOT_NAMES))
        os.makedirs(os.path.dirname(os.path.join(ind, rel)), exist_ok=True)
        with open(os.path.join(ind, rel), "w") as fh:
            fh.write("c")
        case = {"route": "direct", "args": args, "ctx": ctx, "stdout": list(o), "stderr": list(e), "exit": x, "rel": rel,
                "input_dir": ind.replace(root, "<root>")}
        os.environ["PROBE_CFG"] = cfg
        os.lseek(0, 0, os.SEEK_SET)
        tag = tadhoc.AdHocTag(Path(exe))
        tag.configure(*args)
        f = impl.mkfile(ind, rel)
        old = os.getcwd()
        os.chdir(root)        # NOT the input directory: cwd= must be what moves the program there
        try:
            with ProcessSpy() as spy:
                try:
                    tag.process(f, ctx)
                except Exception:
                    pass
        finally:
            os.chdir(old)
            os.environ.pop("PROBE_CFG", None)
        oc = spy.calls[0].get("outcome", ("other", None))
        recs = read_records(cfg, chk.c20_marker)
        stats["direct_runs"] += 1
        chk.count(("direct", tuple(args), ctx, o, e, x, rel))
        cn = canaries(root)
        if cn:
            chk.oracle_fail("a file only a shell would create appeared: %r" % cn[:3], case)
        scalar_ctx = ctx is None or not any(0xD800 <= ord(c) <= 0xDFFF for c in ctx)
        if not scalar_ctx:
            stats["surrogate_context"] += 1
            rec = recs[0] if recs else None
            coq_cases.append(q_case(exe, args, rel, str(f.input_directory), ctx, (o, e, x), recs[0] if recs else None, oc))
            metas.append(case)
            return len(recs)
        if len(recs) != 1:
            chk.oracle_fail("%d program invocations recorded, expected 1" % len(recs), case)
            return len(recs)
        rec = recs[0]
        want_argv = [exe.encode()] + [a.encode("utf-8") for a in args] + ([rel.encode("utf-8", "surrogateescape")] if ctx is None else [])
        if rec["argv"] != want_argv:
            chk.oracle_fail("argv received %r, expected %r" % (rec["argv"], want_argv), case)
        if rec["cwd"] != os.path.realpath(ind):
            chk.oracle_fail("working directory %r, expected the input directory %r" % (rec["cwd"], ind), case)
        if ctx is not None:
            stats["with_context"] += 1
            if ctx == "":
                stats["empty_context"] += 1
            if "\n" in ctx:
                stats["multiline_context"] += 1
            if any(ord(c) > 127 for c in ctx):
                stats["nonascii_context"] += 1
            if rec["inherited"]:
                chk.oracle_fail("context %r given but the program inherited the caller's standard input (read %r)" % (ctx, rec["stdin"][:40]),
                                case, finding="F24" if ctx == "" else None)
            elif rec["stdin"] != ctx.encode("utf-8"):
                chk.oracle_fail("stdin received %r, expected %r" % (rec["stdin"][:80], ctx.encode("utf-8")[:80]), case)
        try:
            txt = o.decode("utf-8")
        except UnicodeDecodeError:
            txt = None
        if txt is not None:
            if x == 0:
                if oc != ("value", ws_strip(txt)):
                    chk.oracle_fail("value %r, expected stdout %r with surrounding whitespace removed" % (oc, txt), case)
            else:
                stats["nonzero_exit"] += 1
                # MissingMetadataError (rendered as "") — or a crash on undecodable stderr; never a value
                if oc[0] == "value" and oc[1] != "":
                    chk.oracle_fail("exit status %d but the tag produced the value %r" % (x, oc[1]), case)
        else:
            stats["undecodable_stdout"] += 1
        if oc[0] == "value" and "STDERRLEAK" in oc[1]:
            chk.oracle_fail("standard error text leaked into the value %r" % oc[1], case)
        stats["argc"][len(args)] = stats["argc"].get(len(args), 0) + 1
        coq_cases.append(q_case(exe, args, rel, str(f.input_directory), ctx, (o, e, x), rec, oc))
        metas.append(case)
        return 1


# --------------------------------------------------------------------------- real programs

def real_programs_case(chk, stats, via_subprocess=False):
    """The input of DESIGN §5 F24 with real programs: `cat` found through PATH, /bin/echo, and a probe
    registered without NAME= (tag name derived from the executable).  Oracle on final names only.
    via_subprocess: the same through a real `python -m tempren.cli` child process (nothing patched,
    no spy), to make sure the in-process driver hides nothing."""
    with Sandbox(prefix="verif-c20-") as root:
        cfg = os.path.join(root, "cfg")
        setup_cfg(cfg, {"Auto.sh": (b" auto\n", b"STDERRLEAK", 0)})
        auto = os.path.join(cfg, "Auto.sh")
        os.symlink(PROBE, auto)
        ind = os.path.join(root, "t", "in")
        os.makedirs(ind)
        for n in ("noext", "-x y.txt"):
            with open(os.path.join(ind, n), "w") as fh:
                fh.write("c")
        template = "%Name()[%Cat(){%Ext()}][%E('a  b', '$(touch " + CANARY + ")', '*', \"it's\")][%Auto('q'){z}]"
        argv = ["-ih", "-n", "-ah", "Cat=cat", "-ah", "E=/bin/echo", "-ah", auto, template, ind]
        case = {"route": "real", "argv": [a.replace(root, "<root>") for a in argv], "files": ["noext", "-x y.txt"]}
        os.environ["PROBE_CFG"] = cfg
        os.lseek(0, 0, os.SEEK_SET)
        if via_subprocess:
            case["route"] = "real-subprocess"
            p = subprocess.run([sys.executable, "-m", "tempren.cli"] + argv, cwd=root, stdin=0, capture_output=True, text=True, timeout=300)
            res = cli_driver.CliResult()
            res.status, res.stdout, res.stderr = p.returncode, p.stdout, p.stderr
        else:
            with ProcessSpy():
                res = cli_driver.run_cli(argv, root, trace=False)
        os.environ.pop("PROBE_CFG", None)
        recs = read_records(cfg, chk.c20_marker)
        after = sorted(os.listdir(ind))
        echo = "a  b $(touch " + CANARY + ") * it's "
        want = sorted(["noext[][" + echo + "noext][auto]", "-x y.txt[.txt][" + echo + "-x y.txt][auto]"])
        chk.count((case["route"], tuple(case["argv"])))
        stats["real_program_runs"] = stats.get("real_program_runs", 0) + 1
        if canaries(root):
            chk.oracle_fail("a file only a shell would create appeared: %r" % canaries(root)[:3], case)
        if any("C20-HARNESS-STDIN-MARKER" in n for n in after):
            chk.oracle_fail("`cat` with the empty context %%Ext() read tempren's standard input instead of zero bytes: names %r" % (after,),
                            case, finding="F24")
        elif res.status != 0 or after != want:
            chk.oracle_fail("status %r, final names %r, expected %r; stderr tail %r" % (res.status, after, want, res.stderr[-300:]), case)
        for r in recs:
            if r["argv"] != [auto.encode(), b"q"] or r["stdin"] != b"z" or r["cwd"] != os.path.realpath(ind) or r["inherited"]:
                chk.oracle_fail("probe registered without a name: argv %r stdin %r cwd %r" % (r["argv"], r["stdin"], r["cwd"]), case)
        if res.status == 0 and len(recs) != 2:
            chk.oracle_fail("%d invocations of the unnamed probe recorded, expected 2" % len(recs), case)
        return res


# --------------------------------------------------------------------------- tables vs CPython

def table_checks(chk, stats):
    """The model's finite tables against CPython, exhaustively over all code points."""
    # 1. whitespace table = { c : chr(c).isspace() } = what str.strip() removes
    ws = [c for c in range(0x110000) if chr(c).isspace()]
    ws2 = [c for c in range(0x110000) if ("a" + chr(c)).strip() == "a" and (chr(c) + "a").strip() == "a"]
    if ws != WS_TABLE or ws2 != WS_TABLE:
        chk.corr_fail("Tags.AdHoc.ws_table vs str.isspace/str.strip over all code points", {"python": ws, "model": WS_TABLE})
    rc, out = common.coq_eval_term(["Tags.AdHoc"], "ws_table")
    got = [int(x) for x in __import__("re").findall(r"\d+", out.split(":")[0])] if rc == 0 else None
    if got != WS_TABLE:
        chk.corr_fail("Tags.AdHoc.ws_table differs from the table the harness validated", {"coq": out[-500:], "harness": WS_TABLE})
    chk.coverage["evaluations"] += 0x110000
    stats["whitespace_table_checked_over"] = 0x110000
    # 2. UTF-8: rolling digest (mod 2^60, base 257) of the encoder's bytes over windows of scalar values, and
    #    decode(encode [c]) = Some [c] inside Coq.  thorough: ALL code points; quick: every class boundary
    #    region in full plus random windows.
    import re
    M = 2 ** 60
    if chk.tier == "quick":
        wins = [(0, 0x3000), (0xD000, 0x1100), (0xFF00, 0x200), (0x1F000, 0x800), (0x3FF00, 0x200), (0xFFF00, 0x200), (0x10FC00, 0x500)]
        wins += [(chk.rng.randrange(0, 0x110000 - 512), 512) for _ in range(25)]
    else:
        wins = [(lo, 0x1000) for lo in range(0, 0x110000, 0x1000)]
    shard_w = [wins[i::16] for i in range(16)]
    shard_w = [w for w in shard_w if w]
    expect = []
    for ws_ in shard_w:
        h = nb = 0
        for lo, n in ws_:
            for c in range(lo, lo + n):
                if 0xD800 <= c <= 0xDFFF or c >= 0x110000:
                    continue
                for b in chr(c).encode("utf-8"):
                    h = (h * 257 + b + 1) % M
                    nb += 1
        expect.append((h, nb))
    shards = ["From Tempren Require Import Base.Str Py.Utf8 Corr.AdHocCorr.\nOpen Scope N_scope.\n"
              "Eval vm_compute in (utf8_windows_digest [%s])." % "; ".join("(%d, %d)" % w for w in ws_) for ws_ in shard_w]
    res = common.coq_eval_shards(shards, timeout=1200)
    n_cp = 0
    for i, ((rc, out), exp) in enumerate(zip(res, expect)):
        m = re.search(r"=\s*\((\d+),\s*(\d+),\s*(true|false)\)", out) if rc == 0 else None
        if not m:
            chk.proof_failures.append({"what": "coqc utf8_windows_digest shard %d" % i, "log": out[-1500:]})
            continue
        dg, nb, rt = int(m.group(1)), int(m.group(2)), m.group(3) == "true"
        if not rt:
            chk.corr_fail("Py.Utf8: utf8_decode (utf8_encode_cp c) <> Some [c] (or a byte >= 256) inside windows %r" % (shard_w[i],), {"shard": i})
        if (dg, nb) != exp:
            chk.corr_fail("Py.Utf8.utf8_encode_cp vs str.encode('utf-8') (rolling digest over windows %r)" % (shard_w[i][:4],),
                          {"python": exp, "coq": [dg, nb]})
        n_cp += sum(n for _, n in shard_w[i])
    chk.coverage["evaluations"] += n_cp
    stats["utf8_encoder_checked_over_code_points"] = n_cp


def decoder_cases(chk, rng, n):
    """utf8_decode vs bytes.decode('utf-8') (strict): structured byte strings around every class boundary."""
    leads = [0x00, 0x7f, 0x80, 0xbf, 0xc0, 0xc1, 0xc2, 0xdf, 0xe0, 0xe1, 0xec, 0xed, 0xee, 0xef, 0xf0, 0xf1, 0xf3, 0xf4, 0xf5, 0xf7, 0xf8, 0xff]
    conts = [0x00, 0x7f, 0x80, 0x8f, 0x90, 0x9f, 0xa0, 0xbf, 0xc0, 0xff]
    seqs = []
    for a in leads:
        seqs.append(bytes([a]))
        for b in conts:
            seqs.append(bytes([a, b]))
            for c in (0x7f, 0x80, 0xbf, 0xc0):
                seqs.append(bytes([a, b, c]))
                for d in (0x7f, 0x80, 0xbf, 0xc0):
                    seqs.append(bytes([a, b, c, d]))
    for _ in range(n):
        k = rng.randrange(0, 7)
        if rng.random() < 0.5:
            s = "".join(chr(rng.choice([rng.randrange(0x80), rng.randrange(0x80, 0x800), rng.randrange(0x800, 0xd800),
                                        rng.randrange(0xe000, 0x10000), rng.randrange(0x10000, 0x110000)])) for _ in range(k)).encode("utf-8")
            if s and rng.random() < 0.5:
                i = rng.randrange(len(s))
                s = s[:i] + bytes([rng.randrange(256)]) + s[i + (rng.random() < 0.5):]
        else:
            s = bytes(rng.choice(leads + conts) for _ in range(k))
        seqs.append(s)
    cases = []
    for s in seqs:
        try:
            t = s.decode("utf-8")
            obs = "(Some %s)" % q_str(t)
        except UnicodeDecodeError:
            obs = "(@None str)"
        cases.append("(%s, %s)" % (q_bytes(s), obs))
        chk.coverage["evaluations"] += 1
    mism, errs = common.run_model_cases(["Py.Utf8", "Corr.AdHocCorr"], "list N * option str", "utf8_decode_case_ok", cases, shard_size=2000)
    for e in errs:
        chk.proof_failures.append({"what": "coqc on generated cases (Corr.AdHocCorr.utf8_decode_case_ok)", "log": e["output"]})
    for m in mism:
        chk.corr_fail("Corr.AdHocCorr.utf8_decode_case_ok (Py.Utf8.utf8_decode vs bytes.decode('utf-8'))", {"bytes": list(seqs[m])})
    return len(seqs)


def strip_cases(chk, rng, n):
    """py_strip vs str.strip() on strings dense in whitespace code points."""
    pool = WS_TABLE + [0x61, 0x62, 0x200b, 0xfeff, 0x180e, 0x1b, 0x7f, 0x84, 0x86, 0x2007, 0x202e, 0x3001, 0x2060, 0x0, 0x1a, 0x21, 0x2029, 0x2027]
    cases, strs = [], []
    for _ in range(n):
        s = "".join(chr(rng.choice(pool)) for _ in range(rng.randrange(0, 9)))
        strs.append(s)
        cases.append("(%s, %s)" % (q_str(s), q_str(s.strip())))
        chk.coverage["evaluations"] += 1
    mism, errs = common.run_model_cases(["Tags.AdHoc", "Corr.AdHocCorr"], "str * str", "strip_case_ok", cases, shard_size=2000)
    for e in errs:
        chk.proof_failures.append({"what": "coqc on generated cases (Corr.AdHocCorr.strip_case_ok)", "log": e["output"]})
    for m in mism:
        chk.corr_fail("Corr.AdHocCorr.strip_case_ok (Tags.AdHoc.py_strip vs str.strip())", {"string": [ord(c) for c in strs[m]]})


# --------------------------------------------------------------------------- entry points

def new_stats():
    return {"cli_runs": 0, "direct_runs": 0, "invocations": 0, "mode": {}, "ctx_kind": {}, "roots": {}, "argc": {},
            "with_sort": 0, "with_filter": 0, "explicit_file_inputs": 0, "with_context": 0, "empty_context": 0,
            "multiline_context": 0, "nonascii_context": 0, "nonzero_exit": 0, "undecodable_stdout": 0, "surrogate_context": 0}


def run_adhoc_cases(chk, coq_cases, metas):
    mism, errs = common.run_model_cases(["Tags.AdHoc", "Corr.AdHocCorr"], "adhoc_case", "adhoc_case_ok", coq_cases, shard_size=200)
    for e in errs:
        chk.proof_failures.append({"what": "coqc on generated cases (Corr.AdHocCorr.adhoc_case_ok)", "log": e["output"]})
    for m in mism:
        chk.corr_fail("Corr.AdHocCorr.adhoc_case_ok (Tags.AdHoc.adhoc_invocation / adhoc_outcome vs tempren.adhoc.AdHocTag.process + probe record)",
                      metas[m])


def run(chk):
    rng = chk.rng
    quick = chk.tier == "quick"
    target_cli = 330 if quick else 12000
    n_direct = 110 if quick else 6000
    stats = new_stats()
    coq_cases, metas = [], []
    with HarnessStdin() as hs:
        chk.c20_marker = hs.path
        # corpus / fixed inputs first: the F24 input of DESIGN §5 (empty context)
        cdir = os.path.join(common.VERIF, "corpus", "C20")
        fixed = []
        if os.path.isdir(cdir):
            for fn in sorted(os.listdir(cdir)):
                if fn.endswith(".json"):
                    obj = json.load(open(os.path.join(cdir, fn)))
                    for c in obj.get("cases", []):
                        fixed.append({"args": c["args"], "ctx": c["ctx"], "out": bytes(c["stdout"]), "err": bytes(c["stderr"]),
                                      "exit": c["exit"], "rel": c["rel"]})
        for fx in fixed:
            stats["invocations"] += direct_case(chk, rng, stats, coq_cases, metas, fixed=fx)
        stats["corpus_cases"] = len(fixed)
        real_programs_case(chk, stats)
        real_programs_case(chk, stats, via_subprocess=True)
        for k in range(12 if quick else 300):
            stats["invocations"] += repeated_tag_case(chk, rng.randrange(1 << 30), stats)
        # exhaustive small scopes: every hostile argument alone and every hostile file name through the CLI
        # (thorough: all of them; quick: a rotating slice chosen by the seed)
        safe_args = [a for a in HOSTILE_ARGS if template_safe_arg(a)]
        singles = [{"args_P": [a]} for a in safe_args] + [{"args_P": [a, a]} for a in safe_args[:10]]
        names = [{"names": HOSTILE_NAMES[i:i + 4]} for i in range(0, len(HOSTILE_NAMES), 4)]
        scope = singles + names
        if quick:
            k = rng.randrange(len(scope))
            scope = [scope[(k + 7 * j) % len(scope)] for j in range(12)]
        for fc in scope:
            stats["invocations"] += cli_case(chk, rng.getrandbits(48), stats, coq_cases, metas, force=fc)
        stats["small_scope_cli_runs"] = len(scope)
        while stats["invocations"] < target_cli:
            stats["invocations"] += cli_case(chk, rng.getrandbits(48), stats, coq_cases, metas)
        for _ in range(n_direct):
            stats["invocations"] += direct_case(chk, rng, stats, coq_cases, metas)
    run_adhoc_cases(chk, coq_cases, metas)
    table_checks(chk, stats)
    stats["decoder_cases"] = decoder_cases(chk, rng, 2000 if quick else 100000)
    strip_cases(chk, rng, 2000 if quick else 100000)
    chk.coverage["rule"] = (
        "real tempren.cli.main() in-process with three ad-hoc tags bound to the vendored probe (name/path mode, -r, sort and filter "
        "expressions, 1-3 roots, nested directories, explicit file inputs, executable path with spaces and metacharacters); 0-5 arguments per tag "
        "from a hostile pool (spaces, quotes, $(), backticks, globs, semicolons, leading dashes, non-ASCII, empty, newline, tab), spelled in "
        "the template with backslash/quote escaping only; contexts: none, literal, empty literal, %Ext() (empty on files without extension), "
        "%Name(), another probe's multi-line output; file and directory names with leading dashes and shell metacharacters; direct "
        "AdHocTag.configure/process calls for backslash-heavy arguments, NUL/multi-line/5000-char/surrogate contexts, undecodable stdout/stderr; "
        "a case is distinct by (argv, tree, behaviour) resp. (args, context, streams, exit, file); every case has >= 1 program invocation. "
        "Tables: whitespace table and UTF-8 encoder against CPython over ALL code points, decoder on boundary-structured byte strings")
    chk.coverage["input_distribution"] = stats
    chk.coverage["trusted_base"] = common.BASE_TRUSTED + [
        "harness/probe.sh (POSIX sh + coreutils cat/readlink/mkdir): the side-channel record of argv, stdin, cwd, fd 0",
        "modelled, not verified: str.encode('utf-8') / bytes.decode('utf-8') strict (Py/Utf8.v, encoder compared over all scalar values, decoder on "
        "boundary-structured byte strings), str.strip() whitespace table (compared over all code points)",
        "NOT modelled (observed by probe + canary only): subprocess.run / execve without a shell, pipe creation for input=, cwd= of the child",
        "arguments in the domain of C10's findings F15/F16 (backslash before \\ ' \" { } | or at the end) reach the program only through the direct "
        "configure/process route, not through template text"]
    chk.assumptions += [
        "execve semantics and 'no shell' are the kernel's and subprocess's: observed by the probe's byte-exact argv record and a canary, not proved",
        "the i-th AdHocTag.process call corresponds to the i-th probe record (tempren runs programs sequentially)",
        "the tie is sampled (differential); theorems are about Tags/AdHoc.v, Py/Utf8.v"]


def replay(chk, obj):
    """Re-runs the stored failing cases: a direct-route case from its stored inputs, a CLI-route case
    by regenerating the run from its stored case seed.  Prints implementation, oracle, model."""
    rc = 0
    fails = obj.get("failures") or [{"case": c["case"], "what": c.get("correspondence")} for c in obj.get("broken_correspondence", [])]
    for po in obj.get("broken_proof_obligations", []):
        print("broken proof obligation:", po.get("what"))
        print((po.get("log") or "")[-1500:])
        rc = 1
    stats = new_stats()
    seen = set()
    with HarnessStdin() as hs:
        chk.c20_marker = hs.path
        for f in fails[:40]:
            c = f["case"]
            key = json.dumps({k: c.get(k) for k in ("route", "case_seed", "args", "ctx", "stdout", "stderr", "exit", "rel")}, sort_keys=True)
            if key in seen:
                continue
            seen.add(key)
            print("stored:", f.get("what"))
            coq_cases, metas = [], []
            n0 = len(chk.oracle_failures)
            if c.get("route") == "cli":
                print("  regenerating CLI run from case seed %r: argv %r" % (c.get("case_seed"), c.get("argv")))
                cli_case(chk, c["case_seed"], stats, coq_cases, metas, force=c.get("force"))
            elif c.get("route") == "direct":
                direct_case(chk, chk.rng, stats, coq_cases, metas,
                            fixed={"args": c["args"], "ctx": c["ctx"], "out": bytes(c["stdout"]), "err": bytes(c["stderr"]),
                                   "exit": c["exit"], "rel": c["rel"]})
            elif c.get("route") in ("real", "real-subprocess"):
                print("  re-running the real-program scenario: argv %r" % (c.get("argv"),))
                real_programs_case(chk, stats, via_subprocess=c.get("route") == "real-subprocess")
            else:
                print("  table comparison (no single input to replay):", json.dumps(c)[:600])
                rc = 1
                continue
            for x in chk.oracle_failures[n0:]:
                print("  implementation: ORACLE FAILS:", x["what"])
                rc = 1
            if len(chk.oracle_failures) == n0:
                print("  implementation: oracle holds")
            if coq_cases:
                mism, errs = common.run_model_cases(["Tags.AdHoc", "Corr.AdHocCorr"], "adhoc_case", "adhoc_case_ok", coq_cases)
                for m in (mism or [])[:3]:
                    r, out = common.coq_eval_term(["Tags.AdHoc", "Corr.AdHocCorr"], "adhoc_case_model %s" % coq_cases[m])
                    print("  model on invocation %d:" % m, out[-700:])
                    print("  implementation on invocation %d (as Gallina):" % m, coq_cases[m][-700:])
                print("  correspondence:", "agrees on %d invocation(s)" % len(coq_cases) if not mism and not errs else "DIFFERS")
                if mism or errs:
                    rc = 1
    return rc
