"""C01 — nothing is lost or overwritten unless the user chose override."""
import json
import os

import common
import pipe


def oracle(chk, scn, obs):
    """In every snapshot: the multiset of non-directory entries (stable id, kind, content hash /
    link target) equals the initial one.  With shutil.move's copy fallback (not modelled) an
    entry may transiently exist twice, never zero times, and exactly once at the end."""
    if not pipe.safe_scenario(scn):
        return
    init = pipe.leaf_multiset(obs["initial"])
    fallback = not pipe.modelable(obs)
    states = obs["snapshots"] + [obs["final"]]
    for i, snap in enumerate(states):
        cur = pipe.leaf_multiset(snap)
        last = i == len(states) - 1
        if cur == init:
            continue
        if fallback and not last:
            if all(x in cur for x in init):
                continue
        lost = [x for x in init if x not in cur]
        extra = [x for x in cur if x not in init]
        chk.oracle_fail(
            "after %s of the run (status %s) the non-directory entries differ from the initial tree: lost %r, new/duplicated %r"
            % ("the end" if last else "call %d" % i, obs["status"], lost[:3], extra[:3]),
            {"scenario": pipe.slim(scn), "calls": obs["raw_calls"], "status": obs["status"]})
        return


def run_scenarios(chk, scns):
    obss = [pipe.run_impl(s) for s in scns]
    for s, o in zip(scns, obss):
        oracle(chk, s, o)
        chk.count((json.dumps(pipe.slim(s), sort_keys=True, default=str),), nontrivial=len(o["calls"]) > 0)
    return obss


def run(chk):
    rng = chk.rng
    quick = chk.tier == "quick"
    n_prim = 500 if quick else 6000
    n_scn = 1000 if quick else 30000
    scns = []
    # corpus first
    cdir = os.path.join(common.VERIF, "corpus", "C01")
    if os.path.isdir(cdir):
        for f in sorted(os.listdir(cdir)):
            if f.endswith(".json"):
                scns.append(json.load(open(os.path.join(cdir, f))))
    for s in scns:
        s["plan"] = [dict(e, r=tuple(e["r"])) for e in s["plan"]]
        s["tree"] = [tuple(x) for x in s["tree"]]
    n_corpus = len(scns)
    for i in range(n_scn):
        scns.append(pipe.gen_scenario(rng, big=(i % 7 == 0)))
    small = []
    for st in ("stop", "ignore"):
        for md in ("name", "path"):
            small += list(pipe.exhaustive_plans(2, mode=md, strategy=st))
            if not quick:
                small += list(pipe.exhaustive_plans(3, mode=md, strategy=st))
    scns += small
    obss = run_scenarios(chk, scns)
    # every fault index for a tenth of the scenarios, three random ones for another fifth
    fscns = []
    for i, (s, o) in enumerate(zip(scns, obss)):
        if s["dry"] or not o["calls"]:
            continue
        r = rng.random()
        if r < 0.10:
            fscns += pipe.with_faults(rng, s, o, max_faults=99)
        elif r < 0.30:
            fscns += pipe.with_faults(rng, s, o, max_faults=3)
    fobss = run_scenarios(chk, fscns)
    all_s, all_o = scns + fscns, obss + fobss
    excluded = pipe.check_cases(chk, all_s, all_o)
    nprim = pipe.check_fs_primitives(chk, n_prim)
    chk.coverage["evaluations"] += nprim
    for s, o in list(zip(all_s, all_o))[:3]:
        chk.sample({"mode": s["mode"], "strategy": s["strategy"], "plan": [(e["dir"], e["rel"], e["r"]) for e in s["plan"]][:5],
                    "status": o["status"], "calls": o["raw_calls"][:4]})
    chk.coverage["rule"] = (
        "generated trees (1-3 input roots, nested dirs, file/dir/dangling/outside/absolute symlinks, an input root reachable "
        "through a symlink, look-alike sibling 'in2') x injected plans (which file, in which order, what the template rendered: "
        "pool names that collide/chain/cycle, fresh names, invalid names, path spellings with .., ./, //, new/.., absolute paths, "
        "raising templates, duplicates, missing sources) x mode x strategy x scripted answers x dry-run, run through the real "
        "tempren.cli.main() with the gatherer/pattern replaced from outside; plus the same scenarios with an OSError injected at "
        "every (10%%) or three (20%%) of their rename/mkdir/move calls; a case is distinct by its full description and non-trivial "
        "if at least one system call was issued; plus %d filesystem-primitive cases (model vs kernel)" % nprim)
    chk.coverage["input_distribution"] = pipe.stats_of(all_s, all_o)
    chk.coverage["corpus_cases"] = n_corpus
    chk.coverage["exhaustive_small_scope"] = len(small)
    chk.coverage["fault_scenarios"] = len(fscns)
    chk.coverage["excluded_from_model_comparison"] = excluded
    chk.coverage["safe_scenarios_checked_by_oracle"] = sum(1 for s in all_s if pipe.safe_scenario(s))
    chk.coverage["trusted_base"] = common.BASE_TRUSTED + [
        "modelled, not verified: Linux path resolution, rename(2)/mkdir(2), pathlib (parse, with_name, parent, mkdir -p), "
        "os.path.lexists/exists/isdir/realpath, shutil.move (rename branch; the copy fallback is excluded by rule and covered by the oracle only)",
        "the plan is injected by wrapping tempren.cli.build_pipeline from outside (gatherer, filter, sorter and the compiled pattern are replaced; "
        "TemplateNameGenerator/TemplatePathGenerator, Pipeline.execute, the renamers, the prompt and cli.main are the real ones)"]
    chk.assumptions += [
        "single process, no concurrent modification of the tree, no hard links, POSIX filesystem (tmpfs)",
        "an injected fault replaces one outermost os.rename/os.mkdir/shutil.move call by OSError(EIO) without effect",
        "file identity = inode + content hash; no operation of a run writes file content"]


def replay(chk, obj):
    rc = 0
    for f in obj.get("failures", [])[:5] + [{"case": c.get("case")} for c in obj.get("broken_correspondence", [])[:5]]:
        case = f["case"]
        scn = case.get("scenario", case)
        if not scn or "plan" not in scn:
            continue
        scn["plan"] = [dict(e, r=tuple(e["r"])) for e in scn["plan"]]
        scn["tree"] = [tuple(x) for x in scn["tree"]]
        obs = pipe.run_impl(scn)
        print("scenario:", json.dumps(pipe.slim(scn), default=str)[:1500])
        print("implementation: status", obs["status"], "calls", obs["raw_calls"], "report", obs["report"])
        before = len(chk.oracle_failures)
        oracle(chk, scn, obs)
        print("oracle:", "VIOLATED: " + chk.oracle_failures[-1]["what"] if len(chk.oracle_failures) > before else "holds")
        if pipe.modelable(obs):
            r, out = common.coq_eval_term(["Py.PathLib", "FS.Model", "Pipe.Pipeline", "Corr.PipeCorr"],
                                          "pipe_check %s" % pipe.q_case(scn, obs))
            print("model vs implementation [status; final tree; calls; report; prompts]:", out[-300:])
        if len(chk.oracle_failures) > before:
            rc = 1
    return rc
