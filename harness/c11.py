"""C11 — pipe lists are exactly nested contexts.

For generated templates X (text, tags, nested contexts, themselves containing pipe lists), pipe
lengths 1-5 and random argument lists, the two spellings
      X|%A(args)|%B(args)        and        %B(args){%A(args){X}}
go (a) through the real TemplateParser.parse: both accepted, equal trees, equal to the tree the law
predicts; also inside an enclosing context; a non-tag after a pipe must be rejected;
(b) through tempren.cli.main() on generated directory trees with the built-in text tags: equal exit
status and equal final names.  Every text is also given to the model's [parse] inside Coq
(parse_case_ok: tree / rejection / first lexer-error position).
Known finding F31: a string literal whose body ends in a backslash swallows the text up to the next
quote mark, so the pipe spelling is rejected where the nested one is accepted.
"""
import json
import os

import common
import impl
import tplgen
from common import q_str
from tplgen import gen_style, print_pat, norm, real_parse_many, q_parse_case

IMPORTS = ["Tpl.Ast", "Tpl.Lexer", "Tpl.Visitor", "Tpl.Printer", "Corr.TplCorr"]


# --------------------------------------------------------------------------- spelling X with pipes inside

def spell_mixed(rng, sty, p, pipe_prob=0.5):
    """a text of pattern p: like the model's printer, but a pattern consisting of one tag with a
    context (and an argument list) may be written  context|%Tag(args)  — at top level and inside
    contexts, recursively"""
    if len(p) == 1 and p[0][0] == "tag" and p[0][5] is not None and rng.random() < pipe_prob:
        _, cat, name, args, kw, ctx = p[0]
        head = print_pat(dict(sty, parens=True), [("tag", cat, name, args, kw, None)])
        return spell_mixed(rng, sty, ctx, pipe_prob) + "|" + head
    out = []
    for e in p:
        if e[0] == "raw":
            out.append(tplgen.escape("{}|", e[1]))
            continue
        _, cat, name, args, kw, ctx = e
        head = print_pat(sty, [("tag", cat, name, args, kw, None if ctx is None else [])])
        if ctx is None:
            out.append(head)
        else:
            assert head.endswith("{}")
            out.append(head[:-1] + spell_mixed(rng, sty, ctx, pipe_prob) + "}")
    return "".join(out)


def gen_pipe_case(rng, depth, unstable=False):
    x = tplgen.gen_pat(rng, depth)
    sty = gen_style(rng)
    n = rng.randrange(1, 6)
    tags = [tplgen.gen_tag(rng, 1, ctx_prob=0.0) for _ in range(n)]
    tags = [("tag", t[1], t[2], t[3], t[4], None) for t in tags]
    if unstable:
        # a string value ending in a backslash somewhere before a later quote mark (F31)
        victim = rng.randrange(0, n)
        t = tags[victim]
        tags[victim] = ("tag", t[1], t[2], t[3] + [("s", rng.choice(["a\\", "\\", "C:\\dir\\"]))], t[4], None)
        tags.append(("tag", None, "Z", [("s", "z")], [], None))
    X = spell_mixed(rng, sty, x)
    Gs = [print_pat(dict(gen_style(rng), parens=True, dq=sty["dq"]) if unstable else dict(gen_style(rng), parens=True), [t])
          for t in tags]
    pipe = X + "".join("|" + g for g in Gs)
    nest = X
    for g in Gs:
        nest = g + "{" + nest + "}"
    expect = x
    for t in tags:
        expect = [("tag", t[1], t[2], t[3], t[4], expect)]
    return {"X": X, "tags": Gs, "pipe": pipe, "nest": nest, "expect": expect, "unstable": unstable}


def shape(p):
    """nesting structure only: names, categories, number of positional values, keyword names, contexts
    (whether every VALUE arrives verbatim is property C10, not C11)"""
    return [("raw",) if e[0] == "raw" else
            (e[1] and e[1].lower(), e[2], len(e[3]), sorted(k for k, _ in e[4]), None if e[5] is None else shape(e[5]))
            for e in p]


def judge_pair(chk, case, rp, rn, stream):
    rec = {"stream": stream, "X": case["X"], "tags": case["tags"], "pipe": case["pipe"], "nest": case["nest"]}
    finding = "F31" if case.get("unstable") else None
    if rp[0] == "crash" or rn[0] == "crash":
        chk.oracle_fail("a spelling crashed the parser: %s / %s" % (rp[2:4], rn[2:4]), rec, finding=None)
        return
    if rp[0] != rn[0]:
        chk.oracle_fail("one spelling is accepted, the other rejected (pipe: %s %s; nested: %s %s)" % (
            rp[0], rp[3] if rp[0] == "rej" else "", rn[0], rn[3] if rn[0] == "rej" else ""), rec, finding=finding)
        return
    if rp[0] == "acc":
        if norm(rp[1]) != norm(rn[1]) or rp[1] != rn[1]:
            # (compared as parsed as well as normalised: the pieces a text arrives in are part of the tree)
            chk.oracle_fail("the two spellings parse to different trees",
                            dict(rec, pipe_tree=tplgen.jsonable(rp[1]), nest_tree=tplgen.jsonable(rn[1])), finding=finding)
        elif case.get("expect") is not None and shape(rp[1]) != shape(case["expect"]):
            chk.oracle_fail("both spellings parse to the same tree, but not to the nesting the law predicts",
                            dict(rec, tree=tplgen.jsonable(rp[1]), expected=tplgen.jsonable(case["expect"])), finding=finding)
    elif case.get("expect") is not None and not case.get("unstable"):
        chk.oracle_fail("a well-formed X with piped tags is rejected in both spellings: %s" % rp[3], rec)


NON_TAGS = ["x", "text %A()", " %A()", "{x}", "{%A()}", "}", "|%A()", "", "\\|%A()", "(1)", "A()", ".A()", "é", "\\"]


# --------------------------------------------------------------------------- CLI stream

TEXT_TAGS = [
    lambda r: ("Upper", [], []),
    lambda r: ("Lower", [], []),
    lambda r: ("Capitalize", [], []),
    lambda r: ("Trim", [("i", r.choice([-3, -1, 1, 2, 4, 7]))], [(r.choice(["left", "right"]), ("b", True))]),
    lambda r: ("Pad", [("i", r.choice([1, 3, 6, 9])), ("s", r.choice(["_", "0", "x", "|", "{", "'"]))],
               [(r.choice(["left", "right"]), ("b", True))]),
    lambda r: ("Strip", [("s", r.choice([" ", "a", "_-", "{}", "ab", "|"]))],
               [] if r.random() < 0.5 else [(r.choice(["left", "right"]), ("b", True))]),
    lambda r: ("Collapse", [("s", r.choice([" ", "a", "_-", "o", "{|"]))], []),
]
FILE_NAMES = ["aa  bb.txt", "Hello__World.TXT", "foo--bar", "x.y.z", "ooOOoo.md", "  lead.txt", "a{b}|c.dat", "ÉCOLE été.txt"]


def gen_cli_case(rng):
    def text_tag(ctx):
        name, args, kw = rng.choice(TEXT_TAGS)(rng)
        return ("tag", rng.choice([None, None, "Text", "text"]), name, args, kw, ctx)

    def leaf():
        r = rng.random()
        if r < 0.4:
            return ("tag", None, rng.choice(["Name", "Base", "Ext"]), [], [], None)
        return ("raw", rng.choice(["_", "a a", "x-x", "OO", "{q}", "k|k", "  "]))

    def pat(depth):
        out = []
        for _ in range(rng.randrange(1, 4)):
            e = leaf() if depth <= 1 or rng.random() < 0.5 else text_tag(pat(depth - 1))
            if e[0] == "raw" and out and out[-1][0] == "raw":
                continue
            out.append(e)
        return out
    x = pat(rng.randrange(1, 4))
    sty = gen_style(rng)
    tags = [text_tag(None) for _ in range(rng.randrange(1, 6))]
    X = spell_mixed(rng, sty, x)
    Gs = [print_pat(dict(gen_style(rng), parens=True), [t]) for t in tags]
    pipe = X + "".join("|" + g for g in Gs)
    nest = X
    for g in Gs:
        nest = g + "{" + nest + "}"
    files = rng.sample(FILE_NAMES, rng.randrange(2, 5))
    return {"X": X, "tags": Gs, "pipe": pipe, "nest": nest, "files": files}


def run_cli_template(text, files):
    import cli_driver
    from sandbox import Sandbox
    with Sandbox() as root:
        d = os.path.join(root, "in")
        os.mkdir(d)
        for f in files:
            with open(os.path.join(d, f), "w") as fh:
                fh.write(f)
        res = cli_driver.run_cli(["-ci", text, d], root, root=root, snapshots=False)
        listing = sorted((n, open(os.path.join(d, n)).read()) for n in os.listdir(d))
    return res.status, listing, res.stderr[-200:]


# --------------------------------------------------------------------------- run

def run(chk):
    rng = chk.rng
    thorough = chk.tier == "thorough"
    stats = {"pairs": 0, "pipe_lengths": {}, "x_with_inner_pipes": 0, "in_context_pairs": 0, "non_tag_after_pipe": 0,
             "unstable_string_pairs": 0, "cli_pairs": 0, "cli_renamed_pairs": 0, "cli_status": {}, "corpus": 0,
             "both_accepted": 0}
    texts, metas = [], []      # for the correspondence

    def parse_pairs(cases, stream):
        flat = []
        for c in cases:
            flat += [c["pipe"], c["nest"]]
        res = real_parse_many(flat)
        for i, c in enumerate(cases):
            rp, rn = res[2 * i], res[2 * i + 1]
            judge_pair(chk, c, rp, rn, stream)
            chk.count((c["pipe"], c["nest"]))
            stats["pairs"] += 1
            if rp[0] == "acc" and rn[0] == "acc":
                stats["both_accepted"] += 1
            for t, r in ((c["pipe"], rp), (c["nest"], rn)):
                if r[0] != "crash":
                    texts.append(q_parse_case(t, r))
                    metas.append({"stream": stream, "text": t, "impl": list(r[:1]) + [str(x)[:300] for x in r[1:]]})

    # corpus
    cdir = os.path.join(common.VERIF, "corpus", "C11")
    corpus = []
    if os.path.isdir(cdir):
        for f in sorted(os.listdir(cdir)):
            if f.endswith(".json"):
                for c in json.load(open(os.path.join(cdir, f))).get("cases", []):
                    nest = c["X"]
                    for g in c["tags"]:
                        nest = g + "{" + nest + "}"
                    corpus.append({"X": c["X"], "tags": c["tags"], "pipe": c["X"] + "".join("|" + g for g in c["tags"]),
                                   "nest": nest, "expect": None, "unstable": c.get("unstable", False)})
    stats["corpus"] = len(corpus)
    parse_pairs(corpus, "corpus")

    # random pairs
    n_pairs = 30000 if thorough else 2000
    cases = []
    for i in range(n_pairs):
        c = gen_pipe_case(rng, 1 + i % 4)
        cases.append(c)
        k = str(len(c["tags"]))
        stats["pipe_lengths"][k] = stats["pipe_lengths"].get(k, 0) + 1
        if "|" in c["X"].replace("\\|", ""):
            stats["x_with_inner_pipes"] += 1
    parse_pairs(cases, "random")
    if thorough:
        small = []
        xs = list(tplgen.small_trees(2))
        three = [t for t in tplgen.small_trees(3) if tplgen.tree_size(t) == 3]
        xs += rng.sample(three, min(len(three), 6000))
        for x in xs:
            for tags in ([("tag", None, "A", [], [], None)],
                         [("tag", None, "A", [("i", 1)], [], None), ("tag", "c", "B", [], [("k", ("b", True))], None)]):
                sty = tplgen.gen_style(rng)
                X = spell_mixed(rng, sty, x)
                Gs = [print_pat(dict(sty, parens=True), [t]) for t in tags]
                nest, expect = X, x
                for g, t in zip(Gs, tags):
                    nest = g + "{" + nest + "}"
                    expect = [("tag", t[1], t[2], t[3], t[4], expect)]
                small.append({"X": X, "tags": Gs, "pipe": X + "".join("|" + g for g in Gs), "nest": nest,
                              "expect": expect, "unstable": False})
        stats["exhaustive_small_x"] = len(small)
        parse_pairs(small, "small-x")

    # the same inside an enclosing context
    inner = []
    for c in cases[: (4000 if thorough else 500)]:
        pre = rng.choice(["", "p", "%Q()", "a\\{"]) + "%Outer" + rng.choice(["()", "", "(1, f)", "('}')"]) + "{"
        post = "}" + rng.choice(["", "s", "%R()", "|%S()"])
        inner.append({"X": c["X"], "tags": c["tags"], "pipe": pre + c["pipe"] + post, "nest": pre + c["nest"] + post,
                      "expect": None, "unstable": False, "wrapped": True})
    stats["in_context_pairs"] = len(inner)
    parse_pairs(inner, "in-context")

    # known finding F31: strings whose value ends in a backslash
    unstable = [gen_pipe_case(rng, 1 + i % 3, unstable=True) for i in range(2000 if thorough else 150)]
    stats["unstable_string_pairs"] = len(unstable)
    parse_pairs(unstable, "unstable-strings")

    # a non-tag after a pipe is rejected
    nt = []
    for c in cases[: (6000 if thorough else 400)]:
        y = rng.choice(NON_TAGS)
        where = rng.randrange(3)
        if where == 0:
            t = c["X"] + "|" + y
        elif where == 1:
            t = c["X"] + "|" + c["tags"][0] + "|" + y
        else:
            t = "%O(){" + c["X"] + "|" + y + "}"
            if y in ("}", "\\"):
                t = c["X"] + "|" + y
        nt.append(t)
    res = real_parse_many(nt)
    for t, r in zip(nt, res):
        stats["non_tag_after_pipe"] += 1
        chk.count(("nt", t))
        if r[0] == "acc":
            chk.oracle_fail("a non-tag after a pipe is accepted", {"stream": "non-tag", "text": t, "tree": tplgen.jsonable(r[1])})
        elif r[0] == "crash":
            chk.oracle_fail("a non-tag after a pipe is not rejected as a template error but raises %s: %s" % (r[2], r[3]),
                            {"stream": "non-tag", "text": t})
        if r[0] != "crash":
            texts.append(q_parse_case(t, r))
            metas.append({"stream": "non-tag", "text": t, "impl": list(r[:1]) + [str(x)[:300] for x in r[1:]]})

    # CLI: equal final names
    for i in range(800 if thorough else 120):
        c = gen_cli_case(rng)
        sp, lp, ep = run_cli_template(c["pipe"], c["files"])
        sn, ln, en = run_cli_template(c["nest"], c["files"])
        stats["cli_pairs"] += 1
        stats["cli_status"][str(sp)] = stats["cli_status"].get(str(sp), 0) + 1
        if sorted(n for n, _ in lp) != sorted(c["files"]):
            stats["cli_renamed_pairs"] += 1
        chk.count(("cli", c["pipe"], tuple(c["files"])))
        if (sp, lp) != (sn, ln):
            chk.oracle_fail("the two spellings rename differently through tempren.cli.main()",
                            {"stream": "cli", "pipe": c["pipe"], "nest": c["nest"], "files": c["files"],
                             "pipe_result": [sp, lp, ep], "nest_result": [sn, ln, en]})

    mism, errs = common.run_model_cases(IMPORTS, "parse_case", "parse_case_ok", texts, shard_size=2000)
    for e in errs:
        chk.proof_failures.append({"what": "coqc on generated cases (parse_case_ok)", "log": e["output"]})
    for m in mism:
        chk.corr_fail("Corr.TplCorr.parse_case_ok (Tpl.Visitor.parse vs tempren.template.parser.TemplateParser.parse)", metas[m])
    stats["coq_cases"] = len(texts)

    for c in cases[:3]:
        chk.sample({"pipe": c["pipe"][:150], "nest": c["nest"][:150]})
    chk.coverage["rule"] = (
        "pairs (pipe spelling, nested spelling) for generated X of depth 1-4 whose inner contexts are themselves randomly "
        "written as pipe lists, 1-5 piped tags with random categories and argument lists in random styles; both through the real "
        "TemplateParser.parse (equal trees, equal to the predicted nesting), the same wrapped in an enclosing context with "
        "siblings, X|non-tag texts (must be rejected), and both spellings through tempren.cli.main() on fresh copies of a "
        "generated directory with Upper Lower Capitalize Trim Pad Strip Collapse (equal status and final names/contents); every "
        "text also evaluated by the model's parse inside Coq; distinct by (pipe text, nested text)")
    chk.coverage["input_distribution"] = stats
    chk.coverage["trusted_base"] = common.BASE_TRUSTED + [
        "modelled, not verified: the ANTLR runtime and the generated lexer/parser (hand-written lexer and recursive-descent parser "
        "in the model); harness/tplgen.py generators, printer mirror and lexer observer"]
    chk.assumptions += [
        "text-level theorem C11_pipe_is_nesting needs X and the piped tags to have no string literal whose body ends in a backslash "
        "(closing quote preceded by a backslash) and X not to end in a backslash; the first exclusion is genuine (known finding F31)"]


def replay(chk, obj):
    rc = 0
    cases = [f["case"] for f in obj.get("failures", [])] + [c["case"] for c in obj.get("broken_correspondence", [])]
    for case in cases[:20]:
        if case.get("stream") == "cli":
            a = run_cli_template(case["pipe"], case["files"])
            b = run_cli_template(case["nest"], case["files"])
            print("pipe  :", repr(case["pipe"]), "->", a[:2])
            print("nested:", repr(case["nest"]), "->", b[:2])
            print("oracle: equal is", a[:2] == b[:2])
            rc |= 0 if a[:2] == b[:2] else 1
            continue
        ts = [case[k] for k in ("pipe", "nest", "text") if k in case]
        rs = real_parse_many(ts)
        for t, r in zip(ts, rs):
            print("text            :", repr(t))
            print("implementation  :", r[:3])
            _, out = common.coq_eval_term(IMPORTS, "parse %s" % q_str(t))
            print("model parse     :", out.replace("\n", " ")[:500])
        if len(ts) == 2:
            ok = rs[0][0] == rs[1][0] and (rs[0][0] != "acc" or norm(rs[0][1]) == norm(rs[1][1]))
            print("oracle          : both spellings agree is", ok)
            rc |= 0 if ok else 1
        elif case.get("stream") == "non-tag":
            print("oracle          : rejected with a template error is", rs[0][0] == "rej")
            rc |= 0 if rs[0][0] == "rej" else 1
    return rc
