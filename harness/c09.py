"""C09 — every template mistake is reported as such before any file is touched."""
import json
import os
import re
import time

import common
from common import q_bool, q_list, q_opt, q_str
import cli_driver
from cli_driver import run_cli, snapshot, build_tree
from sandbox import Sandbox
import impl

VALID_NAME = ["%Upper{%Name()}", "%Count(start=1,width=3)_%Name()", "%Name()|%Lower()", "%Trim(3,left){%Base()}%Ext()",
              "%Text.Replace('a','b'){%Name()}", "x_%Base()%Ext()", "%Lower{%Base()}|%Upper()", "%Pad(8,'0',left){%Base()}%Ext()",
              "%Core.Name()", "pre\\{%Name()\\}", "%Collapse(' _'){%Name()}", "%Dir()/%Name()", "%Strip('x'){%Name()}|%Capitalize()"]
VALID_FILTER = ["%Size() > 0", "len(%Name()) > 2", "%Name() != 'zz'", "%Ext() == '.txt'", "%Size() >= 0 and %Base().startswith('a')"]
VALID_SORT = ["%Size(), %Name()", "%Name()", "len(%Name())", "%Ext(), %Size()", "%Lower{%Name()}"]
INSERT = list("%{}|()'\",.=\\ -~é\t") + ["%%", "{}", "()", "||", "%(", "%.", "%X.", "..", "=,"]
LOC_RE = re.compile(r"Template error at line (\d+):(\d+)(?:-(\d+))?")


def mutate(rng, t):
    k = rng.randrange(8)
    if not t:
        return rng.choice(INSERT)
    i = rng.randrange(len(t))
    if k == 0:
        return t[:i] + t[i + 1:]
    if k == 1:
        return t[:i] + t[i] + t[i:]
    if k == 2 and i + 1 < len(t):
        return t[:i] + t[i + 1] + t[i] + t[i + 2:]
    if k == 3:
        return t[:i] + rng.choice(INSERT) + t[i:]
    if k == 4:
        return t.replace(rng.choice("{}()|%'"), "", 1)
    if k == 5:
        return t + rng.choice(["{", "}", "|", "(", ")", "%", "|%", "%Name(", "%Upper{", "'", "\\"])
    if k == 6:
        return rng.choice(["{", "}", "|", ")", "%Nope()", "%nope.Name()", "%Name(1)", "%Upper()", "%Name(){x}", "%Count(q=1)"]) + t
    return t[:i] + rng.choice(INSERT) + t[i + 1:]


def compiles(text, compiler):
    try:
        with impl.quiet_streams():
            compiler.compile(text)
        return True, None
    except impl.TemplateError as e:
        return False, e
    except RecursionError:
        return None, "RecursionError"
    except Exception as e:      # noqa: BLE001
        return None, "%s: %s" % (type(e).__name__, e)


def known_finding(case, res):
    """F9: a --sort expression whose keys have different types for different files (TypeError inside sorted())."""
    if case.get("sort") and "TypeError" in res.stderr and "not supported between instances" in res.stderr:
        return "F9"
    return None


def run_case(chk, rng, case, stats, coq_cases, metas, compiler):
    tree = [("in/a.txt", "f", "1"), ("in/bb.txt", "f", "22"), ("in/c c.dat", "f", "333"), ("in/sub/d.txt", "f", "4444"), ("in/noext", "f", "")]
    with Sandbox() as root:
        build_tree(root, tree)
        before = snapshot(root, with_times=True)
        argv = [{"name": "-n", "path": "-p", "directory": "-d"}[case["mode"]]]
        if case.get("recursive"):
            argv.append("-r")
        # '--opt=value': a mutated expression may start with '-' and must not be read as an option by argparse
        if case.get("filter") is not None:
            argv += ["--filter-template=" + case["filter"]]
        if case.get("sort") is not None:
            argv += ["--sort=" + case["sort"]]
        argv += ["--", case["template"], os.path.join(root, "in")]
        t0 = time.time()
        res = run_cli(argv, root, root=root, snapshots=False)
        dt = time.time() - t0
        after = snapshot(root, with_times=True)
    stats["status"][str(res.status)] = stats["status"].get(str(res.status), 0) + 1
    chk.count((case["mode"], case["template"], case.get("filter"), case.get("sort")), nontrivial=True)
    c = dict(case, status=res.status, stderr=res.stderr[-400:])
    calls = [(x["name"], x["args"]) for x in res.tracer.calls]
    if res.exception and res.exception != "SystemExit":
        chk.oracle_fail("an exception escaped cli.main(): %s" % res.exception, c)
        return
    if dt > 120:
        chk.oracle_fail("the run took %.1f s" % dt, c)
    if res.status == 126 or res.status not in (0, 1, 2, 3, 4):
        chk.oracle_fail("exit status %r (unknown error): %s" % (res.status, res.stderr.strip()[-200:]), c, finding=known_finding(case, res))
        return
    if case.get("expect") is not None and res.status != case["expect"]:
        chk.oracle_fail("an expression that cannot be evaluated for a selected file, but exit status %r instead of %r" % (res.status, case["expect"]), c)
        return
    if case.get("mutated") == "none" and res.status in (3, 4):
        chk.oracle_fail("valid, unmutated templates whose expressions evaluate for every file were rejected with status %d: %s" % (
            res.status, res.stderr.strip()[-200:]), c)
        return
    name_ok, name_err = compiles(case["template"], compiler)
    filt_ok = compiles(case["filter"], compiler)[0] if case.get("filter") is not None else None
    sort_ok = compiles(case["sort"], compiler)[0] if case.get("sort") is not None else None
    mistake = (name_ok is False) or (filt_ok is False) or (sort_ok is False)
    if mistake:
        stats["template_mistakes"] += 1
        if res.status not in (3, 2):
            chk.oracle_fail("a template that does not compile, but exit status %r" % res.status, c)
            return
    if res.status in (2, 3, 4):
        if calls:
            chk.oracle_fail("exit status %d but filesystem calls were issued: %r" % (res.status, calls[:3]), c)
            return
        if before != after:
            chk.oracle_fail("exit status %d but the tree changed" % res.status, c)
            return
    if res.status == 3:
        m = LOC_RE.search(res.stderr)
        lens = [len(t) for t in (case["template"], case.get("filter"), case.get("sort")) if t is not None]
        if not m:
            chk.oracle_fail("status 3 without a located template error message", c)
            return
        line, col = int(m.group(1)), int(m.group(2))
        if line != 1 or not (0 <= col <= max(lens)):
            chk.oracle_fail("template error located at line %d column %d, outside the text" % (line, col), c)
            return
        stats["located_errors"] += 1
    # correspondence with Pipe.Front.main_run for runs that must end before any file is touched
    if mistake or (case["mode"] == "directory" and case.get("sort") is not None and name_ok and filt_ok is not False):
        fr = "{| f_name_ok := %s; f_filter := %s; f_sort := %s; f_filter_eval := fun _ => Some true; f_sort_eval := fun _ => true |}" % (
            q_bool(bool(name_ok)), q_opt(filt_ok, lambda b: q_bool(bool(b)), "bool"), q_opt(sort_ok, lambda b: q_bool(bool(b)), "bool"))
        coq_cases.append("(%s, %s, (%d)%%Z)" % (fr, {"name": "MName", "path": "MPath", "directory": "MDirectory"}[case["mode"]], res.status))
        metas.append(c)


def token_sequences(chk, stats, quick):
    """Exhaustive lexeme sequences (one representative lexeme per token kind plus lexer-error characters, from
    harness/tplgen.py) compiled by the real TemplateCompiler over the FULL registry of the working tree plus user
    aliases (valid, invalid, self-referential and mutually recursive): every text is either accepted or rejected
    with a TemplateError located on line 1 inside the text — never another exception."""
    import tplgen
    # the faulty spot of each alias body lies far to the right: an error located by its offset in the ALIAS text would fall
    # outside the (short) template that uses the alias
    pad = "p" * 40
    reg = impl.registry(aliases={"Ok": "%Upper{%Name()}", "Bad": pad + "%Nope()", "Self": pad + "x%Self()", "A": pad + "%B()", "B": pad + "%A()",
                                 "Syn": pad + "%Upper{"})
    comp = impl.compiler(reg)
    lex = list(tplgen.LEXEMES) + ["Name", "Upper", "Ok", "Self", "A", "Bad", "Syn", "Core", "é", "\t"]
    maxlen = 3 if quick else 4
    n = acc = rej = 0
    import itertools
    alias_uses = [(pre + "%" + q + nm + "()" + suf,) for nm in ("Ok", "Bad", "Self", "A", "B", "Syn")
                  for q in ("", "Alias.", "alias.") for (pre, suf) in (("", ""), ("ab", "c"), ("%Upper{", "}"), ("", "|%Upper()"), ("%Lower{x%Upper{", "}}"))]
    for seq in itertools.chain(alias_uses, tplgen.all_lexeme_sequences(maxlen, lex)):
        text = "".join(seq)
        if "\n" in text or "\r" in text:
            continue
        n += 1
        ok, err = compiles(text, comp)
        if ok is True:
            acc += 1
        elif ok is False:
            rej += 1
            loc = err.location
            if loc.line != 1 or not (0 <= loc.column <= len(text)) or loc.column + max(loc.length, 1) > len(text) + 6:
                chk.oracle_fail("template error for %r located at line %d column %d, outside the text" % (text, loc.line, loc.column),
                                {"mode": "compile", "template": text})
                break
        else:
            chk.oracle_fail("compiling %r raised %s instead of accepting or reporting a template error" % (text, err),
                            {"mode": "compile", "template": text})
            break
    stats["token_sequences"] = {"max_tokens": maxlen, "texts": n, "accepted": acc, "rejected": rej}
    chk.coverage["evaluations"] += n
    return n


def compile_tie(chk, rng, stats, quick):
    """Pipe/FrontCompile.v: [compile R text] (parser model + registry model + binder model + alias expansion) against the
    real TemplateCompiler over the FULL registry of the working tree (rows read from each factory's own help line, as C13
    does) plus user aliases (valid, cyclic, unparsable).  Compared: accepted / rejected, and the error class.  What a
    tag's own configure() body decides about argument VALUES is an input of the model ([accepts]); a text that the
    implementation rejects with ConfigurationError while the model accepts is therefore counted, not judged."""
    import re
    import c13
    from common import q_list
    from tempren.pipeline import build_tag_registry
    from tempren.template.compiler import TemplateCompiler
    from tempren.alias import AliasTagFactory
    ALIASES = {"Shout": "%Upper{%Name()}", "Loop": "%Loop()", "Ping": "%Pong()", "Pong": "p%Ping()", "Broken": "%Upper{"}
    with impl.quiet_streams():
        reg = build_tag_registry({}, dict(ALIASES))
    comp = TemplateCompiler(reg)
    rows, skipped, fid = [], [], 0
    for cat in reg.category_map.values():
        for name, fac in cat.tag_map.items():
            if isinstance(fac, AliasTagFactory):
                kind = "(KAlias %s)" % q_str(fac._pattern_text)
            else:
                line = fac.configuration_signature.split("\n")[0]
                rd, why = c13.read_line(line)
                if rd is None or rd["name"] != name:
                    skipped.append("%s.%s" % (cat.name, name)); fid += 1
                    continue
                kind = "(class_of_reading (%s, %s, %s))" % (q_str(name), c13.q_sig(rd), c13.q_ctx(rd["ctx"]))
            rows.append("((%s, %s, %d), %s)" % (q_str(cat.name), q_str(name), fid, kind))
            fid += 1
    CLASS = {"TemplateSyntaxError": "syntax", "UnknownNameError": "uname", "UnknownCategoryError": "ucat",
             "AmbiguousNameError": "amb", "ContextMissingError": "ctxmiss", "ContextForbiddenError": "ctxforb",
             "ConfigurationError": "config"}
    texts = ["%Nme()", "%Upper{%Nme()}", "%Upper()", "%Name(){x}", "%Name(", "%Upper{%Name()}", "%Name()|%Uper()",
             "%Name()|%Upper()", "%Upper{%Name()", "%Name()}", "}%Upper{", "%Count(){x}", "%Count(1,2,3,4,5)", "%Count(nope=1)",
             "%Count(1, start=2)", "%Shout()", "a%Shout()b", "%Shout(1)", "%Shout(){x}", "%Loop()",
             "%Ping()", "%Broken()", "%Alias.Shout()", "%alias.Shout()", "%Alias.shout()", "%Nope.Name()", "%Core.Name()",
             "%Text.Name()", "%Upper{%Lower{%Count()}}", "%Upper{%Lower{%Count(x)}}", "%Name()|%Upper()|%Lower()",
             "%Name()|%Upper()|%Lwer()", "%Name()|%Upper{a}", "plain", "", "%Ext()", "%Dir()", "%Trim{ x }",
             "%Replace('a','b'){%Name()}", "%Replace('a'){%Name()}", "%Replace{%Name()}", "%Sanitize()", "%Size()", "%Size(){x}",
             "%Upper{\\}}", "%Upper{\\{}", "%Upper('}'){x}", "% Name()", "%Name(--1)", "%Name()%Name()", "%Name ()",
             "%Round(2){%Size()}", "%Round(digits=2){1.5}", "%Round(self=1){1}", "%Base.Name()"]
    all_names = sorted({n for c in reg.category_map.values() for n in c.tag_map})
    names = ["Name", "Upper", "Lower", "Count", "Ext", "Shout", "Loop", "Ping", "Broken", "Nme", "Core.Name", "Text.Upper", "X.Y", "Trim",
             "Size", "core.name", "Alias.Shout", "Text.Name"]

    def gen(d):
        k = rng.random()
        if d <= 0 or k < 0.25:
            return rng.choice(["a", "_", "x y", "", "\\{", "é"])
        n = rng.choice(names) if rng.random() < 0.7 else rng.choice(all_names)
        args = rng.choice(["()", "()", "()", "(1)", "(a=1)", "", "('s')", "(1, 2)", "(x)", "(width=3)", "(start=2, step=2)"])
        ctx = rng.choice(["", "", "{" + gen(d - 1) + "}", "{}"])
        if args == "" and ctx == "":
            args = "()"
        t = "%" + n + args + ctx
        if rng.random() < 0.2:
            t += "|%" + rng.choice(names) + rng.choice(["()", "()", "(1)"])
        if rng.random() < 0.3:
            t = gen(d - 1) + t
        if rng.random() < 0.05:
            t = mutate(rng, t)
        return t
    texts += [gen(3) for _ in range(500 if quick else 8000)]
    texts = [t for t in texts if "\n" not in t and "\r" not in t]
    impl_res = []
    with impl.quiet_streams():
        for t in texts:
            try:
                comp.compile(t); impl_res.append("ok")
            except Exception as e:
                impl_res.append(CLASS.get(type(e).__name__, "other:" + type(e).__name__))
    prelude = """
From Tempren Require Tpl.Registry Tpl.Alias.
Definition rows : list row := %s.
Definition R := match tagreg_of_rows 40 rows with Some r => r | None => mkTagreg [] [] 0 end.
Definition code (t : str) : N := match compile R t with
  | inl _ => 0
  | inr (TESyntax _) => 1
  | inr (TEBind e) => 10 + Corr.AliasCorr.exc_code e end.
""" % q_list(rows, "row")
    MODEL = {0: "ok", 1: "syntax", 14: "syntax", 15: "config", 16: "ctxmiss", 17: "ctxforb", 18: "uname", 19: "ucat", 20: "amb"}
    tie = {"rows": len(rows), "rows_skipped": skipped, "texts": len(texts), "agree": {}, "class_differs": 0, "configure_body_refusals": 0}
    for lo in range(0, len(texts), 600):
        part = texts[lo:lo + 600]
        term = "(match tagreg_of_rows 40 rows with Some _ => true | None => false end, map code %s)" % q_list([q_str(t) for t in part], "str")
        rc, out = common.coq_eval_term(["Tpl.Ast", "Tpl.Visitor", "Tpl.Signature", "Pipe.FrontCompile", "Corr.AliasCorr"], term,
                                       timeout=900, prelude=prelude)
        nums = None
        if rc == 0 and "=" in out and "[" in out:
            body = out[out.index("="):]
            if "true" in body[:body.index("[")]:
                nums = [int(x) for x in re.findall(r"\b(\d+)\b", body[body.index("["):body.rindex("]") + 1])]
        if nums is None or len(nums) != len(part):
            chk.proof_failures.append({"what": "coqc on generated texts (Pipe.FrontCompile.compile over the real registry rows)", "log": out[-1500:]})
            continue
        for t, i, m in zip(part, impl_res[lo:lo + 600], nums):
            mm = MODEL.get(m, "?%d" % m)
            chk.count(("compile-tie", t))
            if i == "config" and mm == "ok":
                tie["configure_body_refusals"] += 1
            elif (i == "ok") != (mm == "ok"):
                chk.corr_fail("Pipe.FrontCompile.compile vs TemplateCompiler.compile over the working tree's registry (accepted/rejected)",
                              {"template": t, "implementation": i, "model": mm})
            elif i != mm:
                # both reject (exit status 3 either way).  With several faulty tags in one text the class reported is that of
                # the first one in traversal order, which the model does not claim to reproduce (the classes are C12/C13/C15's)
                tie["class_differs"] += 1
            else:
                tie["agree"][i] = tie["agree"].get(i, 0) + 1
    stats["compile_tie"] = tie


def gen_case(rng):
    mode = rng.choice(["name", "name", "path", "directory"])
    tpl = rng.choice(VALID_NAME)
    if mode != "path" and "/" in tpl:
        tpl = "%Name()"
    case = {"mode": mode, "template": tpl, "recursive": rng.random() < 0.5}
    if rng.random() < 0.5:
        case["filter"] = rng.choice(VALID_FILTER)
    if rng.random() < 0.5:
        case["sort"] = rng.choice(VALID_SORT)
    where = rng.choice(["template", "template", "filter", "sort", "none"])
    if where == "filter" and "filter" not in case:
        case["filter"] = rng.choice(VALID_FILTER)
    if where == "sort" and "sort" not in case:
        case["sort"] = rng.choice(VALID_SORT)
    if where != "none":
        t = case[where]
        for _ in range(rng.choice([1, 1, 1, 2, 3])):
            t = mutate(rng, t)
        if "\n" in t or "\r" in t:
            t = t.replace("\n", "").replace("\r", "")
        case[where] = t
    case["mutated"] = where
    return case


FIXED = [
    {"mode": "name", "template": "%Upper{" * 100 + "x" + "}" * 100, "mutated": "nesting"},
    {"mode": "name", "template": "%Name()", "filter": "%Upper{" * 70 + "%Name()" + "}" * 70 + " != ''", "mutated": "nesting"},
    {"mode": "name", "template": "%Name()", "sort": "%Upper{" * 70 + "%Name()" + "}" * 70, "mutated": "nesting"},
    {"mode": "name", "template": "%Name()|" + "|".join(["%Upper()"] * 120), "mutated": "long pipe"},
    {"mode": "name", "template": "%Name()", "filter": "%Name() +", "mutated": "evaluation"},
    {"mode": "name", "template": "%Name()", "filter": "1/(%Size()-2) > 0", "mutated": "evaluation"},
    {"mode": "name", "template": "%Name()", "sort": "1/(%Size()-3)", "mutated": "evaluation"},
    {"mode": "name", "template": "%Name()", "sort": "undefined_name", "mutated": "evaluation", "expect": 4},
    {"mode": "name", "template": "x%Name()", "filter": "%Name() == 'a.txt'", "sort": "%Size() + 'x'", "mutated": "evaluation (one file selected)", "expect": 4},
    {"mode": "name", "template": "x%Name()", "filter": "%Name() == 'noext'", "sort": "undefined_name", "mutated": "evaluation (one file selected)", "expect": 4},
    {"mode": "path", "template": "s/%Name()", "filter": "%Size() == 3", "sort": "1/0", "mutated": "evaluation (one file selected)", "expect": 4},
    {"mode": "name", "template": "x%Name()", "filter": "%Name() +", "mutated": "evaluation", "expect": 4},
    {"mode": "name", "template": "x%Name()", "filter": "%Name() == 'a.txt' and undefined_name", "mutated": "evaluation (fails for one file only)", "expect": 4},
    {"mode": "directory", "template": "%Name()", "sort": "%Name()", "recursive": True, "mutated": "none"},
    # sort keys of the SAME types that still cannot be ordered: an evaluation error like any other
    {"mode": "name", "template": "x%Name()", "sort": "(%Ext() == '', %Size() if %Size() > 1 else 'small')", "mutated": "unorderable sort keys", "expect": 4},
    {"mode": "name", "template": "x%Name()", "sort": "%Size() * 1j", "mutated": "unorderable sort keys", "expect": 4},
    {"mode": "name", "template": "x%Name()", "sort": "dict(size=%Size())", "mutated": "unorderable sort keys", "expect": 4},
    # sort keys that are equal for several files (ties are not an error)
    {"mode": "name", "template": "x%Name()", "sort": "%Ext()", "mutated": "none"},
    {"mode": "name", "template": "x%Name()", "sort": "1", "mutated": "none"},
    {"mode": "path", "template": "t/%Name()", "sort": "len(%Name()), %Ext()", "recursive": True, "mutated": "none"},
    {"mode": "name", "template": "x%Name()", "sort": "%Size() > 1", "filter": "%Size() >= 0", "mutated": "none"},
    {"mode": "name", "template": "%Name()", "sort": "%Name() if %Size()==1 else 5", "mutated": "mixed-type sort keys (F9, fixed)", "expect": 4},
    # a bare name that several categories provide is rejected wherever it stands — also after the qualified spelling was used
    {"mode": "name", "template": "%text.Title{%Base()}_%Title{%Base()}%Ext()", "mutated": "ambiguous after qualified", "expect": 3},
    {"mode": "name", "template": "%Title{%Base()}%Ext()", "filter": "%text.Title{%Name()} != ''", "mutated": "ambiguous after qualified (other template)", "expect": 3},
    {"mode": "name", "template": "%video.Duration()_%Duration()", "mutated": "ambiguous after qualified", "expect": 3},
    {"mode": "name", "template": "%Name()", "sort": "%Width()", "filter": "%image.Width() is not None", "mutated": "ambiguous after qualified (other template)", "expect": 3},
    # the filter accepts every file but one, whichever position that one has in the gathering order (no --sort):
    # every verdict has to be there before the first rename
] + [
    {"mode": m, "template": t, "filter": "%%Name() != '%s' or undefined_name" % n, "recursive": r, "mutated": "evaluation (fails for one file only, others accepted)", "expect": 4}
    for n in ("a.txt", "bb.txt", "c c.dat", "noext", "d.txt") for (m, t, r) in (("name", "x%Name()", False), ("path", "moved/%Name()", True))
    if r or n != "d.txt"          # sub/d.txt is selected only with --recursive
] + [
    # a tag in a pipe list cannot have its own context - whichever position it has in the list
    {"mode": "name", "template": "%Name()|%Upper()|%Lower(){x}", "mutated": "piped tag with own context", "expect": 3},
    {"mode": "name", "template": "%Name()|%Upper()|%Lower()|%Trim(2,left){x}|%Upper()", "mutated": "piped tag with own context", "expect": 3},
    {"mode": "name", "template": "x%Name()", "filter": "%Name()|%Upper()|%Lower(){x} != ''", "mutated": "piped tag with own context", "expect": 3},
    {"mode": "name", "template": "x%Name()", "sort": "%Name()|%Lower()|%Upper(){y}", "mutated": "piped tag with own context", "expect": 3},
    # argument VALUES a tag refuses (an invalid regular expression, an unknown unit ...): refused when the template is compiled
    {"mode": "name", "template": "%Replace('(', '_'){%Name()}", "mutated": "invalid argument value", "expect": 3},
    {"mode": "name", "template": "%Remove('[a-'){%Name()}", "mutated": "invalid argument value", "expect": 3},
    {"mode": "name", "template": "x%Name()", "filter": "%Replace('*x', 'y'){%Name()} != ''", "mutated": "invalid argument value", "expect": 3},
    {"mode": "name", "template": "x%Name()", "sort": "%Remove('(?P<n'){%Name()}", "mutated": "invalid argument value", "expect": 3},
    {"mode": "path", "template": "d/%Replace('a{2,1}', 'b'){%Name()}", "mutated": "invalid argument value", "expect": 3},
    # templates that consist of blanks only: the expression they render to is empty
    {"mode": "name", "template": "x%Name()", "filter": "\t", "mutated": "blank", "expect": 4},
    {"mode": "name", "template": "x%Name()", "filter": "\t \t", "mutated": "blank", "expect": 4},
    {"mode": "name", "template": "x%Name()", "filter": " ", "mutated": "blank", "expect": 4},
    {"mode": "name", "template": "x%Name()", "sort": "\t", "mutated": "blank", "expect": 4},
    {"mode": "name", "template": "x%Name()", "sort": "  ", "mutated": "blank", "expect": 4},
    {"mode": "name", "template": "\t", "mutated": "blank"},
    # numeric arguments longer than the interpreter's integer-conversion limit (4300 digits)
    {"mode": "name", "template": "%Count(start=" + "1" * 5000 + ")%Ext()", "mutated": "huge number", "expect": 3},
    {"mode": "name", "template": "x%Name()", "filter": "%Count(" + "9" * 4301 + ") > 0", "mutated": "huge number", "expect": 3},
    {"mode": "name", "template": "x%Name()", "sort": "%Trim(-" + "7" * 6000 + "){%Name()}", "mutated": "huge number", "expect": 3},
    {"mode": "name", "template": "", "mutated": "empty"},
    {"mode": "name", "template": "%Name()", "filter": "", "mutated": "empty"},
]


def run(chk):
    rng = chk.rng
    quick = chk.tier == "quick"
    n = 700 if quick else 30000
    stats = {"status": {}, "template_mistakes": 0, "located_errors": 0, "mutated": {}}
    compiler = impl.compiler(impl.registry())
    coq_cases, metas = [], []
    cases = list(FIXED)
    cdir = os.path.join(common.VERIF, "corpus", "C09")
    if os.path.isdir(cdir):
        for f in sorted(os.listdir(cdir)):
            if f.endswith(".json"):
                cases += json.load(open(os.path.join(cdir, f)))
    for _ in range(n):
        cases.append(gen_case(rng))
    for case in cases:
        stats["mutated"][case.get("mutated", "?")] = stats["mutated"].get(case.get("mutated", "?"), 0) + 1
        run_case(chk, rng, case, stats, coq_cases, metas, compiler)
    prelude = ("Definition front_case_ok (x : front * mode * Z) : bool := let '(fr, m, st) := x in "
               "let c := {| c_mode := m; c_strategy := Stop; c_dry := false; c_answers := []; c_fault := None; c_var := fixed |} in "
               "let r := main_run fr c [] (fun l => l) (fun l => []) [] [] in "
               "Z.eqb (r_status r) st && match r_calls r with [] => true | _ => false end.")
    mism, errs = common.run_model_cases(["Py.PathLib", "FS.Model", "Pipe.Pipeline", "Pipe.Front"], "front * mode * Z", "front_case_ok",
                                        coq_cases, shard_size=2000, prelude=prelude)
    for e in errs:
        chk.proof_failures.append({"what": "coqc on generated cases (Pipe.Front.main_run)", "log": e["output"]})
    for m in mism:
        chk.corr_fail("Pipe.Front.main_run vs tempren.cli.main (order of template compilation, exit status of each failure class)", metas[m])
    token_sequences(chk, stats, quick)
    compile_tie(chk, rng, stats, quick)
    for c in cases[len(FIXED):len(FIXED) + 3]:
        chk.sample({k: c[k] for k in ("mode", "template", "filter", "sort", "mutated") if k in c})
    chk.coverage["rule"] = (
        "valid name/path, filter and sort templates over the built-in registry, mutated by 1-3 random edits (delete / duplicate / transpose / insert "
        "metacharacters, unbalance brackets, stray pipes, damaged argument lists, unknown tags and categories, context misuse) in one of the three "
        "template positions, plus fixed cases (nesting depth 70-100, 120-stage pipe, empty templates, expressions failing for one or every file, "
        "directory mode with --sort), run NON-dry through the real tempren.cli.main() on a tree where an accepted run renames; distinct by "
        "(mode, template, filter, sort)")
    chk.coverage["input_distribution"] = stats
    chk.coverage["front_model_cases"] = len(coq_cases)
    chk.coverage["trusted_base"] = common.BASE_TRUSTED + [
        "crash- and hang-freedom of the ANTLR runtime, the generated recogniser and CPython on arbitrary strings is NOT a theorem: it rests on the runs of this check (partial)"]
    chk.assumptions += ["single-line templates (line breaks removed)", "whether a template compiles is observed with the real TemplateCompiler on the same text"]


def replay(chk, obj):
    rc = 0
    compiler = impl.compiler(impl.registry())
    stats = {"status": {}, "template_mistakes": 0, "located_errors": 0, "mutated": {}}
    for f in obj.get("failures", [])[:6]:
        case = {k: v for k, v in f["case"].items() if k in ("mode", "template", "filter", "sort", "recursive", "mutated")}
        if case.get("mode") == "compile":
            print("compile case:", json.dumps(case), "->", compiles(case["template"], impl.compiler(impl.registry(aliases={"Ok": "%Upper{%Name()}", "Bad": "%Nope()", "Self": "x%Self()", "A": "%B()", "B": "%A()", "Syn": "%Upper{"}))))
            rc = 1
            continue
        n = len(chk.oracle_failures)
        run_case(chk, chk.rng, case, stats, [], [], compiler)
        print("case:", json.dumps(case)[:600])
        print("oracle:", "VIOLATED: " + chk.oracle_failures[-1]["what"] if len(chk.oracle_failures) > n else "holds")
        rc |= int(len(chk.oracle_failures) > n)
    return rc
