"""C12 — tag names resolve deterministically and never to the wrong tag.

Tie (i):  random registrations applied in random order to the real TagRegistry (stub TagFactory
          objects, identity = observable), random qualified / bare queries with case variants, asked
          directly (get_tag_factory) and through the real TemplateCompiler (error locations).
Tie (ii): the working tree's full registry as tempren.cli.main() builds it, with ad-hoc tags and
          aliases that shadow built-in names: every line of --list-tags resolved in the printed /
          lower / upper / mixed case and by bare name through the real compiler, a sample through
          `--help <name>` and through dry runs of tempren.cli.main(); the model is fed with the
          listing itself.
Oracle:   the property statement evaluated directly on what the implementation answered."""
import glob
import json
import os
import stat

import common
from common import q_list, q_opt, q_str
import impl
import cli_driver
import sandbox
import tempren.cli as tcli
from tempren.primitives import CategoryName, QualifiedTagName, Tag, TagFactory, TagName
from tempren.template.compiler import TemplateCompiler
from tempren.template.exceptions import TemplateError
from tempren.template.registry import (AmbiguousNameError, TagRegistry, UnknownCategoryError,
                                       UnknownNameError)

CORR = "Corr.RegistryCorr.reg_case_ok (Tpl.Registry.get / error_location vs tempren.template.registry.TagRegistry)"
IMPORTS = ["Tpl.Registry", "Corr.RegistryCorr"]


# --------------------------------------------------------------------------- stub factories

class StubTag(Tag):
    require_context = None

    def __init__(self, fid):
        self.fid = fid

    def process(self, file, context):
        return "<%d>" % self.fid


class StubFactory(TagFactory):
    def __init__(self, name, fid):
        self._name = name
        self.fid = fid

    @property
    def tag_name(self):
        return self._name

    @property
    def configuration_signature(self):
        return "%" + self._name + "()"

    @property
    def short_description(self):
        return "stub %d" % self.fid

    @property
    def long_description(self):
        return None

    def __call__(self, *args, **kwargs):
        return StubTag(self.fid)


# --------------------------------------------------------------------------- case variants

def case_variant(rng, s, how=None):
    how = how or rng.choice(["same", "lower", "upper", "swap", "mix", "mix", "cap"])
    if how == "same":
        return s
    if how == "lower":
        return s.lower()
    if how == "upper":
        return s.upper()
    if how == "swap":
        return s.swapcase()
    if how == "cap":
        return s.capitalize()
    return "".join(c.upper() if rng.random() < 0.5 else c.lower() for c in s)


CAT_BASES = ["core", "text", "adhoc", "alias", "img", "a", "b_1", "_x", "zeta", "alpha", "q9", "Zz"]
TAG_BASES = ["Name", "Count", "E", "Upper", "A", "a1", "_", "T_2", "Ext", "x"]


def gen_registry(rng):
    """-> list of (category spelling, tag name, fid); mostly valid, sometimes colliding."""
    ncat = rng.choice([1, 2, 2, 3, 3, 4, 5])
    bases = rng.sample(CAT_BASES, ncat)
    cats = [case_variant(rng, b) for b in bases]
    kind = "valid"
    r = rng.random()
    if r < 0.08:      # a second spelling of an existing category: register_category must refuse it
        cats.append(case_variant(rng, rng.choice(cats), rng.choice(["swap", "upper", "lower", "mix"])))
        kind = "maybe-colliding-category"
    entries = []
    fid = 0
    # a small pool of tag names per registry so that bare names collide across categories often
    pool = [case_variant(rng, b, rng.choice(["same", "same", "lower", "upper", "swap"]))
            for b in rng.sample(TAG_BASES, rng.choice([1, 2, 3, 4]))]
    if rng.random() < 0.5:
        pool.append(rng.choice(pool).swapcase())
    pool = list(dict.fromkeys(pool))
    for c in cats:
        for t in rng.sample(pool, rng.randrange(1, len(pool) + 1)):
            entries.append((c, t, fid))
            fid += 1
    if r > 0.94 and entries:      # the same tag twice in one category: register_tag_factory must refuse it
        c, t, _ = rng.choice(entries)
        entries.append((c, t, fid))
        kind = "duplicate-tag"
    rng.shuffle(entries)
    return entries, kind


def is_valid(entries):
    spell = {}
    seen = set()
    for c, t, _ in entries:
        if spell.setdefault(c.lower(), c) != c or (c, t) in seen:
            return False
        seen.add((c, t))
    return True


def gen_queries(rng, entries, n):
    cats = sorted({c for c, _, _ in entries})
    tags = sorted({t for _, t, _ in entries})
    out = []
    for _ in range(n):
        r = rng.random()
        c, t, _f = rng.choice(entries)
        if r < 0.40:        # registered tag, category in any case
            q = (case_variant(rng, c), t)
        elif r < 0.60:      # bare
            q = (None, t)
        elif r < 0.70:      # tag name in the wrong case
            t2 = rng.choice([t.swapcase(), t.lower(), t.upper()])
            q = (case_variant(rng, c) if rng.random() < 0.6 else None, t2)
        elif r < 0.80:      # unknown category (sometimes a near miss)
            q = (rng.choice([c + "x", "x" + c, c[:-1] or "q", "Nope", c + "_"]), t)
        elif r < 0.90:      # known category, tag of another category / unknown tag
            q = (case_variant(rng, rng.choice(cats)), rng.choice(tags + ["Nope", t + "x"]))
        else:               # unknown bare name
            q = (None, rng.choice(["Nope", t + "_", "x" + t]))
        out.append(q)
    return out


PREFIXES = ["", "x", "ab ", "file-", "éè", "\U0001F600_", "a.b.", "100$ ", "["]


# --------------------------------------------------------------------------- the implementation

def build_real(entries):
    """Registers the entries, in order, the way build_tag_registry does: register_category on the
    first use of a spelling, then register_tag_factory.  -> (registry, factories, fail index)."""
    reg = TagRegistry()
    cats = {}
    facts = {}
    for i, (c, t, fid) in enumerate(entries):
        try:
            if c not in cats:
                cats[c] = reg.register_category(CategoryName(c))
            f = StubFactory(TagName(t), fid)
            cats[c].register_tag_factory(f, TagName(t))
            facts[id(f)] = (fid, f)
        except ValueError:
            return reg, facts, i
    return reg, facts, None


class Spy:
    """Records what registry.get_tag_factory returned / raised (outside-in wrapper on the instance)."""

    def __init__(self, reg):
        self.reg = reg
        self.calls = []

    def __enter__(self):
        orig = self.reg.get_tag_factory

        def spy(name):
            try:
                f = orig(name)
            except Exception as e:
                self.calls.append(("raise", e))
                raise
            self.calls.append(("ok", f))
            return f
        self.reg.get_tag_factory = spy
        return self

    def __exit__(self, *a):
        try:
            del self.reg.get_tag_factory
        except AttributeError:
            pass
        return False


def classify_error(e, loc):
    if isinstance(e, UnknownCategoryError):
        return {"kind": "ucat", "loc": loc}
    if isinstance(e, AmbiguousNameError):
        return {"kind": "amb", "cats": [str(c) for c in e.category_names], "loc": loc, "message": str(getattr(e, "message", None) or e).split("multiple categories:")[-1]}
    if isinstance(e, UnknownNameError):
        return {"kind": "uname", "loc": loc}
    return {"kind": "other", "detail": "%s: %s" % (type(e).__name__, e)}


def observe_direct(reg, ident, q):
    c, t = q
    try:
        f = reg.get_tag_factory(QualifiedTagName(TagName(t), CategoryName(c) if c is not None else None))
    except TemplateError as e:
        return classify_error(e, None)
    except Exception as e:
        return {"kind": "other", "detail": "%s: %s" % (type(e).__name__, e)}
    return {"kind": "ok", "fid": ident(f)}


def placeholder(q):
    return (q[0] + "." if q[0] is not None else "") + q[1]


def observe_compiled(reg, ident, q, prefix, suffix="()", n_before=None):
    """Through the real TemplateCompiler.  The factory identity is taken from what get_tag_factory
    returned for the placeholder (first call), so later configuration errors do not matter."""
    text = prefix + "%" + placeholder(q) + suffix
    with Spy(reg) as spy, impl.quiet_streams():
        try:
            TemplateCompiler(reg).compile(text)
            err = None
        except TemplateError as e:
            err = e
        except Exception as e:
            return text, {"kind": "other", "detail": "%s: %s" % (type(e).__name__, e)}
    # skip resolutions that belong to tags of the prefix
    if n_before is None:
        n_before = prefix.count("%")
    calls = spy.calls[n_before:]
    if not calls:
        return text, {"kind": "other", "detail": "placeholder never resolved: %r" % (err,)}
    what, val = calls[0]
    if what == "ok":
        return text, {"kind": "ok", "fid": ident(val)}
    if err is None or err is not val:
        return text, {"kind": "other", "detail": "lookup raised %r but compile gave %r" % (val, err)}
    loc = (err.location.line, err.location.column, err.location.length)
    return text, classify_error(err, loc)


# --------------------------------------------------------------------------- the property oracle

def expected(entries, q):
    """The property statement, on the registrations (category spelling, tag, id)."""
    c, t = q
    if c is not None:
        same_cat = [e for e in entries if e[0].lower() == c.lower()]
        hit = [e for e in same_cat if e[1] == t]
        if hit:
            return ("ok", hit[0][2])
        return ("uname",) if same_cat else ("ucat",)
    hit = [e for e in entries if e[1] == t]
    if len(hit) == 1:
        return ("ok", hit[0][2])
    if not hit:
        return ("uname",)
    return ("amb", sorted({e[0].lower() for e in hit}))


def oracle(chk, entries, q, obs, text, col, case):
    """-> True when the property holds on this observation."""
    exp = expected(entries, q)
    c, t = q
    k = obs["kind"]
    if exp[0] == "ok":
        if k != "ok":
            chk.oracle_fail("%s is registered (id %s) but was rejected: %s" % (placeholder(q), exp[1], k), case)
            return False
        if obs["fid"] != exp[1]:
            chk.oracle_fail("%s resolved to factory %s, registered is %s" % (placeholder(q), obs["fid"], exp[1]), case)
            return False
        return True
    if k == "ok":
        chk.oracle_fail("%s resolved to factory %s although the expected outcome is %s" % (
            placeholder(q), obs["fid"], exp[0]), case)
        return False
    if exp[0] != k:
        chk.oracle_fail("%s: expected %s, implementation answered %s" % (placeholder(q), exp[0], k), case)
        return False
    if k == "amb":
        got = sorted({x.lower() for x in obs["cats"]})
        if got != exp[1]:
            chk.oracle_fail("ambiguous %s: categories listed %r, having the name %r" % (t, obs["cats"], exp[1]), case)
            return False
        # ... and listed where the user sees them: in the text of the error
        msg = obs.get("message", "").lower()
        missing = [x for x in exp[1] if x not in msg]
        if missing:
            chk.oracle_fail("ambiguous %s: the error text %r does not name the categories %r" % (t, obs.get("message"), missing), case)
            return False
    loc = obs.get("loc")
    if loc is not None and k in ("ucat", "uname"):
        line, column, length = loc
        part = c if k == "ucat" else t
        start = col if (k == "ucat" or c is None) else col + len(c) + 1
        if line != 1 or text[column:column + length] != part or column != start:
            chk.oracle_fail("%s in %r located at %r, the offending part %r starts at %d" % (
                k, text, loc, part, start), case)
            return False
    return True


# --------------------------------------------------------------------------- Gallina

def q_entry(e):
    return "(%s, %s, %d)" % (q_str(e[0]), q_str(e[1]), e[2])


def q_loc(loc):
    if loc is None:
        return "(@None (N * N))"
    return "(Some (%d, %d))" % (loc[1], loc[2])


def q_obs(o):
    k = o["kind"]
    if k == "ok":
        return "(OOk %d)" % o["fid"] if o["fid"] is not None and o["fid"] >= 0 else "OOther"
    if k == "ucat":
        return "(OUnknownCategory %s)" % q_loc(o.get("loc"))
    if k == "uname":
        return "(OUnknownName %s)" % q_loc(o.get("loc"))
    if k == "amb":
        return "(OAmbiguous %s %s)" % (q_list([q_str(c) for c in o["cats"]], "str"), q_loc(o.get("loc")))
    return "OOther"


def q_query(col, q, o):
    return "(%d, (%s, %s), %s)" % (col, q_opt(q[0], q_str, "str"), q_str(q[1]), q_obs(o))


def q_case(entries, fail, queries):
    return "(%s, %s, %s)" % (
        q_list([q_entry(e) for e in entries], "reg_entry"),
        "(@None nat)" if fail is None else "(Some %d%%nat)" % fail,
        q_list([q_query(col, q, o) for col, q, o in queries], "query"))


# --------------------------------------------------------------------------- tie (i)

def run_registry_case(chk, rng, entries, queries, stats, via_ratio=0.4):
    """-> (gallina case, meta).  Evaluates the oracle on every query."""
    reg, facts, fail = build_real(entries)
    meta = {"tie": "random-registry", "registrations": entries, "valid": is_valid(entries)}

    def ident(f):
        return facts.get(id(f), (-1, None))[0]
    if fail is not None:
        stats["registration_refused"] += 1
        meta["refused_at"] = fail
        if is_valid(entries):
            chk.oracle_fail("valid registrations refused with ValueError at #%d" % fail, meta)
        chk.count(("reg", tuple(entries)))
        return q_case(entries, fail, []), meta
    valid = is_valid(entries)
    if not valid:
        stats["invalid_accepted"] += 1
    # a second registry: same registrations, different order  (order independence, oracle only)
    perm = entries[:]
    rng.shuffle(perm)
    reg2, facts2, fail2 = build_real(perm)

    def ident2(f):
        return facts2.get(id(f), (-1, None))[0]
    rows = []
    meta["queries"] = []
    for q in queries:
        via = rng.random() < via_ratio
        if via:
            prefix = rng.choice(PREFIXES)
            suffix = rng.choice(["()", "()", "(){ctx}", "{ctx}", "()_tail", "(1, a=2)"])
            text, obs = observe_compiled(reg, ident, q, prefix, suffix)
            col = len(prefix) + 1
            stats["via_compiler"] += 1
        else:
            text, obs, col = None, observe_direct(reg, ident, q), 0
            stats["direct"] += 1
        stats["kind"][obs["kind"]] = stats["kind"].get(obs["kind"], 0) + 1
        qmeta = {"query": list(q), "template": text, "observed": obs}
        meta["queries"].append(qmeta)
        if valid:
            case1 = {"tie": "random-registry", "registrations": entries, "query": list(q),
                     "template": text, "observed": obs}
            oracle(chk, entries, q, obs, text, col, case1)
            if fail2 is None:
                obs2 = observe_direct(reg2, ident2, q)
                a = dict(obs, loc=None)
                b = dict(obs2, loc=None)
                if a.get("cats") is not None and b.get("cats") is not None:
                    a["cats"], b["cats"] = sorted(a["cats"]), sorted(b["cats"])
                if a != b:
                    chk.oracle_fail("resolution of %s depends on the registration order: %r vs %r" % (
                        placeholder(q), a, b), dict(case1, other_order=perm, observed_other=obs2))
            else:
                chk.oracle_fail("the same registrations in another order were refused at #%d" % fail2,
                                dict(case1, other_order=perm))
        chk.count(("q", tuple(entries), q, via))
        rows.append((col, q, obs))
    return q_case(entries, None, rows), meta


def corpus_cases():
    out = []
    d = os.path.join(common.VERIF, "corpus", "C12")
    for p in sorted(glob.glob(os.path.join(d, "*.json"))):
        obj = json.load(open(p))
        for c in obj.get("cases", [obj]):
            if "registrations" in c:
                ents = [(e[0], e[1], int(e[2])) for e in c["registrations"]]
                qs = [(q[0], q[1]) for q in c.get("queries", [])]
                out.append((os.path.basename(p), ents, qs))
    return out


# --------------------------------------------------------------------------- tie (ii)

ADHOC_POOL = ["Name", "Ext", "Count", "Upper", "Size", "E", "Probe", "e", "name", "Title", "A"]
ALIAS_POOL = ["Base", "Name", "E", "A", "Trim", "a", "Probe", "Mime", "Short_1"]


def parse_listing(text):
    """--list-tags output -> [(category as printed, tag, description)]"""
    out = []
    cat = None
    for line in text.splitlines():
        if line.startswith("Available tags"):
            continue
        if line and not line.startswith(" ") and line.endswith(":"):
            cat = line[:-1]
        elif line.startswith("  ") and " - " in line and cat is not None:
            name, desc = line.strip().split(" - ", 1)
            out.append((cat, name.strip(), desc))
    return out


class Capture:
    """Wraps tempren.cli.build_tag_registry / TemplateCompiler.compile from the outside for one run of
    main(): keeps the registry that main() built, what get_tag_factory answered, what compile raised."""

    def __init__(self):
        self.registry = None
        self.lookups = []
        self.compile_errors = []

    def install(self):
        self._orig_build = tcli.build_tag_registry
        self._orig_compile = TemplateCompiler.compile
        cap = self

        def build(*a, **k):
            reg = cap._orig_build(*a, **k)
            cap.registry = reg
            orig_get = reg.get_tag_factory

            def spy(name):
                try:
                    f = orig_get(name)
                except Exception as e:
                    cap.lookups.append((str(name), "raise", e))
                    raise
                cap.lookups.append((str(name), "ok", f))
                return f
            reg.get_tag_factory = spy
            return reg

        def compile_(self_, text):
            try:
                return cap._orig_compile(self_, text)
            except TemplateError as e:
                cap.compile_errors.append((text, e))
                raise
        tcli.build_tag_registry = build
        TemplateCompiler.compile = compile_

    def remove(self):
        tcli.build_tag_registry = self._orig_build
        TemplateCompiler.compile = self._orig_compile


def run_main(argv, cwd):
    cap = Capture()
    try:
        res = cli_driver.run_cli(argv, cwd, trace=False, before_main=cap.install)
    finally:
        cap.remove()
    return res, cap


def spellings(rng, cat):
    out = [cat, cat.lower(), cat.upper(), case_variant(rng, cat, "mix"), cat.swapcase()]
    return list(dict.fromkeys(out))


ODD_NAMES = ["Größe", "Café", "Shot٣", "naïve", "Ünï", "x²", "Tıtle", "Å", "Ａｂ", "a-b", "3D", "_x", "x_1", "X", "a.b",
             "Name​", "café_1", "Δelta", "аlias", "ſize", "Kelvin", "Line\n", "\nLine", "Tab\t", "sp ace", ""]


def odd_user_names(chk, stats):
    """A user-defined tag that the command line ACCEPTS (alias or ad-hoc executable) is shown by --list-tags and has to
    be reachable as Category.Name and, when unique, by its bare name.  Names the template language cannot spell
    (non-ASCII letters and digits, dashes, dots, a leading digit ...) must therefore be refused at definition time."""
    with sandbox.Sandbox("verif-c12-odd-") as root:
        os.makedirs(os.path.join(root, "in"))
        os.makedirs(os.path.join(root, "bin"))
        with open(os.path.join(root, "in", "a.txt"), "w") as fh:
            fh.write("x")
        out = {"refused_at_definition": 0, "reachable": 0}
        for name in ODD_NAMES:
            for kind in ("alias", "adhoc"):
                if kind == "alias":
                    define = ["-a", "%s=alias_body" % name]
                    cat = "Alias"
                else:
                    p = os.path.join(root, "bin", name + ".sh")
                    try:
                        with open(p, "w") as fh:
                            fh.write("#!/bin/sh\nprintf adhoc_out\n")
                        os.chmod(p, 0o755)
                    except OSError:
                        continue
                    define = ["-ah", "%s=%s" % (name, p)]
                    cat = "AdHoc"
                res, _cap = run_main(define + ["--list-tags"], root)
                chk.count(("odd-name", kind, name))
                case = {"tie": "odd user-defined names", "kind": kind, "name": name, "cli": ["tempren"] + define}
                if res.status == 2:
                    out["refused_at_definition"] += 1
                    continue
                listed = any(t == name for _c, t, _d in parse_listing(res.stdout))
                for tpl in ("%%%s.%s()" % (cat, name), "%%%s()" % name):
                    r2, _ = run_main(define + ["-dr", "--", tpl + "_%Core.Name()", "in"], root)
                    if r2.status != 0:
                        chk.oracle_fail("the %s %r is accepted on the command line (listed: %s) but %r is rejected with status %s: %s" % (
                            kind, name, listed, tpl, r2.status, r2.stderr.strip()[-160:]), dict(case, template=tpl))
                        break
                else:
                    out["reachable"] += 1
        # a user alias may carry the bare name of a built-in alias and be defined in terms of it (qualified): both stay reachable
        from tempren.pipeline import build_tag_registry
        from tempren.alias import AliasTagFactory
        with impl.quiet_streams():
            reg0 = build_tag_registry({}, {})
        wrapped = 0
        for cat in reg0.category_map.values():
            for tname, fac in cat.tag_map.items():
                if not isinstance(fac, AliasTagFactory):
                    continue
                for body in ("%%%s.%s()" % (cat.name, tname), "x%%%s.%s()|%%Text.Upper()" % (str(cat.name).upper(), tname)):
                    define = ["-a", "%s=%s" % (tname, body)]
                    for tpl in ("%%Alias.%s()" % tname, "%%ALIAS.%s()_%%%s.%s()" % (tname, cat.name, tname)):
                        r2, _ = run_main(define + ["-dr", "--", tpl + "_%Core.Name()", "in"], root)
                        chk.count(("shadowing-alias", str(cat.name), str(tname), body, tpl))
                        wrapped += 1
                        if r2.status in (2, 3):
                            chk.oracle_fail("the user alias %r defined as %r (wrapping the built-in alias of the same name) is rejected in %r: status %s: %s" % (
                                str(tname), body, tpl, r2.status, r2.stderr.strip()[-200:]),
                                {"tie": "user alias wrapping a same-named built-in alias", "cli": ["tempren"] + define + ["-dr", tpl, "in"]})
        out["wrapping_same_named_builtin_alias"] = wrapped
        stats["odd_user_names"] = out


def run_full_registry(chk, rng, stats, n_cli):
    """One configuration of ad-hoc tags / aliases on top of the built-in library."""
    cases, metas = [], []
    with sandbox.Sandbox("verif-c12-") as root:
        os.makedirs(os.path.join(root, "bin"))
        os.makedirs(os.path.join(root, "in"))
        with open(os.path.join(root, "in", "a.txt"), "w") as fh:
            fh.write("x")
        adhoc = rng.sample(ADHOC_POOL, rng.choice([0, 1, 2, 3, 4, 6]))
        aliases = rng.sample(ALIAS_POOL, rng.choice([0, 1, 2, 3, 5]))
        argv0 = []
        render = {}      # (category lower, tag) -> text the tag renders for in/a.txt
        for t in adhoc:
            p = os.path.join(root, "bin", "x_" + t)
            with open(p, "w") as fh:
                fh.write("#!/bin/sh\nprintf 'adhoc_%s'\n" % t)
            os.chmod(p, os.stat(p).st_mode | stat.S_IXUSR)
            argv0 += ["-ah", "%s=%s" % (t, p)]
            render[("adhoc", t)] = "adhoc_" + t
        # some aliases refer to other aliases of the same set, to earlier- and later-sorting names alike (acyclic: only
        # to aliases later in a random permutation): whether an alias resolves must not depend on registration order
        perm = list(aliases)
        rng.shuffle(perm)
        refs = {}
        for i, t in enumerate(perm):
            later = perm[i + 1:]
            if later and rng.random() < 0.6:
                refs[t] = rng.choice(later)
        stats["alias_references"] = stats.get("alias_references", 0) + len(refs)

        def alias_render(t):
            return "alias_" + t + (alias_render(refs[t]) if t in refs else ".txt")
        for t in aliases:
            tail = ("%%%s.%s()" % (rng.choice(["Alias", "alias", "ALIAS"]), refs[t])) if t in refs else "%Core.Ext()"
            argv0 += ["-a", "%s=alias_%s%s" % (t, t, tail)]
            render[("alias", t)] = alias_render(t)
        render[("core", "Name")] = "a.txt"
        render[("core", "Ext")] = ".txt"
        render[("core", "Base")] = "a"
        render[("core", "Count")] = "0"
        cfg = {"tie": "full-registry", "adhoc": adhoc, "aliases": aliases}
        stats["configs"].append({"adhoc": adhoc, "aliases": aliases})

        # 1. the listing, from tempren.cli.main() itself; the registry main() built is kept
        res, cap = run_main(argv0 + ["--list-tags"], root)
        listing = parse_listing(res.stdout)
        reg = cap.registry
        if res.status != 0 or not listing or reg is None:
            chk.oracle_fail("--list-tags failed: status %r, %d lines" % (res.status, len(listing)),
                            dict(cfg, stderr=res.stderr[-500:]))
            return cases, metas
        try:
            del reg.get_tag_factory       # drop the spy of Capture; Spy is used per query below
        except AttributeError:
            pass
        entries = [(c, t, i) for i, (c, t, _d) in enumerate(listing)]
        stats["listing_lines"] = len(listing)
        # ground truth: listing line -> factory object actually stored for that line
        by_key = {}
        for cat in reg.category_map.values():
            for t, f in cat.tag_map.items():
                by_key[(str(cat.name).lower(), str(t))] = f
        ids = {}
        for c, t, i in entries:
            f = by_key.get((c.lower(), t))
            if f is None:
                chk.oracle_fail("--list-tags shows %s.%s but the registry has no such tag" % (c, t), cfg)
                continue
            ids[id(f)] = i
        if len(by_key) != len(entries):
            chk.oracle_fail("--list-tags shows %d tags, the registry holds %d" % (len(entries), len(by_key)), cfg)

        def ident(f):
            return ids.get(id(f), -1)
        if not is_valid(entries):
            chk.oracle_fail("the listing itself has colliding categories / duplicate tags", cfg)
            return cases, metas

        # 2. every line, every spelling of the category, and the bare name: through the real compiler
        rows = []
        qmeta = []
        cats = sorted({c for c, _, _ in entries})
        queries = []
        for c, t, i in entries:
            for sp in spellings(rng, c):
                queries.append((sp, t))
            queries.append((None, t))
            if t.swapcase() != t:
                queries.append((rng.choice(spellings(rng, c)), rng.choice([t.swapcase(), t.lower(), t.upper()])))
        for c in cats:
            queries.append((case_variant(rng, c), "Nope"))
            queries.append((c + "x", "Name"))
        queries += [(None, "Nope"), (None, "name"), (None, "NAME"), ("Nope", "Nope")]
        for q in queries:
            # the placeholder at top level, nested in contexts, and left of a pipe (= context of the piped tag): the
            # error has to be located at the offending part wherever it stands (n_before: tags resolved before it)
            prefix, suffix, nb = rng.choice([("", "()", 0), ("", "()", 0), ("x_", "()", 0), ("%Core.Ext()-", "()", 1), ("é ", "()", 0),
                                             ("%Text.Upper(){", "()}", 1), ("%Text.Upper(){a%Text.Lower(){", "()}b}", 2),
                                             ("", "()|%Text.Upper()", 1), ("ab%Text.Lower(){", "()|%Text.Upper()}", 2)])
            text, obs = observe_compiled(reg, ident, q, prefix, suffix, n_before=nb)
            col = len(prefix) + 1
            case1 = dict(cfg, query=list(q), template=text, observed=obs,
                         cli=["tempren"] + argv0 + ["-dr", text, "in"])
            oracle(chk, entries, q, obs, text, col, case1)
            stats["kind"][obs["kind"]] = stats["kind"].get(obs["kind"], 0) + 1
            stats["full_queries"] += 1
            chk.count(("full", tuple(adhoc), tuple(aliases), q))
            rows.append((col, q, obs))
            qmeta.append({"query": list(q), "template": text, "observed": obs})
        cases.append(q_case(entries, None, rows))
        metas.append(dict(cfg, registrations=entries, queries=qmeta))

        # 3. a sample through tempren.cli.main(): --help <name> and dry runs
        desc = {(c.lower(), t): d for c, t, d in listing}
        special = [e for e in entries if e[0].lower() in ("adhoc", "alias")]
        shadowed = [e for e in entries if sum(1 for x in entries if x[1] == e[1]) > 1]
        sample = special + rng.sample(shadowed, min(len(shadowed), 6)) + rng.sample(entries, min(len(entries), 6))
        rng.shuffle(sample)
        for (c, t, i) in sample[:n_cli]:
            sp = rng.choice(spellings(rng, c))
            bare = rng.random() < 0.25
            if rng.random() < 0.2 and t.swapcase() != t:      # tag names stay case-sensitive at the CLI too
                t = rng.choice([t.swapcase(), t.lower(), t.upper()])
            q = (None, t) if bare else (sp, t)
            exp = expected(entries, q)
            # --help
            res, cap = run_main(argv0 + ["--help", placeholder(q)], root)
            stats["cli_help"] += 1
            chk.count(("help", tuple(adhoc), tuple(aliases), q))
            case1 = dict(cfg, query=list(q), cli=["tempren"] + argv0 + ["--help", placeholder(q)],
                         status=res.status, stderr=res.stderr[-300:])
            mine = [x for x in cap.lookups if x[0] == placeholder(q)][:1]
            if exp[0] == "ok":
                if res.status != 0 or not mine or mine[0][1] != "ok":
                    chk.oracle_fail("--help %s: listed tag rejected (status %r)" % (placeholder(q), res.status), case1)
                else:
                    cap_ids = {}
                    for cat in cap.registry.category_map.values():
                        for tt, f in cat.tag_map.items():
                            cap_ids[id(f)] = (str(cat.name).lower(), str(tt))
                    got = cap_ids.get(id(mine[0][2]))
                    want = (entries[exp[1]][0].lower(), entries[exp[1]][1])
                    if got != want or desc[want] not in res.stdout:
                        chk.oracle_fail("--help %s documents %r, expected %r" % (placeholder(q), got, want), case1)
            else:
                if res.status == 0 or (mine and mine[0][1] == "ok"):
                    chk.oracle_fail("--help %s accepted although the name is %s" % (placeholder(q), exp[0]), case1)
            # dry run
            text = "r_%" + placeholder(q) + "()"
            res, cap = run_main(argv0 + ["--dry-run", text, "in"], root)
            stats["cli_dry_run"] += 1
            chk.count(("dry", tuple(adhoc), tuple(aliases), q))
            case1 = dict(cfg, query=list(q), cli=["tempren"] + argv0 + ["--dry-run", text, "in"],
                         status=res.status, stderr=res.stderr[-300:])
            mine = [x for x in cap.lookups if x[0] == placeholder(q)][:1]
            if exp[0] == "ok":
                want = (entries[exp[1]][0].lower(), entries[exp[1]][1])
                if not mine or mine[0][1] != "ok":
                    chk.oracle_fail("dry run with %s: listed tag rejected (status %r)" % (text, res.status), case1)
                elif want in render:
                    rep = res.report()
                    if res.status != 0 or rep != [("a.txt", "r_" + render[want], False)]:
                        chk.oracle_fail("dry run with %s: expected a.txt -> %s, got status %r %r" % (
                            text, "r_" + render[want], res.status, rep), case1)
            else:
                errs = [e for (tx, e) in cap.compile_errors if tx == text]
                if res.status != 3 or not errs:
                    chk.oracle_fail("dry run with %s: expected a template error (%s), status %r" % (
                        text, exp[0], res.status), case1)
                else:
                    e = errs[-1]
                    obs = classify_error(e, (e.location.line, e.location.column, e.location.length))
                    oracle(chk, entries, q, obs, text, 3, case1)
            if os.listdir(os.path.join(root, "in")) != ["a.txt"]:
                chk.oracle_fail("dry run changed the directory", case1)
    return cases, metas


# --------------------------------------------------------------------------- run

def eval_cases(chk, cases, metas):
    mism, errs = common.run_model_cases(IMPORTS, "reg_case", "reg_case_ok", cases, shard_size=150)
    for e in errs:
        chk.proof_failures.append({"what": "coqc on generated cases (%s)" % CORR, "log": e["output"]})
    for m in mism:
        meta = metas[m]
        out = None
        if len(chk.corr_failures) < 3:      # what the model answers, for the replay file
            rc, out = common.coq_eval_term(IMPORTS, "reg_case_model %s" % cases[m])
            out = out[-3000:]
        chk.corr_fail(CORR, meta, model=out)
    return mism


def run(chk):
    rng = chk.rng
    quick = chk.tier == "quick"
    n_reg = 1500 if quick else 40000
    n_q = 16 if quick else 20
    n_full = 3 if quick else 40
    n_cli = 14 if quick else 40
    stats = {"registration_refused": 0, "invalid_accepted": 0, "via_compiler": 0, "direct": 0, "kind": {},
             "registry_kinds": {}, "configs": [], "full_queries": 0, "cli_help": 0, "cli_dry_run": 0,
             "corpus": 0, "exhaustive_small": 0}
    cases, metas = [], []

    for name, ents, qs in corpus_cases():
        stats["corpus"] += 1
        qs = qs or gen_queries(rng, ents, n_q)
        c, m = run_registry_case(chk, rng, ents, qs, stats)
        m["corpus"] = name
        cases.append(c)
        metas.append(m)

    odd_user_names(chk, stats)
    for i in range(n_full):
        c2, m2 = run_full_registry(chk, rng, stats, n_cli)
        cases += c2
        metas += m2
        if i == 0 and m2:
            chk.sample({"full_registry": stats["configs"][-1], "listing_lines": stats.get("listing_lines"),
                        "queries": m2[0]["queries"][:3]})

    for i in range(n_reg):
        entries, kind = gen_registry(rng)
        stats["registry_kinds"][kind] = stats["registry_kinds"].get(kind, 0) + 1
        qs = gen_queries(rng, entries, n_q)
        c, m = run_registry_case(chk, rng, entries, qs, stats)
        cases.append(c)
        metas.append(m)
        if i < 3:
            chk.sample({"registrations": entries, "queries": m.get("queries", [])[:4]})

    if not quick:
        # exhaustive small scope: two category spellings x two tag names, every subset of the 4 possible
        # registrations in every order, every query over the spelled variants
        import itertools
        cs = ["Ab", "aB", "c"]
        ts = ["T", "t"]
        univ = [(c, t) for c in cs for t in ts]
        allq = [(c, t) for c in ["Ab", "aB", "AB", "ab", "c", "C", "d"] for t in ["T", "t", "u"]] + \
               [(None, t) for t in ["T", "t", "u"]]
        for k in range(1, 4):
            for sub in itertools.permutations(univ, k):
                ents = [(c, t, j) for j, (c, t) in enumerate(sub)]
                c, m = run_registry_case(chk, rng, ents, allq, stats, via_ratio=0.1)
                cases.append(c)
                metas.append(m)
                stats["exhaustive_small"] += 1

    eval_cases(chk, cases, metas)

    # the whole-program model (Whole/*.v), on which this property's whole-program theorems rest, against the real command line
    import whole as _whole
    import random as _random
    _ws = {}
    _whole.whole_stream(chk, _random.Random(chk.seed * 7919 + 12), 60 if chk.tier == "quick" else 2500, _ws)
    chk.notes["whole_program_tie"] = _ws
    chk.coverage["rule"] = (
        "tie (i): random registrations (1-5 categories spelled in random case, 1-5 tag names incl. case variants, "
        "8% with a second spelling of a category, 6% with a duplicate tag) applied in random order to the real "
        "TagRegistry with stub factories, and a second time in another order (order independence); 16-20 queries "
        "each (qualified in any case, bare, wrong-case tag, unknown category, unknown name), 40% through the real "
        "TemplateCompiler with a random prefix (locations), else get_tag_factory directly; thorough adds every "
        "ordered selection of <= 3 registrations over 3 category spellings x 2 tag names with 24 queries each.  "
        "tie (ii): tempren.cli.main() --list-tags with random ad-hoc tags / aliases shadowing built-in names; every "
        "listed line resolved in 5 spellings of the category and bare through the real compiler on the registry "
        "main() built; a sample through main() --help <name> and main() --dry-run.  A case is distinct by "
        "(registrations in order, query, route)")
    chk.coverage["input_distribution"] = stats
    chk.coverage["trusted_base"] = common.BASE_TRUSTED + [
        "modelled, not verified: dict lookup / insertion order, str.lower() on ASCII names, sorted() on str "
        "(code-point lexicographic), len(str) in code points, ANTLR token start offsets (compared per query)",
        "harness/c12.py observes get_tag_factory by wrapping the bound method on the registry instance and "
        "tempren.cli.build_tag_registry / TemplateCompiler.compile for runs of main() (no source hook)"]
    chk.assumptions += [
        "category and tag names are ASCII identifiers (what the template grammar can spell); str.lower() is "
        "modelled by ASCII lower-casing.  TagName() also accepts a few non-ASCII letters (U+017F, U+212A, U+0130, "
        "U+0131) through re.IGNORECASE; such names cannot be written in a template and are outside the model",
        "registrations are performed the way build_tag_registry performs them (register_category on the first "
        "use of a spelling, register_tag_factory afterwards); empty categories do not occur",
        "factory identity in tie (ii) is read from registry.category_map / tag_map of the registry main() built",
        "the tie to the code is sampled (differential testing); the theorems are about the model Tpl/Registry.v"]


def replay(chk, obj):
    """Re-runs the stored case(s): prints the implementation's answers, the oracle's verdict and the
    model's answers."""
    items = obj.get("failures") or obj.get("broken_correspondence") or [obj]
    bad = 0
    for it in items[:20]:
        case = it.get("case", it)
        print("---- %s" % it.get("what", it.get("correspondence", "case")))
        if "registrations" in case and case.get("tie") != "full-registry":
            ents = [(e[0], e[1], int(e[2])) for e in case["registrations"]]
            if "query" in case:
                qs = [tuple(case["query"])]
                texts = [case.get("template")]
            else:
                qs = [tuple(x["query"]) for x in case.get("queries", [])]
                texts = [x.get("template") for x in case.get("queries", [])]
            reg, facts, fail = build_real(ents)

            def ident(f):
                return facts.get(id(f), (-1, None))[0]
            print("registrations:", ents, "refused at:", fail)
            rows = []
            before = len(chk.oracle_failures)
            for q, text in zip(qs, texts):
                q = (q[0], q[1])
                if fail is not None:
                    break
                if text:
                    prefix = text[: text.index("%" + placeholder(q))]
                    suffix = text[len(prefix) + 1 + len(placeholder(q)):]
                    text, obs = observe_compiled(reg, ident, q, prefix, suffix)
                    col = len(prefix) + 1
                else:
                    obs, col = observe_direct(reg, ident, q), 0
                print("  query %-22s template %-28r implementation: %s   property expects: %s" % (
                    placeholder(q), text, obs, expected(ents, q)))
                if is_valid(ents):
                    oracle(chk, ents, q, obs, text, col, case)
                rows.append((col, q, obs))
            gal = q_case(ents, fail, rows)
            rc, out = common.coq_eval_term(IMPORTS, "(reg_case_ok %s, reg_case_model %s)" % (gal, gal))
            print("  model (agrees, (refused at, answers with locations)):\n   ", out.replace("\n", "\n    "))
            if len(chk.oracle_failures) > before or "(true," not in out.replace(" ", "").replace("\n", "") and "= (true" not in out:
                bad = 1
            for f in chk.oracle_failures[before:]:
                print("  ORACLE:", f["what"])
        else:
            # a case of the full registry: re-run the recorded command line through tempren.cli.main()
            with sandbox.Sandbox("verif-c12-") as root:
                os.makedirs(os.path.join(root, "bin"))
                os.makedirs(os.path.join(root, "in"))
                open(os.path.join(root, "in", "a.txt"), "w").write("x")
                argv = []
                for t in case.get("adhoc", []):
                    p = os.path.join(root, "bin", "x_" + t)
                    open(p, "w").write("#!/bin/sh\nprintf 'adhoc_%s'\n" % t)
                    os.chmod(p, 0o755)
                    argv += ["-ah", "%s=%s" % (t, p)]
                for t in case.get("aliases", []):
                    argv += ["-a", "%s=alias_%s%%Core.Ext()" % (t, t)]
                res, cap = run_main(argv + ["--list-tags"], root)
                listing = parse_listing(res.stdout)
                ents = [(c, t, i) for i, (c, t, _d) in enumerate(listing)]
                q = tuple(case.get("query", [None, "Name"]))
                text = case.get("template") or ("r_%" + placeholder(q) + "()")
                res, cap = run_main(argv + ["--dry-run", text, "in"], root)
                exp = expected(ents, q)
                print("  tempren", " ".join(argv + ["--dry-run", repr(text), "in"]))
                print("  status %r\n  stdout: %s\n  stderr: %s" % (res.status, res.stdout.strip()[-300:], res.stderr.strip()[-400:]))
                print("  property expects:", exp if exp[0] != "ok" else ("ok", ents[exp[1]][:2]))
                rc, out = common.coq_eval_term(
                    IMPORTS, "get_in %s (%s, %s)" % (q_list([q_entry(e) for e in ents], "reg_entry"),
                                                     q_opt(q[0], q_str, "str"), q_str(q[1])))
                print("  model (fed with the listing):", out)
                ok_impl = (res.status == 0) if exp[0] == "ok" else (res.status == 3)
                if not ok_impl:
                    print("  ORACLE: the property fails on this input")
                    bad = 1
    return bad
